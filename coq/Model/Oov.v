(* Model of the unknown-word (OOV) candidate machinery of sudachi.rs  (property C13).
     input_text/buffer/mod.rs      build (can_bow chain), fill_cat_continuity, get_word_candidate_length, char_distance
     analysis/created.rs           CreatedWords (single / add_word / has_word)
     plugin/oov/mecab_oov/mod.rs   provide_oov_gen
     plugin/oov/simple_oov/mod.rs  provide_oov
     plugin/oov/regex_oov/mod.rs   provide_oov (the regex match itself is an oracle)
     analysis/stateful_tokenizer.rs  LatticeBuilder::build_lattice / provide_oovs (provider sequencing, fallback)
   Executable definitions only (no proofs) so that the model still runs when a proof breaks.
   Character positions, lengths and the continuity values are `nat`; class bit sets, ids and the CreatedWords carrier are `N`. *)
From Coq Require Import List NArith ZArith Bool String PeanoNat.
From SudachiVerif Require Generated.CategoryFacts Generated.OovFacts.
From SudachiVerif Require Import Model.Harness.
Import ListNotations.
Open Scope N_scope.

Module OF := Generated.OovFacts.

(* ------------------------------------------------------------------ helpers *)
Definition inter (a b : N) : bool := negb (N.land a b =? 0).          (* CategoryType::intersects *)
Definition contains (a b : N) : bool := N.land a b =? b.              (* CategoryType::contains *)

(* comparison operators re-read from the source as text *)
Definition cmp_eval (op : string) (a b : nat) : bool :=
  if String.eqb op ">" then Nat.ltb b a
  else if String.eqb op ">=" then Nat.leb b a
  else if String.eqb op "<" then Nat.ltb a b
  else if String.eqb op "<=" then Nat.leb a b
  else if String.eqb op "==" then Nat.eqb a b
  else if String.eqb op "!=" then negb (Nat.eqb a b)
  else false.

Inductive res (A : Type) := ROk (a : A) | RErr | RPanic.
Arguments ROk {A} a. Arguments RErr {A}. Arguments RPanic {A}.

(* ------------------------------------------------------------------ InputBuffer::build: can_bow *)
Inductive bow_rule :=
| RPrevForbids                       (* if !next_bow { next_bow = true; false } *)
| RForbidThisAndNext (mask : N)      (* else if cat.intersects(mask) { next_bow = false; false } *)
| RForbidThis (mask : N)             (* else if cat.intersects(mask) { false } *)
| RNeedsClassChange (mask : N)       (* else if cat.intersects(mask) { !cat.intersects(prev_cat) } *)
| RUnknown.

Definition decode_rule (r : string * N) : bow_rule :=
  let (n, m) := r in
  if String.eqb n "prev_forbids" then RPrevForbids
  else if String.eqb n "forbid_this_and_next" then RForbidThisAndNext m
  else if String.eqb n "forbid_this" then RForbidThis m
  else if String.eqb n "needs_class_change" then RNeedsClassChange m
  else RUnknown.

(* the chain as it stands in the source now *)
Definition bow_chain : list bow_rule := map decode_rule OF.bow_chain.

(* one evaluation of the chain: (can_bow of this char, next_bow afterwards) *)
Fixpoint eval_chain (chain : list bow_rule) (next_bow : bool) (prev c : N) : bool * bool :=
  match chain with
  | [] => (true, next_bow)
  | r :: rest =>
    match r with
    | RPrevForbids => if negb next_bow then (false, true) else eval_chain rest next_bow prev c
    | RForbidThisAndNext m => if inter c m then (false, false) else eval_chain rest next_bow prev c
    | RForbidThis m => if inter c m then (false, next_bow) else eval_chain rest next_bow prev c
    | RNeedsClassChange m => if inter c m then (negb (inter c prev), next_bow) else eval_chain rest next_bow prev c
    | RUnknown => eval_chain rest next_bow prev c
    end
  end.

Fixpoint bow_loop (chain : list bow_rule) (next_bow : bool) (prev : N) (cs : list N) : list bool :=
  match cs with
  | [] => []
  | c :: t => let (b, nb) := eval_chain chain next_bow prev c in b :: bow_loop chain nb c t
  end.

(* can_bow per character (continuation bytes of a character are never word starts; checked by the harness) *)
Definition can_bow (cs : list N) : list bool := bow_loop bow_chain true 0 cs.

(* ------------------------------------------------------------------ fill_cat_continuity *)
(* the pinned tree's single backward pass: returns (running class set, values) *)
Fixpoint bwd (cs : list N) : N * list nat :=
  match cs with
  | [] => (0, [])
  | c :: t =>
    match t with
    | [] => (c, [1%nat])
    | _ => let '(k, vs) := bwd t in
           let common := N.land c k in
           if negb (common =? 0) then (common, S (hd 0%nat vs) :: vs) else (c, 1%nat :: vs)
    end
  end.
Definition continuity_bwd (cs : list N) : list nat := snd (bwd cs).

(* the forward segmentation: [fwd common cs] = (how many leading characters of cs continue the run whose common
   class set is [common], values for all of cs) *)
Fixpoint fwd (common : N) (cs : list N) : nat * list nat :=
  match cs with
  | [] => (0%nat, [])
  | c :: t =>
    let nx := N.land common c in
    if nx =? 0 then let '(k, vs) := fwd c t in (0%nat, S k :: vs)
    else let '(k, vs) := fwd nx t in (S k, S k :: vs)
  end.
Definition continuity_fwd (cs : list N) : list nat :=
  match cs with
  | [] => []
  | c :: t => let '(k, vs) := fwd c t in S k :: vs
  end.

(* what the source does now (direction re-read on every run) *)
Definition continuity (cs : list N) : list nat :=
  if OF.continuity_forward then continuity_fwd cs else continuity_bwd cs.

(* ---- specification (DESIGN section 6): greedy segmentation from offset 0; value = distance to the end of the run *)
(* number of characters of t that continue a run whose common class set is [common] *)
Fixpoint run_ext (common : N) (t : list N) : nat :=
  match t with
  | [] => 0%nat
  | c :: t' => if N.land common c =? 0 then 0%nat else S (run_ext (N.land common c) t')
  end.
Fixpoint seg_lengths (fuel : nat) (cs : list N) : list nat :=
  match fuel with
  | O => []
  | S f => match cs with
           | [] => []
           | c :: t => let k := run_ext c t in S k :: seg_lengths f (skipn k t)
           end
  end.
Fixpoint countdown (n : nat) : list nat := match n with O => [] | S k => n :: countdown k end.
Definition continuity_spec (cs : list N) : list nat := flat_map countdown (seg_lengths (List.length cs) cs).

(* ------------------------------------------------------------------ InputBuffer accessors *)
(* get_word_candidate_length(char_idx): distance to the next character that can start a word, or to the end *)
Fixpoint next_bow_dist (bs : list bool) : nat :=
  match bs with [] => 0%nat | b :: t => if b then 0%nat else S (next_bow_dist t) end.
Definition word_candidate_length (bows : list bool) (idx : nat) : nat := S (next_bow_dist (skipn (S idx) bows)).

(* char_distance(cpt, offset) = min(cpt + offset, len) - cpt *)
Definition char_distance (len cpt off : nat) : nat := (Nat.min (cpt + off) len - cpt)%nat.

(* ------------------------------------------------------------------ CreatedWords *)
Inductive has_word_t := HYes | HNo | HMaybe.
Definition MAXV : N := OF.created_max_value.

(* single(length): None = debug_assert!(raw > 0) fires (debug profile) *)
Definition cw_single (len : N) : option N :=
  if OF.single_asserts_positive && (len =? 0) then None
  else Some (N.shiftl 1 (N.min (len - 1) (MAXV - 1))).
Definition cw_add_word (cw len : N) : option N := option_map (N.lor cw) (cw_single len).
Definition cw_has_word (cw len : N) : option has_word_t :=
  match cw_single len with
  | None => None
  | Some m => Some (if N.land cw m =? 0 then HNo
                    else if cmp_eval OF.has_word_maybe_cmp (N.to_nat len) (N.to_nat MAXV) then HMaybe else HYes)
  end.
Fixpoint cw_add_all (cw : N) (lens : list nat) : option N :=
  match lens with
  | [] => Some cw
  | l :: t => match cw_add_word cw (N.of_nat l) with Some cw' => cw_add_all cw' t | None => None end
  end.

(* ------------------------------------------------------------------ nodes *)
Record node := mkNode { n_begin : nat; n_end : nat; n_left : N; n_right : N; n_cost : Z; n_pos : N }.
Definition node_eqb (a b : node) : bool :=
  Nat.eqb (n_begin a) (n_begin b) && Nat.eqb (n_end a) (n_end b) && (n_left a =? n_left b) && (n_right a =? n_right b)
  && Z.eqb (n_cost a) (n_cost b) && (n_pos a =? n_pos b).
Definition node_len (n : node) : nat := (n_end n - n_begin n)%nat.

(* ------------------------------------------------------------------ MeCabOovPlugin *)
(* ci_length is the u32 of the char.def header: kept in N (it may be 4294967295) *)
Record cinfo := mkCI { ci_type : N; ci_invoke : bool; ci_group : bool; ci_length : N }.
Record oovdef := mkOov { o_left : N; o_right : N; o_cost : Z; o_pos : N }.
Record mecab := mkMecab { m_cats : list cinfo; m_oovs : list (N * list oovdef) }.

Definition find_cinfo (m : mecab) (t : N) : option cinfo := find (fun ci => ci_type ci =? t) (m_cats m).
Definition find_oovs (m : mecab) (t : N) : option (list oovdef) :=
  option_map snd (find (fun p => fst p =? t) (m_oovs m)).

(* bitflags 2.x Flags::iter(): named flags in declaration order that are contained in the source and still intersect
   the remaining bits; whatever remains is yielded last as one composite value *)
Fixpoint iter_names (flags : list N) (source remaining : N) : list N * N :=
  match flags with
  | [] => ([], remaining)
  | f :: t =>
    if remaining =? 0 then ([], remaining)
    else if contains source f && inter remaining f
         then let '(l, r) := iter_names t source (N.ldiff remaining f) in (f :: l, r)
         else iter_names t source remaining
  end.
Definition flag_values : list N := map snd Generated.CategoryFacts.category_bits.
Definition iter_flags (c : N) : list N :=
  let '(l, r) := iter_names flag_values c c in if r =? 0 then l else l ++ [r].

Definition oov_node (b e : nat) (o : oovdef) : node := mkNode b e (o_left o) (o_right o) (o_cost o) (o_pos o).

(* for i in 1..=length {
     sublength = char_distance(offset, i);
     if sublength > llength || sublength < i { break }       (second test since the `fix:` of the clamped-distance loop)
     push a candidate offset..offset+sublength for every unk.def template }
   [length] is a u32 and may be huge, so the loop counter is followed with explicit fuel: with the clamp test the loop
   leaves at the latest when i passes the end of the text (mecab_fuel, bound proved in Proofs/OovMecab.v); without it the
   loop really runs `length` times. *)
Definition loop_done (i : nat) (n : N) : bool :=
  if OF.mecab_len_inclusive then N.ltb n (N.of_nat i) else N.leb n (N.of_nat i).
Fixpoint len_loop (fuel i : nat) (n : N) (len off llength : nat) (oovs : list oovdef) : list node :=
  match fuel with
  | O => []
  | S f =>
    if loop_done i n then []
    else let sub := char_distance len off i in
         if cmp_eval OF.mecab_break_cmp sub llength || (OF.mecab_break_on_clamp && Nat.ltb sub i) then []
         else map (oov_node off (off + sub)) oovs ++ len_loop f (S i) n len off llength oovs
  end.
Definition mecab_fuel (n : N) (len off : nat) : nat :=
  if OF.mecab_break_on_clamp then S (S (len - off)) else N.to_nat n.

Definition mecab_class (m : mecab) (len off char_len : nat) (other : N) (ctype : N) : list node :=
  match find_cinfo m ctype with
  | None => []
  | Some ci =>
    if negb (ci_invoke ci) && negb (other =? 0) then []
    else match find_oovs m (ci_type ci) with
         | None => []
         | Some oovs =>
           let grp := if ci_group ci then map (oov_node off (off + char_len)) oovs else [] in
           let ll := if ci_group ci then (char_len - OF.mecab_group_dec)%nat else char_len in
           grp ++ len_loop (mecab_fuel (ci_length ci) len off) 1 (ci_length ci) len off ll oovs
         end
  end.

(* provide_oov_gen; RPanic = index out of range *)
Definition mecab_provide (m : mecab) (cs : list N) (conts : list nat) (off : nat) (other : N) : res (list node) :=
  match nth_error conts off, nth_error cs off with
  | Some char_len, Some c =>
    if Nat.eqb char_len 0 then ROk []
    else ROk (flat_map (mecab_class m (List.length cs) off char_len other) (iter_flags c))
  | _, _ => RPanic
  end.

(* ------------------------------------------------------------------ SimpleOovPlugin *)
Definition simple_provide (o : oovdef) (bows : list bool) (off : nat) (other : N) : res (list node) :=
  if negb (other =? 0) then ROk []
  else if Nat.ltb off (List.length bows) then ROk [oov_node off (off + word_candidate_length bows off) o]
  else RPanic.

(* ------------------------------------------------------------------ RegexOovProvider *)
(* x_matches: for every offset, the result of regex.find on the characters [offset, min(len, offset + max_length)):
   None, or Some (match starts at 0, match end in characters relative to offset) -- the regex engine is an oracle *)
Record regexp := mkRegex { x_def : oovdef; x_maxlen : option nat; x_strict : bool; x_debug : bool;
                           x_matches : list (option (bool * nat)) }.
Definition regex_max_length (x : regexp) : nat :=
  match x_maxlen x with Some n => n | None => OF.regex_default_max_length end.

Definition regex_provide (x : regexp) (conts : list nat) (off : nat) (other : N) (result : list node) : res (list node) :=
  let blocked :=
    if x_strict x && Nat.ltb 0 off then
      match nth_error conts off, nth_error conts (pred off) with
      | Some this, Some prev => Some (cmp_eval OF.regex_strict_cmp (this + OF.regex_strict_delta) prev)
      | _, _ => None
      end
    else Some false in
  match blocked with
  | None => RPanic
  | Some true => ROk []
  | Some false =>
    match nth_error (x_matches x) off with
    | None => RPanic
    | Some None => ROk []
    | Some (Some (at0, mlen)) =>
      if negb at0 then (if x_debug x then RErr else ROk [])
      else if OF.regex_ignores_empty_match && Nat.eqb mlen 0 then ROk []   (* an empty match is not a word *)
      else
        let mend := (off + mlen)%nat in
        let nd := oov_node off mend (x_def x) in
        match cw_has_word other (N.of_nat mlen) with
        | None => RPanic
        | Some HYes => ROk []
        | Some HNo => ROk [nd]
        | Some HMaybe => if existsb (fun n => Nat.eqb (n_end n) mend) result then ROk [] else ROk [nd]
        end
    end
  end.

(* ------------------------------------------------------------------ provider sequencing (build_lattice) *)
Inductive provider := PMecab (m : mecab) | PSimple (o : oovdef) | PRegex (x : regexp).

Record ctx := mkCtx { c_cats : list N; c_bows : list bool; c_conts : list nat }.
Definition mk_ctx (cs : list N) : ctx := mkCtx cs (can_bow cs) (continuity cs).

Definition provide (p : provider) (c : ctx) (off : nat) (other : N) (result : list node) : res (list node) :=
  match p with
  | PMecab m => mecab_provide m (c_cats c) (c_conts c) off other
  | PSimple o => simple_provide o (c_bows c) off other
  | PRegex x => regex_provide x (c_conts c) off other result
  end.

(* LatticeBuilder::provide_oovs: state = (created words, node buffer) *)
Definition provide_oovs (c : ctx) (off : nat) (st : N * list node) (p : provider) : res (N * list node) :=
  match provide p c off (fst st) (snd st) with
  | ROk ns => match cw_add_all (fst st) (map node_len ns) with
              | Some cw => ROk (cw, snd st ++ ns)
              | None => RPanic
              end
  | RErr => RErr
  | RPanic => RPanic
  end.

Fixpoint provide_all (c : ctx) (off : nat) (st : N * list node) (ps : list provider) : res (N * list node) :=
  match ps with
  | [] => ROk st
  | p :: t => match provide_oovs c off st p with
              | ROk st' => provide_all c off st' t
              | RErr => RErr
              | RPanic => RPanic
              end
  end.

Definition fallback_of (ps : list provider) : option provider :=
  if String.eqb OF.fallback_provider "last" then last (map Some ps) None else hd_error ps.

(* the regular part of one position: dictionary nodes, then (unless the class of the character is gated) every provider in
   configuration order.  State = (created words, node buffer).  [gate] = classes at which the provider loop is skipped. *)
Definition normal_pass_g (gate : N) (c : ctx) (ps : list provider) (off : nat) (dict : list node) : res (N * list node) :=
  match cw_add_all 0 (map node_len dict), nth_error (c_cats c) off with
  | Some cw0, Some cat =>
    if inter cat gate then ROk (cw0, dict) else provide_all c off (cw0, dict) ps
  | _, _ => RPanic
  end.

(* one reachable position: [dict] = the dictionary nodes already inserted there (after the can_bow filter), [fb] = the
   fallback provider.  Result: the node buffer (dictionary nodes followed by the OOV nodes in creation order). *)
Definition position_step_g (gate : N) (fb : option provider) (c : ctx) (ps : list provider) (off : nat) (dict : list node)
  : res (list node) :=
  match normal_pass_g gate c ps off dict with
  | ROk st1 =>
    let r2 := if fst st1 =? 0
              then match fb with Some p => provide_oovs c off st1 p | None => RPanic end
              else ROk st1 in
    match r2 with
    | ROk st2 => if fst st2 =? 0 then RErr else ROk (snd st2)
    | RErr => RErr
    | RPanic => RPanic
    end
  | RErr => RErr
  | RPanic => RPanic
  end.

(* what the source does now: gate and fallback provider as re-read on every run *)
Definition normal_pass := normal_pass_g OF.oov_gate_mask.
Definition position_step (c : ctx) (ps : list provider) := position_step_g OF.oov_gate_mask (fallback_of ps) c ps.

(* the dictionary side is an oracle: for every position the end offsets (in characters) of the lexicon matches, in lookup
   order; build_lattice drops those that end where no word may start *)
Definition dict_node (off e : nat) : node := mkNode off e 0 0 0%Z 0.
Definition dict_filter (c : ctx) (off : nat) (ends : list nat) : list node :=
  map (dict_node off)
      (filter (fun e => negb (OF.lexicon_end_needs_bow && Nat.ltb e (List.length (c_cats c)) && negb (nth e (c_bows c) true))) ends).

(* whole loop: positions in increasing order; a position is processed iff it is 0 or some node ends there.
   Output per position: None (skipped) or Some node buffer. *)
Fixpoint lattice_loop_g (gate : N) (fb : option provider) (c : ctx) (ps : list provider) (offs : list nat)
         (dict : list (list nat)) (ends : list nat) : res (list (option (list node))) :=
  match offs with
  | [] => ROk []
  | off :: t =>
    let d := hd [] dict in
    if Nat.eqb off 0 || existsb (Nat.eqb off) ends then
      match position_step_g gate fb c ps off (dict_filter c off d) with
      | ROk buf => match lattice_loop_g gate fb c ps t (tl dict) (map n_end buf ++ ends) with
                   | ROk r => ROk (Some buf :: r)
                   | RErr => RErr
                   | RPanic => RPanic
                   end
      | RErr => RErr
      | RPanic => RPanic
      end
    else match lattice_loop_g gate fb c ps t (tl dict) ends with
         | ROk r => ROk (None :: r)
         | RErr => RErr
         | RPanic => RPanic
         end
  end.
Definition build_lattice_g (gate : N) (fb : option provider) (c : ctx) (ps : list provider) (dict : list (list nat)) :=
  lattice_loop_g gate fb c ps (seq 0 (List.length (c_cats c))) dict [].
Definition build_lattice (c : ctx) (ps : list provider) (dict : list (list nat)) : res (list (option (list node))) :=
  build_lattice_g OF.oov_gate_mask (fallback_of ps) c ps dict.

(* the same loop with the constants of the property statement instead of the re-read ones: providers are skipped at
   NOOOVBOW / NOOOVBOW2 characters, the fallback provider is the last configured one *)
Definition spec_gate : N := N.lor Generated.CategoryFacts.NOOOVBOW Generated.CategoryFacts.NOOOVBOW2.
Definition spec_fallback (ps : list provider) : option provider := last (map Some ps) None.
Definition build_lattice_spec (c : ctx) (ps : list provider) (dict : list (list nat)) :=
  build_lattice_g spec_gate (spec_fallback ps) c ps dict.

(* ------------------------------------------------------------------ executable statement of the prescription *)
(* candidate ends prescribed by one class definition at [off] when the class run there has [char_len] characters *)
Definition prescribed_lengths (ci : cinfo) (char_len : nat) : list nat :=
  (if ci_group ci then [char_len] else [])
  ++ seq 1 (N.to_nat (N.min (ci_length ci) (N.of_nat (if ci_group ci then pred char_len else char_len)))).

Definition prescribed_class (m : mecab) (off char_len : nat) (other : N) (ctype : N) : list node :=
  match find_cinfo m ctype with
  | None => []
  | Some ci =>
    if ci_invoke ci || (other =? 0) then
      match find_oovs m (ci_type ci) with
      | None => []
      | Some oovs => flat_map (fun l => map (oov_node off (off + l)) oovs) (prescribed_lengths ci char_len)
      end
    else []
  end.
Definition prescribed (m : mecab) (cs : list N) (off : nat) (other : N) : list node :=
  match nth_error (continuity_spec cs) off, nth_error cs off with
  | Some char_len, Some c => flat_map (prescribed_class m off char_len other) (iter_flags c)
  | _, _ => []
  end.

Definition subset_nodes (a b : list node) : bool := forallb (fun x => existsb (node_eqb x) b) a.
Definition same_node_set (a b : list node) : bool := subset_nodes a b && subset_nodes b a.

(* ------------------------------------------------------------------ correspondence-check entry points *)
Definition nat_list_eqb := list_eqb Nat.eqb.
Definition bool_list_eqb := list_eqb Bool.eqb.
Definition node_list_eqb := list_eqb node_eqb.

Definition res_eqb {A} (e : A -> A -> bool) (a b : res A) : bool :=
  match a, b with
  | ROk x, ROk y => e x y
  | RErr, RErr => true
  | RPanic, RPanic => true
  | _, _ => false
  end.

(* buffer level: observed can_bow / cat_continuous_len per character against the model, and the observed continuity
   against the specification *)
(* the chain of the property statement (constants by class name, independent of the re-read chain) *)
Definition cat_bit (name : string) : N :=
  match find (fun p => String.eqb (fst p) name) Generated.CategoryFacts.category_bits with Some p => snd p | None => 0 end.
Definition spec_chain : list bow_rule :=
  [RPrevForbids; RForbidThisAndNext (cat_bit "NOOOVBOW2"); RForbidThis (cat_bit "NOOOVBOW");
   RNeedsClassChange (N.lor (cat_bit "ALPHA") (N.lor (cat_bit "GREEK") (cat_bit "CYRILLIC")))].
Definition can_bow_spec (cs : list N) : list bool := bow_loop spec_chain true 0 cs.

Definition check_buffer (cs : list N) (bows : list bool) (conts : list nat) : bool :=
  bool_list_eqb (can_bow cs) bows && nat_list_eqb (continuity cs) conts
  && nat_list_eqb (continuity_spec cs) conts && bool_list_eqb (can_bow_spec cs) bows.

(* what the Regex provider has to answer when the created-words set mirrors the result vector: the match (oracle) as one
   candidate unless a word with the same span exists; nothing inside a class run in strict mode *)
Definition regex_expected (x : regexp) (cs : list N) (off : nat) (pre : list nat) : option (res (list node)) :=
  let sp := continuity_spec cs in
  if x_strict x && Nat.ltb 0 off && Nat.eqb (S (nth off sp 0%nat)) (nth (pred off) sp 0%nat) then Some (ROk [])
  else match nth_error (x_matches x) off with
       | None => None
       | Some None => Some (ROk [])
       | Some (Some (at0, mlen)) =>
         if negb at0 then Some (if x_debug x then RErr else ROk [])
         else if Nat.eqb mlen 0 then Some (ROk [])   (* an empty match is not a word *)
         else if existsb (Nat.eqb (off + mlen)) pre then Some (ROk [])
         else Some (ROk [oov_node off (off + mlen) (x_def x)])
       end.

(* one direct call of a provider through the OovProviderPlugin trait.
   [pre] = ends of the nodes put into the result vector before the call (they all start at [off]). *)
Definition check_call (cs : list N) (p : provider) (off : nat) (other : N) (pre : list nat) (out : res (list node)) : bool :=
  let c := mk_ctx cs in
  res_eqb node_list_eqb (provide p c off other (map (dict_node off) pre)) out
  && match p, out with
     | PMecab m, ROk ns => node_list_eqb ns (prescribed m cs off other)   (* the prescribed list itself: nothing twice *)
     | PSimple o, ROk ns =>
         if other =? 0 then
           match ns with
           | [n] => Nat.eqb (n_begin n) off && Nat.ltb off (n_end n)
                    && forallb (fun i => negb (nth i (can_bow cs) true)) (seq (S off) (n_end n - S off))
                    && (Nat.eqb (n_end n) (List.length cs) || nth (n_end n) (can_bow cs) false)
           | _ => false
           end
         else match ns with [] => true | _ => false end
     | PRegex x, _ =>
         match cw_add_all 0 (map (fun e => (e - off)%nat) pre) with
         | Some cw => if cw =? other
                      then match regex_expected x cs off pre with Some e => res_eqb node_list_eqb e out | None => true end
                      else true
         | None => true
         end
     | _, _ => true
     end.

(* stable grouping of a node buffer by end offset: the lattice stores nodes per end boundary *)
Definition by_end (len : nat) (ns : list node) : list node :=
  flat_map (fun e => filter (fun n => Nat.eqb (n_end n) e) ns) (seq 0 (S len)).

(* whole lattice: observed = per position the nodes that begin there (dictionary nodes as dict_node), grouped by end *)
Definition lattice_res_eqb (len : nat) (m : res (list (option (list node)))) (o : res (list (list node))) : bool :=
  match m, o with
  | ROk m, ROk o =>
      list_eqb node_list_eqb (map (fun x => match x with Some b => by_end len b | None => [] end) m) o
  | RErr, RErr => true
  | RPanic, RPanic => true
  | _, _ => false
  end.

Definition check_lattice (cs : list N) (ps : list provider) (dict : list (list nat))
           (observed : res (list (list node))) : bool :=
  let c := mk_ctx cs in
  (* the model (constants as in the source now) agrees with the implementation *)
  lattice_res_eqb (List.length cs) (build_lattice c ps dict) observed
  (* the implementation's lattice is the one the property prescribes (class gate and fallback provider as stated) *)
  && lattice_res_eqb (List.length cs) (build_lattice_spec c ps dict) observed
  (* every processed position has a candidate *)
  && match observed, build_lattice_spec c ps dict with
     | ROk o, ROk m => list_eqb Bool.eqb (map (fun x => match x with Some _ => true | None => false end) m)
                                         (map (fun l => match l with [] => false | _ => true end) o)
     | _, _ => true
     end.

(* one correspondence case: a text (observed classes / can_bow / continuity), the configured providers, direct provider
   calls (provider index, offset, CreatedWords bits, ends of pre-filled result nodes, observed output), the lexicon matches per
   position and the observed lattice *)
Definition check_case (cs : list N) (bows : list bool) (conts : list nat) (ps : list provider)
           (calls : list (nat * nat * N * list nat * res (list node)))
           (dict : list (list nat)) (lat : res (list (list node))) : bool :=
  check_buffer cs bows conts
  && forallb (fun cl => match cl with
                        | (pi, off, other, pre, out) =>
                          match nth_error ps pi with Some p => check_call cs p off other pre out | None => false end
                        end) calls
  && check_lattice cs ps dict lat.

(* ------------------------------------------------------------------ OOV morphemes of the result *)
(* dic/word_id.rs: a WordId packs (dictionary, word) into a u32; WordId::oov(pos) = new(0xf, pos) *)
Definition wid_new (dic word : N) : N :=
  N.lor (N.shiftl (N.land dic 15) OF.word_id_dic_shift) (N.land word OF.word_mask).
Definition wid_oov (pos : N) : N := wid_new OF.oov_dic_id pos.
Definition wid_dic (w : N) : N := N.shiftr w OF.word_id_dic_shift.
Definition wid_word (w : N) : N := N.land w OF.word_mask.
Definition wid_is_oov (w : N) : bool := wid_dic w =? OF.oov_dic_id.

(* the part of WordInfoData that the accessors in question read; text = list of code points *)
Record word_info := mkWI { wi_surface : list N; wi_pos : N; wi_normalized : list N; wi_dictionary : list N;
                           wi_reading : list N }.

Definition assoc (name : string) (l : list (string * string)) : string :=
  match find (fun p => String.eqb (fst p) name) l with Some p => snd p | None => EmptyString end.
Definition slice {A} (l : list A) (b e : nat) : list A := firstn (e - b) (skipn b l).

(* resolve_best_path, OOV branch: WordInfoData { pos_id: word_id.word() as u16, surface: <slice of the analysed text>,
   ..Default }.  [orig] / [norm] = original and normalised (analysed) text; b, e = character range of the node (the model
   identifies character indices of both texts, which holds when normalisation maps characters one to one). *)
Definition oov_word_info (orig norm : list N) (w : N) (b e : nat) : word_info :=
  let src := fun f => assoc f OF.oov_info_fields in
  mkWI (if String.eqb (src "surface"%string) "curr_slice_c" then slice norm b e
        else if String.eqb (src "surface"%string) "orig_slice_c" then slice orig b e else [])
       (if String.eqb (src "pos_id"%string) "word_id.word:u16" then N.modulo (wid_word w) 65536 else 0)
       [] [] [].

(* WordInfo::{normalized_form, dictionary_form, reading_form}: the stored form, or the fallback when it is empty *)
Definition form_of (name : string) (stored : list N) (wi : word_info) : list N :=
  match stored with
  | [] => if String.eqb (assoc name OF.form_fallbacks) "surface" then wi_surface wi else []
  | _ => stored
  end.
Definition normalized_form (wi : word_info) := form_of "normalized_form" (wi_normalized wi) wi.
Definition dictionary_form (wi : word_info) := form_of "dictionary_form" (wi_dictionary wi) wi.
Definition reading_form (wi : word_info) := form_of "reading_form" (wi_reading wi) wi.

(* Morpheme::dictionary_id *)
Definition dictionary_id (w : N) : Z := if wid_is_oov w then OF.oov_dictionary_id else Z.of_N (wid_dic w).

(* what a morpheme of the result reports *)
Record morph_view := mkMV { mv_is_oov : bool; mv_dic : Z; mv_pos : N; mv_surface : list N; mv_normalized : list N;
                            mv_dictionary : list N; mv_reading : list N }.
Definition oov_morpheme (orig norm : list N) (w : N) (b e : nat) : morph_view :=
  let wi := oov_word_info orig norm w b e in
  mkMV (wid_is_oov w) (dictionary_id w) (wi_pos wi) (slice orig b e) (normalized_form wi) (dictionary_form wi) (reading_form wi).

Definition cps_eqb := list_eqb N.eqb.
Definition morph_view_eqb (a b : morph_view) : bool :=
  Bool.eqb (mv_is_oov a) (mv_is_oov b) && Z.eqb (mv_dic a) (mv_dic b) && (mv_pos a =? mv_pos b)
  && cps_eqb (mv_surface a) (mv_surface b) && cps_eqb (mv_normalized a) (mv_normalized b)
  && cps_eqb (mv_dictionary a) (mv_dictionary b) && cps_eqb (mv_reading a) (mv_reading b).

(* correspondence entry: the morphemes of a result as (raw word id, character range, reported view).
   An OOV morpheme must report exactly what the model computes, and -- the property, with the constants of its statement --
   is_oov, dictionary -1 and the normalised text of its range as all three forms; a dictionary morpheme is not OOV and reports
   its dictionary. *)
Definition check_morph (orig norm : list N) (m : N * nat * nat * morph_view) : bool :=
  match m with
  | (w, b, e, v) =>
    if wid_is_oov w then
      morph_view_eqb (oov_morpheme orig norm w b e) v
      && mv_is_oov v && Z.eqb (mv_dic v) (-1)
      && cps_eqb (mv_normalized v) (slice norm b e) && cps_eqb (mv_dictionary v) (slice norm b e)
      && cps_eqb (mv_reading v) (slice norm b e) && cps_eqb (mv_surface v) (slice orig b e)
      && (mv_pos v =? N.land w 268435455)
    else negb (mv_is_oov v) && Z.eqb (mv_dic v) (dictionary_id w) && Z.leb 0 (mv_dic v)
  end.
Definition check_morphs (orig norm : list N) (ms : list (N * nat * nat * morph_view)) : bool :=
  forallb (check_morph orig norm) ms.
