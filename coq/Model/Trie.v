(* Model of sudachi/src/dic/lexicon/trie.rs : the reader of the yada double array.
   Executable definitions only (no proofs).  Bit layout comes from Generated/TrieBits.v (re-read from trie.rs each run). *)
From Coq Require Import String Ascii List NArith Bool.
From SudachiVerif Require Generated.TrieBits.
Import ListNotations.
Open Scope N_scope.

Module TB := Generated.TrieBits.

(* ---------- glue: the harness hands byte strings over as hex text ---------- *)
Definition hex_digit (c : ascii) : N :=
  let n := N_of_ascii c in
  if (48 <=? n) && (n <=? 57) then n - 48
  else if (97 <=? n) && (n <=? 102) then n - 87
  else if (65 <=? n) && (n <=? 70) then n - 55
  else 0.

Fixpoint hex_bytes (s : string) : list N :=
  match s with
  | String a (String b t) => (16 * hex_digit a + hex_digit b) :: hex_bytes t
  | _ => []
  end.

(* the same with runs of zero bytes written as `z` + four hex digits (the count): a double array is mostly zero units *)
Fixpoint hexz_bytes (s : string) : list N :=
  match s with
  | String "z" (String a (String b (String c (String d t)))) =>
      repeat 0 (N.to_nat (4096 * hex_digit a + 256 * hex_digit b + 16 * hex_digit c + hex_digit d)) ++ hexz_bytes t
  | String a (String b t) => (16 * hex_digit a + hex_digit b) :: hexz_bytes t
  | _ => []
  end.

Definition le32 (b0 b1 b2 b3 : N) : N := b0 + 256 * b1 + 65536 * b2 + 16777216 * b3.

(* CowArray::from_bytes: the trie section of the file as little-endian u32 units *)
Fixpoint u32s_of_bytes (bs : list N) : list N :=
  match bs with
  | b0 :: b1 :: b2 :: b3 :: t => le32 b0 b1 b2 b3 :: u32s_of_bytes t
  | _ => []
  end.

(* ---------- units ---------- *)
(* `get` is the totalised read (0 beyond the end); `get_opt` is the faithful one (None = the unchecked read would leave
   the array: debug_assert / UB).  Proofs/TrieProofs.v shows they agree on every read of a traversal once `bounds_ok`. *)
Definition get (a : list N) (i : N) : N := nth (N.to_nat i) a 0.
Definition get_opt (a : list N) (i : N) : option N := nth_error a (N.to_nat i).

Definition has_leaf (u : N) : bool := N.land (N.shiftr u TB.HAS_LEAF_SHIFT) TB.HAS_LEAF_MASK =? TB.HAS_LEAF_EQ.
Definition value (u : N) : N := N.land u TB.VALUE_MASK.
Definition label (u : N) : N := N.land u TB.LABEL_MASK.
Definition offset (u : N) : N :=
  N.shiftl (N.shiftr u TB.OFFSET_SHIFT) (N.shiftr (N.land u TB.OFFSET_EXT_MASK) TB.OFFSET_EXT_SHIFT).

(* Trie::common_prefix_iterator: node_pos starts at offset(array[0]) *)
Definition root (a : list N) : N := offset (get a TB.ROOT_INDEX).

(* one round of the `for` loop of TrieEntryIter::next for byte k at node_pos:
   None = NUL byte or label mismatch (`return None`), Some (node_pos', has_leaf unit) otherwise *)
Definition step (a : list N) (pos : N) (k : N) : option (N * bool) :=
  if TB.nul_stops && (k =? 0) then None else
  let p := N.lxor pos k in
  let u := get a p in
  if label u =? k then Some (N.lxor p (offset u), has_leaf u) else None.

(* iterator state: (node_pos, bytes of data from self.offset on, self.offset) *)
Definition iter_state : Type := (N * list N * N)%type.

(* TrieEntryIter::next : Some ((value, end), state') or None *)
Fixpoint next (a : list N) (pos : N) (rest : list N) (i : N) : option ((N * N) * iter_state) :=
  match rest with
  | [] => None
  | k :: rest' =>
      match step a pos k with
      | None => None
      | Some (p', leaf) =>
          if leaf then Some ((value (get a p'), i + 1), (p', rest', i + 1))
          else next a p' rest' (i + 1)
      end
  end.

(* draining the (fused) iterator: call next until it answers None *)
Fixpoint drain (fuel : nat) (a : list N) (pos : N) (rest : list N) (i : N) : list (N * N) :=
  match fuel with
  | O => []
  | S f =>
      match next a pos rest i with
      | None => []
      | Some (e, (p', rest', i')) => e :: drain f a p' rest' i'
      end
  end.

(* all entries of trie.common_prefix_iterator(text, off): list of (value, end) *)
Definition traverse (a : list N) (text : list N) (off : nat) : list (N * N) :=
  drain (S (length text)) a (root a) (skipn off text) (N.of_nat off).

(* ---------- declarative side: which keys does the array accept, with which value ---------- *)
Fixpoint walk (a : list N) (st : N * bool) (key : list N) : option (N * bool) :=
  match key with
  | [] => Some st
  | k :: t => match step a (fst st) k with
              | None => None
              | Some st' => walk a st' t
              end
  end.

Definition value_at (a : list N) (st : N * bool) : option N :=
  if snd st then Some (value (get a (fst st))) else None.

Definition accept_from (a : list N) (st : N * bool) (key : list N) : option N :=
  match walk a st key with
  | Some st' => value_at a st'
  | None => None
  end.

(* the value stored for `key`, if the array accepts it (the empty key is never accepted: the root carries no leaf flag) *)
Definition accept_value (a : list N) (key : list N) : option N := accept_from a (root a, false) key.

(* naive statement of what common-prefix search must return at `off`: for n = 1, 2, ... the value of text[off..off+n] *)
Definition prefix_matches_from (a : list N) (st : N * bool) (rest : list N) (i : N) : list (N * N) :=
  flat_map (fun n => match accept_from a st (firstn n rest) with
                     | Some v => [(v, i + N.of_nat n)]
                     | None => []
                     end) (seq 1 (length rest)).

Definition prefix_matches (a : list N) (text : list N) (off : nat) : list (N * N) :=
  prefix_matches_from a (root a, false) (skipn off text) (N.of_nat off).

(* ---------- enumerator of all accepted byte keys (depth-first over the 256 labels), None if truncated or if a
   reachable node position lies outside the array ---------- *)
Definition all_bytes : list N := map N.of_nat (seq 0 256).

Fixpoint concat_opt {A} (l : list (option (list A))) : option (list A) :=
  match l with
  | [] => Some []
  | None :: _ => None
  | Some x :: t => match concat_opt t with None => None | Some r => Some (x ++ r) end
  end.

Fixpoint keys_from (fuel : nat) (a : list N) (st : N * bool) (rev_key : list N) : option (list (list N * N)) :=
  match fuel with
  | O => None
  | S f =>
      if fst st <? N.of_nat (length a) then
        let here := match value_at a st with Some v => [(rev rev_key, v)] | None => [] end in
        match concat_opt (map (fun k => match step a (fst st) k with
                                        | None => Some []
                                        | Some st' => if fst st' =? fst st then None   (* a self-loop: infinitely many walks *)
                                                      else keys_from f a st' (k :: rev_key)
                                        end) all_bytes) with
        | None => None
        | Some r => Some (here ++ r)
        end
      else None
  end.

(* fuel = maximal key length + 1.  Also demands the shape the reader relies on: a whole number of 256-unit blocks. *)
Definition keys_of (a : list N) (fuel : nat) : option (list (list N * N)) :=
  if (0 <? N.of_nat (length a)) && (N.of_nat (length a) mod 256 =? 0) then keys_from fuel a (root a, false) [] else None.

(* ---------- faithful (partial) traversal: every read is checked against the array length ---------- *)
Definition step_opt (a : list N) (pos : N) (k : N) : option (option (N * bool)) :=
  if TB.nul_stops && (k =? 0) then Some None else
  let p := N.lxor pos k in
  match get_opt a p with
  | None => None
  | Some u => Some (if label u =? k then Some (N.lxor p (offset u), has_leaf u) else None)
  end.

Fixpoint next_opt (a : list N) (pos : N) (rest : list N) (i : N) : option (option ((N * N) * iter_state)) :=
  match rest with
  | [] => Some None
  | k :: rest' =>
      match step_opt a pos k with
      | None => None
      | Some None => Some None
      | Some (Some (p', leaf)) =>
          if leaf then match get_opt a p' with
                       | None => None
                       | Some u => Some (Some ((value u, i + 1), (p', rest', i + 1)))
                       end
          else next_opt a p' rest' (i + 1)
      end
  end.

Fixpoint drain_opt (fuel : nat) (a : list N) (pos : N) (rest : list N) (i : N) : option (list (N * N)) :=
  match fuel with
  | O => Some []
  | S f =>
      match next_opt a pos rest i with
      | None => None
      | Some None => Some []
      | Some (Some (e, (p', rest', i'))) => option_map (cons e) (drain_opt f a p' rest' i')
      end
  end.

Definition traverse_opt (a : list N) (text : list N) (off : nat) : option (list (N * N)) :=
  match get_opt a TB.ROOT_INDEX with
  | None => None
  | Some u => drain_opt (S (length text)) a (offset u) (skipn off text) (N.of_nat off)
  end.

Definition is_byte (k : N) : bool := k <? 256.

(* ---------- UTF-8 as far as character boundaries go: which bytes continue a character, how long a character is ----------
   (a Rust `str` is always valid UTF-8; surfaces of the lexicon CSV and analysed texts are `str`s) *)
Definition cont_byte (b : N) : bool := (128 <=? b) && (b <? 192).
(* number of bytes of the character a lead byte starts; 0 for a continuation byte *)
Definition lead_width (b : N) : nat :=
  if b <? 128 then 1 else if b <? 192 then 0 else if b <? 224 then 2 else if b <? 240 then 3 else 4.

(* a whole number of characters: every character is a lead byte followed by exactly width-1 continuation bytes *)
Inductive chars_ok : list N -> Prop :=
| chars_nil : chars_ok []
| chars_cons : forall b conts r,
    lead_width b = S (length conts) -> Forall (fun c => cont_byte c = true) conts -> chars_ok r ->
    chars_ok (b :: conts ++ r).

(* executable version (fuel = number of bytes) *)
Fixpoint strip_conts (n : nat) (t : list N) : option (list N) :=
  match n with
  | O => Some t
  | S n' => match t with
            | c :: t' => if cont_byte c then strip_conts n' t' else None
            | [] => None
            end
  end.
Fixpoint chars_ok_go (fuel : nat) (t : list N) : bool :=
  match t with
  | [] => true
  | b :: t' =>
      match fuel with
      | O => false
      | S f => match lead_width b with
               | O => false
               | S w => match strip_conts w t' with
                        | None => false
                        | Some r => chars_ok_go f r
                        end
               end
      end
  end.
Definition chars_ok_b (t : list N) : bool := chars_ok_go (length t) t.
