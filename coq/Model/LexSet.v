(* Model of sudachi/src/dic/lexicon_set.rs, dic/word_id.rs, Lexicon::lookup (dic/lexicon/mod.rs), the exact-surface
   filter of MorphemeList::lookup (analysis/mlist.rs), Grammar::register_pos / merge (dic/grammar.rs),
   JapaneseDictionary::merge_user_dictionary (dic/dictionary.rs) and the POS numbering of the dictionary builder
   (dic/build/lexicon.rs: preload_pos, pos_of, write_pos_table; build/resolve.rs).  No proofs here. *)
From Coq Require Import String Ascii List NArith ZArith Bool.
From SudachiVerif Require Generated.Limits Generated.LexFacts.
From SudachiVerif Require Import Model.Harness Model.Trie Model.WordIdTable.
Import ListNotations.
Open Scope N_scope.

Module LF := Generated.LexFacts.
Module LM := Generated.Limits.

(* comparison operators are re-read from the source as text *)
Definition cmp_eval (c : string) (a b : N) : bool :=
  if String.eqb c ">=" then b <=? a
  else if String.eqb c ">" then b <? a
  else if String.eqb c "==" then a =? b
  else if String.eqb c "!=" then negb (a =? b)
  else if String.eqb c "<=" then a <=? b
  else if String.eqb c "<" then a <? b
  else false.

Definition cmp_eval_z (c : string) (a b : Z) : bool :=
  if String.eqb c ">=" then Z.leb b a
  else if String.eqb c ">" then Z.ltb b a
  else if String.eqb c "==" then Z.eqb a b
  else if String.eqb c "!=" then negb (Z.eqb a b)
  else if String.eqb c "<=" then Z.leb a b
  else if String.eqb c "<" then Z.ltb a b
  else false.

(* ---------- WordId ---------- *)
Definition WORD_MASK : N := LM.WORD_MASK.
(* WordId::new *)
Definition stamp (dic raw : N) : N :=
  N.lor (N.shiftl (N.land dic LF.DIC_MASK) LF.DIC_SHIFT) (N.land raw WORD_MASK).
(* its two debug assertions (the harness runs the debug profile): None = assertion failure *)
Definition stamp_dbg (dic raw : N) : option N :=
  if (N.land dic LF.DIC_MASK =? dic) && (N.land raw WORD_MASK =? raw) then Some (stamp dic raw) else None.
(* WordId::dic  ((raw >> 28) as u8), WordId::word *)
Definition dic_of (w : N) : N := N.shiftr w LF.DIC_SHIFT_READ mod 256.
Definition word_of (w : N) : N := N.land w WORD_MASK.
Definition oov_id (pos : N) : N := stamp LF.OOV_DIC pos.
Definition is_oov (w : N) : bool := dic_of w =? LF.OOV_DIC.
(* Morpheme::dictionary_id : -1 for OOV *)
Definition reported_dic (w : N) : Z := if is_oov w then (-1)%Z else Z.of_N (dic_of w).

(* ---------- Lexicon::lookup ---------- *)
Record lexicon := mkLex { lx_trie : list N; lx_table : list N }.

Fixpoint stamp_all (dic : N) (ids : list N) (e : N) : option (list (N * N)) :=
  match ids with
  | [] => Some []
  | r :: t => match stamp_dbg dic r, stamp_all dic t e with
              | Some w, Some l => Some ((w, e) :: l)
              | _, _ => None
              end
  end.

(* flat_map over the trie entries: the ids of table group `value`, stamped with the lexicon's number *)
Fixpoint expand (tbl : list N) (dic : N) (es : list (N * N)) : option (list (N * N)) :=
  match es with
  | [] => Some []
  | (v, e) :: t =>
      match entries tbl v with
      | None => None
      | Some ids => match stamp_all dic ids e, expand tbl dic t with
                    | Some x, Some y => Some (x ++ y)
                    | _, _ => None
                    end
      end
  end.

Definition lex_lookup (L : lexicon) (dic : N) (text : list N) (off : nat) : option (list (N * N)) :=
  expand (lx_table L) dic (traverse (lx_trie L) text off).

Fixpoint number {A} (i : N) (l : list A) : list (N * A) :=
  match l with [] => [] | x :: t => (i, x) :: number (i + 1) t end.

(* LexiconSet::lookup: lexicons.iter().rev().flat_map(lookup); lexicon i carries dictionary number i *)
Definition lookup_order {A} (l : list A) : list A := if LF.lookup_reversed then rev l else l.

Definition lookup_set (lexs : list lexicon) (text : list N) (off : nat) : option (list (N * N)) :=
  concat_opt (map (fun dl => lex_lookup (snd dl) (fst dl) text off) (lookup_order (number 0 lexs))).

(* MorphemeList::lookup(query): entries of lookup(query, 0) whose end is the end of the query *)
Definition exact_lookup (lexs : list lexicon) (q : list N) : option (list N) :=
  match lookup_set lexs q 0 with
  | None => None
  | Some l => Some (map fst (filter (fun we => snd we =? N.of_nat (length q)) l))
  end.

(* ---------- naive scan of the source CSV ---------- *)
(* one CSV row as far as lookup is concerned: surface bytes and left id *)
Definition row : Type := (list N * Z)%type.
(* SPECIFICATION side (property text: "entries declared non-indexed (negative left id) are never returned"):
   fixed here, not read from the code; that the builder's should_index says the same is obligation C04_fact_should_index *)
Definition indexed (r : row) : bool := Z.leb 0 (snd r).
Definition builder_indexes (left : Z) : bool := cmp_eval_z LF.should_index_cmp left LF.should_index_rhs.

Fixpoint prefix_b (k rest : list N) : bool :=
  match k, rest with
  | [], _ => true
  | x :: k', y :: r' => (x =? y) && prefix_b k' r'
  | _ :: _, [] => false
  end.

Definition bytes_eqb : list N -> list N -> bool := list_eqb N.eqb.

Definition naive_lex (dic : N) (rows : list row) (text : list N) (off : nat) : list (N * N) :=
  flat_map (fun ir => if indexed (snd ir) && prefix_b (fst (snd ir)) (skipn off text)
                      then [(stamp dic (fst ir), N.of_nat (off + length (fst (snd ir))))] else [])
           (number 0 rows).

Definition naive_set (all_rows : list (list row)) (text : list N) (off : nat) : list (N * N) :=
  flat_map (fun dr => naive_lex (fst dr) (snd dr) text off) (number 0 all_rows).

Definition naive_exact (all_rows : list (list row)) (q : list N) : list N :=
  flat_map (fun dr => flat_map (fun ir => if indexed (snd ir) && bytes_eqb (fst (snd ir)) q
                                          then [stamp (fst dr) (fst ir)] else []) (number 0 (snd dr)))
           (number 0 all_rows).

(* permutation test on small lists *)
Fixpoint remove1 {A} (eqb : A -> A -> bool) (x : A) (l : list A) : option (list A) :=
  match l with
  | [] => None
  | y :: t => if eqb x y then Some t else option_map (cons y) (remove1 eqb x t)
  end.
Fixpoint perm_b {A} (eqb : A -> A -> bool) (l1 l2 : list A) : bool :=
  match l1 with
  | [] => match l2 with [] => true | _ => false end
  | x :: t => match remove1 eqb x l2 with None => false | Some l2' => perm_b eqb t l2' end
  end.
Definition we_eqb : N * N -> N * N -> bool := pair_eqb N.eqb N.eqb.

(* ---------- per-dictionary certificate: the keys the array accepts are the indexed surfaces of the CSV and every
   key's table group lists exactly the rows carrying that surface, in row order ---------- *)
Definition rows_with (k : list N) (rows : list row) : list N :=
  flat_map (fun ir => if indexed (snd ir) && bytes_eqb (fst (snd ir)) k then [fst ir] else []) (number 0 rows).

Definition cert_lex (L : lexicon) (rows : list row) (fuel : nat) : bool :=
  match keys_of (lx_trie L) fuel with
  | None => false
  | Some ks =>
      forallb (fun kv => match rows_with (fst kv) rows with
                         | [] => false
                         | ids => opt_eqb (list_eqb N.eqb) (entries (lx_table L) (snd kv)) (Some ids)
                                  && forallb (fun r => N.land r WORD_MASK =? r) ids
                         end) ks
      && forallb (fun r => negb (indexed r) || existsb (fun kv => bytes_eqb (fst kv) (fst r)) ks) rows
  end.

(* ---------- correspondence-check entry for C04 ---------- *)
Definition dec_lex (x : string * string) : lexicon := mkLex (u32s_of_bytes (hexz_bytes (fst x))) (hex_bytes (snd x)).
Definition dec_rows (rs : list (string * Z)) : list row := map (fun r => (hex_bytes (fst r), snd r)) rs.

Fixpoint check_offsets (lexs : list lexicon) (rows : list (list row)) (text : list N) (off : nat)
         (outs : list (list (N * N))) : bool :=
  match outs with
  | [] => true
  | o :: t => opt_eqb (list_eqb we_eqb) (lookup_set lexs text off) (Some o)
              && perm_b we_eqb o (naive_set rows text off)
              && check_offsets lexs rows text (S off) t
  end.

(* dics: per dictionary (trie section hex, word-id-table section hex, CSV rows);
   queries: (text hex, implementation's LexiconSet::lookup(text, off) for off = 0 .. len text);
   exacts: (query hex, word ids of MorphemeList::lookup(query)) *)
Definition check_case_c04 (dics : list (string * string * list (string * Z))) (fuel : nat)
           (queries : list (string * list (list (N * N)))) (exacts : list (string * list N)) : bool :=
  let lexs := map (fun d => dec_lex (fst d)) dics in
  let rows := map (fun d => dec_rows (snd d)) dics in
  forallb (fun lr => cert_lex (fst lr) (snd lr) fuel) (combine lexs rows)
  && (N.of_nat (length lexs) <=? LM.MAX_DICTIONARIES)
  && forallb (fun q => let text := hex_bytes (fst q) in
                       (length (snd q) =? S (length text))%nat && check_offsets lexs rows text 0 (snd q)) queries
  && forallb (fun q => let text := hex_bytes (fst q) in
                       opt_eqb (list_eqb N.eqb) (exact_lookup lexs text) (Some (snd q))
                       && perm_b N.eqb (snd q) (naive_exact rows text)) exacts.

(* ======================================================================================================
   C12: part-of-speech tables of layered dictionaries
   ====================================================================================================== *)
(* A part of speech (six strings) is interned by the harness as one number; the model only compares them. *)
Definition pos := N.

Fixpoint index_of (p : pos) (l : list pos) (i : N) : option N :=
  match l with
  | [] => None
  | x :: t => if x =? p then Some i else index_of p t (i + 1)
  end.

(* Grammar::register_pos: existing id or push *)
Definition register_pos (pl : list pos) (p : pos) : list pos * N :=
  match index_of p pl 0 with
  | Some i => (pl, i)
  | None => (pl ++ [p], N.of_nat (length pl))
  end.

(* handle_user_pos: known POS -> its id; unknown: allow -> register, forbid -> error (None) *)
Definition handle_user_pos (pl : list pos) (p : pos) (allow : bool) : option (list pos * N) :=
  match index_of p pl 0 with
  | Some i => Some (pl, i)
  | None => if allow then Some (register_pos pl p) else None
  end.

(* Plugins::load: OOV plugins in configuration order, each asking for some POS; None = configuration rejected *)
Fixpoint load_plugins (pl : list pos) (reqs : list (pos * bool)) : option (list pos * list N) :=
  match reqs with
  | [] => Some (pl, [])
  | (p, allow) :: t =>
      match handle_user_pos pl p allow with
      | None => None
      | Some (pl', i) => match load_plugins pl' t with
                         | None => None
                         | Some (pl'', ids) => Some (pl'', i :: ids)
                         end
      end
  end.

(* --- builder side: LexiconReader.pos after preload_pos + pos_of for every row (and inline split) in file order --- *)
Fixpoint assign_pos (known : list pos) (ps : list pos) : list pos * list N :=
  match ps with
  | [] => (known, [])
  | p :: t => let (k1, i) := register_pos known p in
              let (k2, ids) := assign_pos k1 t in (k2, i :: ids)
  end.

(* preload_pos: which prefix of the grammar the user-dictionary builder starts from.
   `preload_system_only` is re-read from the source: true = only the system dictionary's own POS (repaired code),
   false = everything the grammar lists at build time, plugin-registered and earlier user POS included. *)
Definition preload (grammar_pos : list pos) (num_system_pos : nat) : list pos :=
  if LF.preload_system_only then firstn num_system_pos grammar_pos else grammar_pos.

(* a compiled dictionary as far as POS go: its own POS table (ids >= start_pos) and the raw pos id of every word.
   `reqs` = the POS the builder is asked for, in file order (inline split units of a row, then the row itself);
   `idx`  = for every row the position of its own request in `reqs`. *)
Record udict := mkU { u_table : list pos; u_word_pos : list N }.

Definition build_dict (preloaded : list pos) (reqs : list pos) (idx : list nat) : udict :=
  let (all, ids) := assign_pos preloaded reqs in
  mkU (skipn (length preloaded) all) (map (fun i => nth i ids 0) idx).

(* --- loader side --- *)
Record lexset := mkSet { s_num_system_pos : N; s_pos_list : list pos; s_offsets : list N; s_words : list (list N) }.

Definition new_set (sys_pos : list pos) (sys_word_pos : list N) : lexset :=
  mkSet (N.of_nat (length sys_pos)) sys_pos [0] [sys_word_pos].

Definition is_full (s : lexset) : bool := cmp_eval LF.is_full_cmp (N.of_nat (length (s_words s))) LM.MAX_DICTIONARIES.

(* merge_user_dictionary: append(lexicon, pos_list.len()) then pos_list.extend; None = TooManyDictionaries *)
Definition merge_user (s : lexset) (u : udict) : option lexset :=
  if is_full s then None
  else Some (mkSet (s_num_system_pos s) (s_pos_list s ++ u_table u)
                   (s_offsets s ++ [N.of_nat (length (s_pos_list s))]) (s_words s ++ [u_word_pos u])).

Fixpoint merge_all (s : lexset) (us : list udict) : option lexset :=
  match us with
  | [] => Some s
  | u :: t => match merge_user s u with None => None | Some s' => merge_all s' t end
  end.

(* get_word_info_subset: pos id of word (dic, w), rebased for user-defined POS; None = index panic *)
Definition rebase (s : lexset) (dic : N) (raw : N) : option N :=
  if cmp_eval LF.rebase_dic_cmp dic LF.rebase_dic_rhs && cmp_eval LF.rebase_pos_cmp raw (s_num_system_pos s)
  then match nth_error (s_offsets s) (N.to_nat dic) with
       | Some o => Some (raw - s_num_system_pos s + o)
       | None => None
       end
  else Some raw.

Definition word_pos_id (s : lexset) (dic w : N) : option N :=
  match nth_error (s_words s) (N.to_nat dic) with
  | None => None
  | Some ws => match nth_error ws (N.to_nat w) with
               | None => None
               | Some raw => rebase s dic raw
               end
  end.

(* Grammar::pos_components (panics when out of range) of the reported id *)
Definition word_pos (s : lexset) (dic w : N) : option pos :=
  match word_pos_id s dic w with
  | None => None
  | Some i => nth_error (s_pos_list s) (N.to_nat i)
  end.

(* update_dict_id *)
Definition restamp (dic : N) (ids : list N) : list N :=
  map (fun w => if cmp_eval LF.restamp_cmp (dic_of w) LF.restamp_rhs then stamp dic (word_of w) else w) ids.

(* whole pipeline of one configuration: system dictionary, plugin requests, user dictionaries given by their POS requests
   and the route they were compiled by (true = against the configured dictionary as it stands when this one is added,
   false = against the bare system dictionary) *)
Definition user_src : Type := (bool * list pos * list nat)%type.

Fixpoint stack_users (s : lexset) (us : list user_src) (sys_pos : list pos) : option lexset :=
  match us with
  | [] => Some s
  | (configured, reqs, idx) :: t =>
      let pre := if configured then preload (s_pos_list s) (length sys_pos) else sys_pos in
      match merge_user s (build_dict pre reqs idx) with
      | None => None
      | Some s' => stack_users s' t sys_pos
      end
  end.

Definition configure (sys_reqs : list pos) (sys_idx : list nat) (plugins : list (pos * bool))
           (us : list user_src) : option lexset :=
  let sysd := build_dict [] sys_reqs sys_idx in
  match load_plugins (u_table sysd) plugins with
  | None => None
  | Some (pl, _) =>
      stack_users (mkSet (N.of_nat (length (u_table sysd))) pl [0] [u_word_pos sysd]) us (u_table sysd)
  end.

(* ---------- correspondence-check entry for C12 ---------- *)
(* obs: (dictionary, word, POS declared by the CSV row, POS the implementation reports (None = panic),
         references of the row as stamped at build time, references the implementation reports);
   mobs: (word id of a morpheme, Morpheme::dictionary_id) *)
Definition obs_t : Type := (N * N * N * option N * list N * list N)%type.

Definition check_obs (s : lexset) (o : obs_t) : bool :=
  match o with
  | (d, i, declared, impl_pos, build_refs, impl_refs) =>
      opt_eqb N.eqb (word_pos s d i) impl_pos
      && opt_eqb N.eqb impl_pos (Some declared)
      && list_eqb N.eqb (restamp d build_refs) impl_refs
      && forallb (fun w => (dic_of w =? 0) || (dic_of w =? d)) impl_refs
  end.

Definition check_case_c12 (sys_reqs : list pos) (sys_idx : list nat) (plugins : list (pos * bool))
           (us : list user_src) (loaded : bool) (obs : list obs_t) (mobs : list (N * Z)) : bool :=
  let full := configure sys_reqs sys_idx plugins us in
  Bool.eqb loaded (match full with Some _ => true | None => false end)
  && match configure sys_reqs sys_idx plugins (firstn (N.to_nat LM.MAX_DICTIONARIES - 1) us) with
     | None => match obs with [] => true | _ => false end
     | Some s =>
         forallb (check_obs s) obs
         && forallb (fun m => Z.eqb (reported_dic (fst m)) (snd m)
                              && (is_oov (fst m) || (dic_of (fst m) <? N.of_nat (length (s_words s))))) mobs
     end.

(* ---------- tokens made by path rewrite plugins ----------
   concat_oov_nodes (JoinKatakanaOovPlugin): the joined node carries the maximum of its parts' word ids -- OOV ids have
   dictionary number 15, the largest, so the node is OOV as soon as one part is -- and (dic, MAX_WORD) of the largest
   dictionary otherwise;  concat_nodes (JoinNumericPlugin): WordId::INVALID, which is an OOV id. *)
Definition join_oov_wid (ws : list N) : N :=
  let m := fold_left N.max ws 0 in
  if is_oov m then m else stamp (dic_of m) LM.MAX_WORD.

(* a merged token: (its word id, the word ids of the tokens it was made from) *)
Definition check_merged (m : N * list N) : bool :=
  ((fst m =? join_oov_wid (snd m)) || (fst m =? LF.JOINED_INVALID))
  && (negb (existsb is_oov (snd m)) || is_oov (fst m)).

Definition check_case_c12m (sys_reqs : list pos) (sys_idx : list nat) (plugins : list (pos * bool))
           (us : list user_src) (loaded : bool) (obs : list obs_t) (mobs : list (N * Z)) (merged : list (N * list N)) : bool :=
  check_case_c12 sys_reqs sys_idx plugins us loaded obs mobs && forallb check_merged merged.

(* ---------- the loader's plugin set-up sequence over the POS table (plugin/mod.rs Plugins::load) ----------
   Every kind of plugin is set up over the same grammar, one kind after the other.  An OOV provider may EXTEND the POS table
   (handle_user_pos: userPOS allow registers an unknown POS, forbid fails); a path-rewrite plugin (JoinKatakanaOovPlugin's
   oovPOS, JoinNumericPlugin's numeral POS) only READS it (get_part_of_speech_id: fails when the POS is absent).
   oov = the providers' requests (POS, allow) in configuration order; rw = the POS the path-rewrite plugins name. *)
Fixpoint resolve_all (pl : list pos) (ps : list pos) : option (list N) :=
  match ps with
  | [] => Some []
  | p :: t => match index_of p pl 0, resolve_all pl t with
              | Some i, Some l => Some (i :: l)
              | _, _ => None
              end
  end.

(* providers first, then the path-rewrite plugins: result = (POS table, ids of the providers, ids of the path-rewrite plugins) *)
Definition setup_oov_first (pl : list pos) (oov : list (pos * bool)) (rw : list pos) : option (list pos * list N * list N) :=
  match load_plugins pl oov with
  | None => None
  | Some (pl', ids) => match resolve_all pl' rw with
                       | None => None
                       | Some rids => Some (pl', ids, rids)
                       end
  end.

(* the other way round *)
Definition setup_rewrite_first (pl : list pos) (oov : list (pos * bool)) (rw : list pos) : option (list pos * list N * list N) :=
  match resolve_all pl rw with
  | None => None
  | Some rids => match load_plugins pl oov with
                 | None => None
                 | Some (pl', ids) => Some (pl', ids, rids)
                 end
  end.

Fixpoint position_of (x : string) (l : list string) (i : nat) : option nat :=
  match l with
  | [] => None
  | y :: t => if String.eqb x y then Some i else position_of x t (S i)
  end.

(* is "oov" set up before "path_rewrite" in the order re-read from Plugins::load? *)
Definition oov_before_rewrite (order : list string) : bool :=
  match position_of "oov" order 0, position_of "path_rewrite" order 0 with
  | Some a, Some b => Nat.ltb a b
  | _, _ => false
  end.

(* the set-up as the code does it *)
Definition setup (pl : list pos) (oov : list (pos * bool)) (rw : list pos) : option (list pos * list N * list N) :=
  if oov_before_rewrite LF.plugin_setup_order then setup_oov_first pl oov rw else setup_rewrite_first pl oov rw.

(* correspondence: does a configuration with these providers and path-rewrite POS load over the system dictionary whose rows
   ask for sys_reqs? *)
Definition check_setup (sys_reqs : list pos) (sys_idx : list nat) (plugins : list (pos * bool)) (rw : list pos) (base_loaded : bool) : bool :=
  Bool.eqb base_loaded (match setup (u_table (build_dict [] sys_reqs sys_idx)) plugins rw with Some _ => true | None => false end).
