(* `sudachi build` / `sudachi ubuild` (sudachi-cli/src/build.rs) as far as the files are concerned: which lexicon files reach
   the builder, in which order, and when the output is complete.  The facts are read from the source
   (Generated/CliBuildFacts.v); here are the decidable readings of them.  No proofs here. *)
From Coq Require Import String List NArith Bool.
From SudachiVerif Require Generated.CliBuildFacts.
Import ListNotations.
Open Scope string_scope.
Open Scope list_scope.

Module BF := Generated.CliBuildFacts.

(* the paths handed to read_lexicon are the elements of the command line's list, visited front to back *)
Definition iterates_inputs (from : string) : bool :=
  String.eqb from "cmd.inputs.iter()" || String.eqb from "&cmd.inputs" || String.eqb from "cmd.inputs.iter_mut()".

(* .. the loop variable itself is what the builder gets, the list is mentioned nowhere else on the way (nothing can have
   sorted, de-duplicated, filtered or extended it), and the file calls nothing that reorders / drops / adds elements *)
Definition inputs_in_order (from : string) (direct : bool) (mentions : N) (reorder : list string) : bool :=
  iterates_inputs from && direct && (mentions =? 1)%N && match reorder with [] => true | _ => false end.

(* the builder sees: [matrix,] lexicon files, resolve, output opened, compile -- in this order *)
Fixpoint subseq (want have : list string) : bool :=
  match want, have with
  | [], _ => true
  | _ :: _, [] => false
  | w :: wt, h :: ht => if String.eqb w h then subseq wt ht else subseq want ht
  end.

(* success (the report) is only reached with everything compiled flushed, the outcome of the flush looked at:
   state = (something was compiled since the last checked flush) *)
Fixpoint flushed_before_report (dirty : bool) (steps : list string) : bool :=
  match steps with
  | [] => negb dirty
  | s :: t =>
      if String.eqb s "compile" then flushed_before_report true t
      else if String.eqb s "flush_checked" then flushed_before_report false t
      else if String.eqb s "report" then negb dirty && flushed_before_report dirty t
      else flushed_before_report dirty t
  end.

Definition steps_ok (with_matrix : bool) (steps : list string) : bool :=
  subseq ((if with_matrix then ["read_conn"] else []) ++ ["read_lexicon"; "resolve"; "open_output"; "compile"; "report"]) steps
  && flushed_before_report false steps.

Definition build_inputs_ok : bool :=
  inputs_in_order BF.system_inputs_from BF.system_path_is_loop_variable BF.system_inputs_mentions BF.reordering_calls
  && inputs_in_order BF.user_inputs_from BF.user_path_is_loop_variable BF.user_inputs_mentions BF.reordering_calls.

Definition build_output_ok : bool := steps_ok true BF.system_steps && steps_ok false BF.user_steps.
