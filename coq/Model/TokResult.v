(* How the result of an analysis leaves a reused StatefulTokenizer (analysis/stateful_tokenizer.rs, analysis/mlist.rs):

     reset()               the recycled vector top_path : Option<Vec<ResultNode>> is cleared (re-created when it is None)
     do_tokenize()         empty normalised text: Ok before anything touches top_path; otherwise resolve_best_path TAKES the
                           vector out of top_path and PUSHES the nodes of this analysis onto it; the finished path is assigned
                           back (top_path = Some(path)); an error after resolve_best_path leaves top_path = None
     swap_result(.., v, ..)        swaps the caller's vector v with *top_path.as_mut().unwrap()  (input buffer alike)
     MorphemeList::collect_results swap_result with the list's own vector
     into_morpheme_list()          moves top_path (None -> Err) and the input into a new list; the tokenizer is gone
     (nothing)                     a result may never be taken at all

   What reset / resolve_best_path / swap_result do is a PARAMETER read from the source on every run
   (Generated/ResultFacts.v); Proofs/TokResultProofs.v shows that with the shapes of the pinned tree every delivered list
   consists of the nodes of the text it is delivered for, whatever happened to earlier results.
   Nodes are abstract: `path k` = the nodes analysing the k-th text yields.  Executable definitions only. *)
From Coq Require Import String List NArith Bool.
From SudachiVerif Require Import Model.Harness.
From SudachiVerif Require Generated.ResultFacts.
Import ListNotations.

Module RF := SudachiVerif.Generated.ResultFacts.

Record rcfg := mkRC { rc_reset : string; rc_resolve : string; rc_swap : string }.
Definition the_rcfg : rcfg := mkRC RF.reset_top_path RF.resolve_path_vector RF.swap_result_shape.
Definition rcfg_ok (c : rcfg) : bool :=
  String.eqb (rc_reset c) "clear_or_recreate"
  && (String.eqb (rc_resolve c) "taken_and_extended" || String.eqb (rc_resolve c) "fresh")
  && (String.eqb (rc_swap c) "swap" || String.eqb (rc_swap c) "swap_then_clear_received").

(* outcome of do_tokenize: analysed / normalised text empty / error before resolve_best_path (input too long, plugin error
   on the input, EosBosDisconnect) / error after it (path-rewrite plugin, dictionary read error) *)
Inductive outcome := OOk | OEmpty | OFailEarly | OFailLate.

Section Model.
  Variable A : Type.                      (* ResultNode *)
  Variable path : N -> list A.            (* the nodes the analysis of text k produces *)
  Variable c : rcfg.

  (* how the result of a round is taken *)
  Inductive take := TNone | TCollect | TSwap (v : list A) | TInto.
  Definition round := (N * outcome * take)%type.

  (* tokenizer: top_path, the text its input buffer holds; the session's MorphemeList: its vector *)
  Record st := mkSt { top : option (list A); txt : N; lst : list A }.
  Definition init : st := mkSt (Some []) 0%N [].

  Definition do_reset (s : st) (k : N) : st :=
    let t' := if String.eqb (rc_reset c) "clear_or_recreate" then Some []
              else if String.eqb (rc_reset c) "keep_or_recreate" then (match top s with Some p => Some p | None => Some [] end)
              else if String.eqb (rc_reset c) "clear_if_some" then (match top s with Some _ => Some [] | None => None end)
              else top s in
    mkSt t' k (lst s).

  Definition do_tokenize (s : st) (o : outcome) : st :=
    match o with
    | OOk =>
        let v := if String.eqb (rc_resolve c) "fresh" then [] else match top s with Some p => p | None => [] end in
        mkSt (Some (v ++ path (txt s))) (txt s) (lst s)
    | OEmpty | OFailEarly => s
    | OFailLate => mkSt None (txt s) (lst s)
    end.

  Inductive result := RNothing | RList (k : N) (ns : list A) | RErr | RPanic.

  Definition received (v : list A) : list A := if String.eqb (rc_swap c) "swap_then_clear_received" then [] else v.

  Definition do_take (s : st) (t : take) : st * result :=
    match t with
    | TNone => (s, RNothing)
    | TCollect => match top s with
                  | Some p => (mkSt (Some (received (lst s))) (txt s) p, RList (txt s) p)
                  | None => (s, RPanic)                      (* top_path.as_mut().unwrap() *)
                  end
    | TSwap v => match top s with
                 | Some p => (mkSt (Some (received v)) (txt s) (lst s), RList (txt s) p)
                 | None => (s, RPanic)
                 end
    | TInto => match top s with
               | Some p => (mkSt (Some []) 0%N (lst s), RList (txt s) p)   (* a new tokenizer follows *)
               | None => (mkSt (Some []) 0%N (lst s), RErr)
               end
    end.

  Definition do_round (s : st) (r : round) : st * result :=
    let '(k, o, t) := r in do_take (do_tokenize (do_reset s k) o) t.

  (* a session; nothing is specified after a panic *)
  Fixpoint run (s : st) (rs : list round) : list result :=
    match rs with
    | [] => []
    | r :: rest => let (s', x) := do_round s r in
                   match x with RPanic => [RPanic] | _ => x :: run s' rest end
    end.

  (* what every round delivers when nothing of an earlier round can leak: a function of the round alone *)
  Definition spec_round (r : round) : result :=
    let '(k, o, t) := r in
    match t with
    | TNone => RNothing
    | _ => match o with
           | OOk => RList k (path k)
           | OEmpty | OFailEarly => RList k []
           | OFailLate => match t with TInto => RErr | _ => RPanic end
           end
    end.
  Fixpoint spec_run (rs : list round) : list result :=
    match rs with
    | [] => []
    | r :: rest => match spec_round r with RPanic => [RPanic] | x => x :: spec_run rest end
    end.
End Model.

Arguments TNone {A}. Arguments TCollect {A}. Arguments TSwap {A} v. Arguments TInto {A}.
Arguments RNothing {A}. Arguments RList {A} k ns. Arguments RErr {A}. Arguments RPanic {A}.

(* ------------------------------------------------------------------ correspondence entry *)
(* one reuse session of the harness: round i analyses text i (its own mode / field subset); refs = what a FRESH tokenizer
   reports for it (byte ranges of the morphemes); rounds = (outcome: 0 analysed, 1 normalised text empty, 2 rejected;
   take: 0 collect_results, 1 never collected, 2 swap_result with a fresh vector, 3 into_morpheme_list);
   obs = what the session delivered in that round (None: nothing was taken).  The model, run with the shapes read from the
   source, must deliver the same lists. *)
Definition span_eqb (a b : N * N) : bool := (fst a =? fst b)%N && (snd a =? snd b)%N.
Definition assoc_path (refs : list (N * list (N * N))) (k : N) : list (N * N) :=
  match find (fun x => (fst x =? k)%N) refs with Some x => snd x | None => [] end.
Definition outcome_of (n : N) : outcome := match n with 0%N => OOk | 1%N => OEmpty | _ => OFailEarly end.
Definition take_of (n : N) : take (N * N) := match n with 0%N => TCollect | 1%N => TNone | 2%N => TSwap [] | _ => TInto end.

Fixpoint results_agree (m : list (result (N * N))) (obs : list (option (list (N * N)))) : bool :=
  match m, obs with
  | [], [] => true
  | RNothing :: m', None :: o' => results_agree m' o'
  | RList _ ns :: m', Some l :: o' => list_eqb span_eqb ns l && results_agree m' o'
  | _, _ => false
  end.

Definition check_result_session (refs : list (N * list (N * N))) (rounds : list (N * N)) (obs : list (option (list (N * N)))) : bool :=
  let rs := map (fun kr => (fst kr, outcome_of (fst (snd kr)), take_of (snd (snd kr))))
                (combine (map N.of_nat (seq 0 (length rounds))) rounds) in
  results_agree (run (N * N) (assoc_path refs) the_rcfg (init (N * N)) rs) obs.
