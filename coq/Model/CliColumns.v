(* Model of the command-line tool's column output (sudachi-cli/src/output.rs: Simple::write, write_morpheme_basic,
   write_morpheme_extended, Simple::subset).  Bytes are N.  Executable definitions only. *)
From Coq Require Import List NArith ZArith Bool Arith String Ascii.
From SudachiVerif Require Import Model.Harness Model.Cli.
From SudachiVerif Require Generated.CliFacts.
Import ListNotations.
Open Scope N_scope.

Definition TAB : N := 9.
Definition COMMA : N := 44.

(* what the writer reads of one morpheme *)
Record morph := {
  m_surface : list N;
  m_pos : list (list N);
  m_norm : list N;
  m_dict : list N;
  m_reading : list N;
  m_dicid : Z;
  m_syn : list N;
  m_oov : bool }.

(* Display of an integer: decimal digits, most significant first; `fuel` bounds the number of digits *)
Fixpoint dec_fuel (fuel : nat) (n : N) : list N :=
  match fuel with
  | O => []
  | S f => if n <? 10 then [48 + n] else dec_fuel f (n / 10) ++ [48 + n mod 10]
  end.
Definition dec_N (n : N) : list N := dec_fuel (S (N.to_nat (N.size n))) n.
Definition dec_Z (z : Z) : list N :=
  if (z <? 0)%Z then 45 :: dec_N (Z.abs_N z) else dec_N (Z.to_N z).

(* the `for (idx, pos) in all_pos.iter().enumerate()` loop: a comma after every component but the last *)
Fixpoint pos_loop (len idx : nat) (ps : list (list N)) : list N :=
  match ps with
  | [] => []
  | p :: t => p ++ (if Nat.eqb (S idx) len then [] else [COMMA]) ++ pos_loop len (S idx) t
  end.
Definition pos_joined (ps : list (list N)) : list N := pos_loop (List.length ps) 0 ps.

(* `{:?}` of a Vec<u32>: "[a, b, c]" *)
Definition debug_list (l : list N) : list N :=
  [91] ++ intercalate [COMMA; 32] (map dec_N l) ++ [93].

Definition oov_mark : list N := bytes_of_string "(OOV)".
Definition eos_line : list N := bytes_of_string "EOS".

Definition basic (m : morph) : list N :=
  m_surface m ++ [TAB] ++ pos_joined (m_pos m) ++ [TAB] ++ m_norm m.

Definition extended (m : morph) : list N :=
  [TAB] ++ m_dict m ++ [TAB] ++ m_reading m ++ [TAB] ++ dec_Z (m_dicid m) ++ [TAB] ++ debug_list (m_syn m)
  ++ (if m_oov m then [TAB] ++ oov_mark else []).

Definition line (print_all : bool) (m : morph) : list N :=
  basic m ++ (if print_all then extended m else []).

Definition simple (print_all : bool) (ms : list morph) : list N :=
  List.concat (map (fun m => line print_all m ++ [LF]) ms) ++ eos_line ++ [LF].

(* ---- specification side: the columns as a list of fields, and reading a printed sentence back ---- *)
Definition fields (print_all : bool) (m : morph) : list (list N) :=
  [m_surface m; intercalate [COMMA] (m_pos m); m_norm m]
  ++ (if print_all
      then [m_dict m; m_reading m; dec_Z (m_dicid m); debug_list (m_syn m)] ++ (if m_oov m then [oov_mark] else [])
      else []).

(* split at every occurrence of `sep`: n separators give n+1 pieces *)
Fixpoint split_on_aux (sep : N) (cur : list N) (l : list N) : list (list N) :=
  match l with
  | [] => [rev cur]
  | b :: t => if b =? sep then rev cur :: split_on_aux sep [] t else split_on_aux sep (b :: cur) t
  end.
Definition split_on (sep : N) (l : list N) : list (list N) := split_on_aux sep [] l.

Definition has (b : N) (l : list N) : bool := existsb (fun x => x =? b) l.
(* fields as the library reports them that the format can carry: no tab and no line feed inside a field *)
Definition clean_field (l : list N) : bool := negb (has TAB l) && negb (has LF l).
Definition clean (m : morph) : bool :=
  clean_field (m_surface m) && forallb clean_field (m_pos m)
  && clean_field (m_norm m) && clean_field (m_dict m) && clean_field (m_reading m).

(* reading a printed sentence back: lines up to the "EOS" line, each split into its columns *)
Definition read_back (printed : list N) : option (list (list (list N))) :=
  match rev (split_on LF printed) with
  | [] :: e :: ls => if list_eqb N.eqb e eos_line then Some (map (split_on TAB) (rev ls)) else None
  | _ => None
  end.

(* ---- the word-info fields each column needs, and the fields the format requests (Simple::subset) ---- *)
Definition column_needs (col : string) : list string :=
  if String.eqb col "surface" then []
  else if String.eqb col "part_of_speech" then ["POS_ID"%string]
  else if String.eqb col "normalized_form" then ["NORMALIZED_FORM"%string]
  else if String.eqb col "dictionary_form" then ["DIC_FORM_WORD_ID"%string]
  else if String.eqb col "reading_form" then ["READING_FORM"%string]
  else if String.eqb col "dictionary_id" then []
  else if String.eqb col "synonym_group_ids" then ["SYNONYM_GROUP_ID"%string]
  else if String.eqb col "is_oov" then []
  else ["?"%string].
Definition covered (cols req : list string) : bool :=
  forallb (fun c => forallb (fun f => existsb (String.eqb f) req) (column_needs c)) cols.

(* ---- correspondence entry point ---- *)
Definition check_simple (print_all : bool) (ms : list morph) (printed : list N) : bool :=
  bytes_eqb (simple print_all ms) printed
  && match read_back printed with
     | Some cols => list_eqb (list_eqb bytes_eqb) cols (map (fields print_all) ms) || negb (forallb clean ms)
     | None => negb (forallb clean ms)
     end.
