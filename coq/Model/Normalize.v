(* Model of the input-text plugins:
     sudachi/src/plugin/input_text/default_input_text/mod.rs   (rewrite_impl, replace_fast, replace_slow)
     sudachi/src/plugin/input_text/prolonged_sound_mark/mod.rs (rewrite_impl, regex  [marks]{2,})
     sudachi/src/plugin/input_text/ignore_yomigana/mod.rs      (rewrite_impl, regex  K(L R{1,n} B))
   and of the part of InputBuffer::commit / edit::resolve_edits that turns an edit list into the new text
   and the byte offset map.
   Executable definitions only (no proofs).  Text = list of Unicode scalar values (N); positions in the
   model are code-point indices (nat); byte offsets (N) are prefix sums of UTF-8 widths. *)
From Coq Require Import List NArith Bool Arith.
From SudachiVerif Require Generated.NormalizeFacts.
From SudachiVerif Require Import Model.Harness.
Import ListNotations.
Local Open Scope nat_scope.

Definition cp := N.
Definition text := list cp.

(* one ReplaceOp: code points [e_start, e_end) are replaced by e_repl *)
Record edit := mkE { e_start : nat; e_end : nat; e_repl : text }.

Definition text_eqb : text -> text -> bool := list_eqb N.eqb.

(* ------------------------------------------------------------------ edit resolution *)

Definition slice (t : text) (a b : nat) : text := firstn (b - a) (skipn a t).

(* edit::resolve_edits on the text: push source[start..e.start], push the replacement, start = e.end; finally
   push source[start..].  A Rust slice whose bounds are out of order or past the end panics: None. *)
Fixpoint resolve (t : text) (start : nat) (es : list edit) : option text :=
  match es with
  | [] => if start <=? length t then Some (skipn start t) else None
  | e :: es' =>
      if (start <=? e_start e) && (e_start e <=? e_end e) && (e_end e <=? length t) then
        match resolve t (e_end e) es' with
        | Some r => Some (slice t start (e_start e) ++ e_repl e ++ r)
        | None => None
        end
      else None
  end.

Definition apply_edits (t : text) (es : list edit) : option text :=
  match es with
  | [] => Some t                       (* commit(): `if self.replaces.is_empty() { return Ok(()) }` *)
  | _ => resolve t 0 es
  end.

(* what the edit list must satisfy for resolve_edits (its comment: "assumed to be sorted and non-overlapping") *)
Fixpoint edits_ok_from (start len : nat) (es : list edit) : bool :=
  match es with
  | [] => start <=? len
  | e :: es' => (start <=? e_start e) && (e_start e <=? e_end e) && (e_end e <=? len) && edits_ok_from (e_end e) len es'
  end.
Definition edits_ok (t : text) (es : list edit) : bool := edits_ok_from 0 (length t) es.

(* UTF-8 width and byte offsets *)
Definition width (c : cp) : N :=
  if (c <? 128)%N then 1%N else if (c <? 2048)%N then 2%N else if (c <? 65536)%N then 3%N else 4%N.
Definition bytes_of (t : text) : N := fold_left (fun a c => (a + width c)%N) t 0%N.
Definition boff (t : text) (i : nat) : N := bytes_of (firstn i t).

(* offsets of an unchanged stretch [a, b) : every code point maps to its own byte offset *)
Fixpoint ident_offs (t : text) (off : N) : list N :=
  match t with
  | [] => []
  | c :: t' => off :: ident_offs t' (off + width c)%N
  end.

(* add_replace: the first code point of the replacement maps to the start of the replaced range,
   all later ones to its end; an empty replacement adds nothing *)
Definition repl_offs (r : text) (s e : N) : list N :=
  match r with
  | [] => []
  | _ :: r' => s :: map (fun _ => e) r'
  end.

Fixpoint resolve_offs (t : text) (start : nat) (es : list edit) : list N :=
  match es with
  | [] => ident_offs (skipn start t) (boff t start) ++ [bytes_of t]
  | e :: es' =>
      ident_offs (slice t start (e_start e)) (boff t start)
        ++ repl_offs (e_repl e) (boff t (e_start e)) (boff t (e_end e))
        ++ resolve_offs t (e_end e) es'
  end.

(* m2o of the new text at the start of each code point, and at the end.  "first byte of mapping MUST be 0". *)
Definition offsets_after (t : text) (es : list edit) : list N :=
  match es with
  | [] => ident_offs t 0%N ++ [bytes_of t]
  | _ => match resolve_offs t 0 es with
         | [] => []
         | _ :: r => 0%N :: r
         end
  end.

(* ------------------------------------------------------------------ the shared loop shape *)
(* All four rewriting loops are "leftmost, non-overlapping matches from left to right":
     for (offset, ch) in char_indices { if offset < min_offset { continue } ... }      (replace_slow)
     for m in checker.find_iter(..) / re.find_iter(..) / regex.captures_iter(..)       (the other three)
   `act t` looks at the text from the current position on and answers Some (off, n, v): the match covers the next n code
   points, of which [off, n) are replaced by v; the scan resumes behind the match (`skip` = code points still to pass). *)
Definition action := option (nat * nat * text).

Fixpoint scan_edits (act : text -> action) (pos skip : nat) (t : text) : list edit :=
  match t with
  | [] => []
  | _ :: t' =>
      match skip with
      | S k => scan_edits act (S pos) k t'
      | O => match act t with
             | Some (off, n, v) => mkE (pos + off) (pos + n) v :: scan_edits act (S pos) (n - 1) t'
             | None => scan_edits act (S pos) 0 t'
             end
      end
  end.

(* ------------------------------------------------------------------ rewrite table *)

Definition table := list (text * text).

Fixpoint is_prefix (k t : text) : bool :=
  match k, t with
  | [], _ => true
  | x :: k', y :: t' => (x =? y)%N && is_prefix k' t'
  | _ :: _, [] => false
  end.

(* keys of the table that start at the head of t, as (length, value) *)
Definition matches_at (tb : table) (t : text) : list (nat * text) :=
  map (fun kv => (length (fst kv), snd kv)) (filter (fun kv => is_prefix (fst kv) t) tb).

(* leftmost-longest: the longest key starting here (keys are distinct, so there is at most one of each length) *)
Fixpoint longest (ms : list (nat * text)) : option (nat * text) :=
  match ms with
  | [] => None
  | m :: ms' => match longest ms' with
                | Some b => if fst b <? fst m then Some m else Some b
                | None => Some m
                end
  end.
(* `.earliest(true)` on an anchored search: the match is reported as soon as one is known = the shortest key *)
Fixpoint shortest (ms : list (nat * text)) : option (nat * text) :=
  match ms with
  | [] => None
  | m :: ms' => match shortest ms' with
                | Some b => if fst m <? fst b then Some m else Some b
                | None => Some m
                end
  end.

Definition longest_match (tb : table) (t : text) : option (nat * text) := longest (matches_at tb t).
Definition shortest_match (tb : table) (t : text) : option (nat * text) := shortest (matches_at tb t).

(* what read_rewrite_lists guarantees: keys are non-empty (split_whitespace) and pairwise distinct ("already defined") *)
Fixpoint keys_distinct (tb : table) : bool :=
  match tb with
  | [] => true
  | kv :: tb' => negb (existsb (fun kv' => text_eqb (fst kv) (fst kv')) tb') && keys_distinct tb'
  end.
Definition table_wf (tb : table) : bool :=
  forallb (fun kv => negb (text_eqb (fst kv) [])) tb && keys_distinct tb.

(* ------------------------------------------------------------------ DefaultInputTextPlugin *)
Section Default.
  (* Unicode oracle (std case mapping, unicode-normalization): supplied with every correspondence case *)
  Variable lower : cp -> text.          (* char::to_lowercase *)
  Variable nfkc : text -> text.         (* UnicodeNormalization::nfkc of a code point sequence *)
  Variable qc_yes : cp -> bool.         (* is_nfkc_quick(once(c)) == IsNormalized::Yes *)
  Variable upper : cp -> bool.          (* char::is_uppercase *)

  Variable tb : table.
  Variable ign : cp -> bool.            (* ignore_normalize_set *)

  (* ---- specification (property text): lower-cased, and unless exempt NFKC-normalised, character by character *)
  Definition spec_char (c : cp) : text := if ign c then lower c else nfkc (lower c).

  (* scanning left to right: the longest table key starting at a position is replaced by its value (and the scan
     continues behind the key: `skip` counts the code points of the key still to be passed over) *)
  Fixpoint spec_scan (skip : nat) (t : text) : text :=
    match t with
    | [] => []
    | c :: t' =>
        match skip with
        | S k => spec_scan k t'
        | O => match longest_match tb t with
               | Some (n, v) => v ++ spec_scan (n - 1) t'
               | None => spec_char c ++ spec_scan 0 t'
               end
        end
    end.
  Definition normalize_spec (t : text) : text := spec_scan 0 t.

  (* positions at which the left-to-right scan of t starts a new span *)
  Fixpoint cut_scan (skip : nat) (t : text) (i : nat) : bool :=
    match i, t with
    | O, _ => match skip with O => true | _ => false end
    | S i', [] => false
    | S i', c :: t' =>
        match skip with
        | S k => cut_scan k t' i'
        | O => match longest_match tb t with
               | Some (n, _) => cut_scan (n - 1) t' i'
               | None => cut_scan 0 t' i'
               end
        end
    end.
  Definition cut_point (t : text) (i : nat) : bool := cut_scan 0 t i.

  (* ---- the code ---- *)
  (* which characters are sent through to_lowercase: read from the source on every run *)
  Definition need_lower (c : cp) : bool :=
    if Generated.NormalizeFacts.lowercase_guard_is_uppercase then upper c
    else negb (text_eqb (lower c) [c]).

  (* handle_normalization_slow: no edit when the iterator is empty or its first item is the character itself *)
  Definition norm_edit_of (c : cp) (r : text) : option text :=
    match r with
    | [] => None
    | x :: _ => if (x =? c)%N then None else Some r
    end.

  Definition norm_edit (c : cp) : option text :=
    let nl := need_lower c in
    let nn := negb (ign c) && negb (qc_yes c) in
    match nl, nn with
    | false, false => None
    | true, false => norm_edit_of c (lower c)
    | false, true => norm_edit_of c (nfkc [c])
    | true, true => norm_edit_of c (nfkc (lower c))
    end.

  (* anchored search of replace_slow: shortest key with `.earliest(true)`, else leftmost-longest *)
  Definition slow_match (t : text) : option (nat * text) :=
    if Generated.NormalizeFacts.slow_search_earliest then shortest_match tb t else longest_match tb t.

  (* replace_slow: `for (offset, ch) in cur.char_indices() { if offset < min_offset { continue } ... }`:
     1. replacement by the table, 2. otherwise normalisation of the single character *)
  Definition slow_act (t : text) : action :=
    match slow_match t with
    | Some (n, v) => Some (0, n, v)
    | None => match t with
              | c :: _ => match norm_edit c with Some r => Some (0, 1, r) | None => None end
              | [] => None
              end
    end.
  Definition slow_edits (t : text) : list edit := scan_edits slow_act 0 0 t.

  (* replace_fast: unanchored leftmost-longest find_iter (non-overlapping); characters are not looked at *)
  Definition fast_act (t : text) : action :=
    match longest_match tb t with
    | Some (n, v) => Some (0, n, v)
    | None => None
    end.
  Definition fast_edits (t : text) : list edit := scan_edits fast_act 0 0 t.

  (* rewrite_impl: qc_text = (is_nfkc_quick(all chars) == Yes) comes from the oracle with the text *)
  Definition need_lower_text (c : cp) : bool :=
    if Generated.NormalizeFacts.path_guard_is_uppercase then upper c else negb (text_eqb (lower c) [c]).
  Definition takes_slow (qc_text : bool) (t : text) : bool := negb qc_text || existsb need_lower_text t.

  Definition default_edits (qc_text : bool) (t : text) : list edit :=
    if takes_slow qc_text t then slow_edits t else fast_edits t.

  Definition default_rewrite (qc_text : bool) (t : text) : option text :=
    apply_edits t (default_edits qc_text t).
End Default.

(* ------------------------------------------------------------------ ProlongedSoundMarkPlugin *)
Section Psm.
  Variable mark : cp -> bool.
  Variable sym : text.

  Fixpoint run_len (t : text) : nat :=
    match t with
    | c :: t' => if mark c then S (run_len t') else 0
    | [] => 0
    end.

  (* regex [marks]{2,} with find_iter: leftmost, greedy, non-overlapping *)
  Definition psm_act (t : text) : action :=
    let n := run_len t in if 2 <=? n then Some (0, n, sym) else None.
  Definition psm_edits (t : text) : list edit := scan_edits psm_act 0 0 t.

  (* specification: every maximal run of at least two mark characters becomes the symbol; all else is kept.
     in_run: number of mark characters of the current run already seen *)
  Fixpoint psm_spec_scan (prev_mark : bool) (t : text) : text :=
    match t with
    | [] => []
    | c :: t' =>
        if mark c then
          if prev_mark then psm_spec_scan true t'                       (* inside a run that was already replaced or kept *)
          else match t' with
               | d :: _ => if mark d then sym ++ psm_spec_scan true t'   (* a run of >= 2 starts here *)
                           else c :: psm_spec_scan true t'              (* isolated mark *)
               | [] => [c]
               end
        else c :: psm_spec_scan false t'
    end.
  Definition psm_spec (t : text) : text := psm_spec_scan false t.
End Psm.

(* ------------------------------------------------------------------ IgnoreYomiganaPlugin *)
Section Yomi.
  Variable isK isR isL isB : cp -> bool.   (* kanji class, reading class (hiragana|katakana), left / right brackets *)
  Variable maxlen : nat.

  (* greedy R{1,n} followed by B, with backtracking: the largest k in 1..n with t[0..k) readings and t[k] a right bracket.
     `t` starts behind the left bracket. *)
  Fixpoint reading_match (n : nat) (t : text) : option nat :=
    match n, t with
    | S n', c :: t' =>
        if isR c then
          match reading_match n' t' with
          | Some k => Some (S k)
          | None => match t' with
                    | b :: _ => if isB b then Some 1 else None
                    | [] => None
                    end
          end
        else None
    | _, _ => None
    end.

  (* a match of K(L R{1,n} B) at the head of t: Some k = number of reading characters *)
  Definition yomi_at (t : text) : option nat :=
    match t with
    | c :: l :: t' => if isK c && isL l then reading_match maxlen t' else None
    | _ => None
    end.

  (* captures_iter, group 1 replaced by "": the kanji stays, bracket..bracket goes *)
  Definition yomi_act (t : text) : action :=
    match yomi_at t with
    | Some k => Some (1, k + 3, [])
    | None => None
    end.
  Definition yomi_edits (t : text) : list edit := scan_edits yomi_act 0 0 t.
End Yomi.

(* ------------------------------------------------------------------ correspondence-check entry points *)

Fixpoint assoc_n {A} (d : A) (l : list (N * A)) (c : N) : A :=
  match l with
  | [] => d
  | (k, v) :: l' => if (k =? c)%N then v else assoc_n d l' c
  end.
Fixpoint assoc_t (l : list (text * text)) (k : text) : text :=
  match l with
  | [] => k
  | (k', v) :: l' => if text_eqb k' k then v else assoc_t l' k
  end.
Definition mem_n (l : list N) (c : N) : bool := existsb (N.eqb c) l.
Definition in_ranges (rs : list (N * N)) (c : N) : bool := existsb (fun r => (fst r <=? c)%N && (c <=? snd r)%N) rs.

(* oracle values for the code points of one case; anything not listed is "unchanged / Yes / not upper-case" *)
Record odata := mkO { od_lower : list (N * text); od_nfkc : list (text * text); od_qcno : list N; od_upper : list N }.
Definition o_lower (o : odata) (c : cp) : text := assoc_n [c] (od_lower o) c.
Definition o_nfkc (o : odata) (t : text) : text := assoc_t (od_nfkc o) t.
Definition o_qc (o : odata) (c : cp) : bool := negb (mem_n (od_qcno o) c).
Definition o_upper (o : odata) (c : cp) : bool := mem_n (od_upper o) c.

Definition nlist_eqb : list N -> list N -> bool := list_eqb N.eqb.

(* the model agrees with the implementation (text and offset map) AND the implementation's text is the specified one *)
Definition check_default (o : odata) (tb : table) (ignl : list N) (t : text) (qc_text : bool)
           (out : option text) (offs : list N) : bool :=
  let es := default_edits (o_lower o) (o_nfkc o) (o_qc o) (o_upper o) tb (mem_n ignl) qc_text t in
  table_wf tb &&
  match apply_edits t es, out with
  | Some m, Some i =>
      text_eqb m i && nlist_eqb (offsets_after t es) offs
      && text_eqb i (normalize_spec (o_lower o) (o_nfkc o) tb (mem_n ignl) t)
      && edits_ok t es
  | None, None => false      (* a panic is never the specified result *)
  | _, _ => false
  end.

Definition check_psm (marks : list N) (sym : text) (t : text) (out : option text) (offs : list N) : bool :=
  let es := psm_edits (mem_n marks) sym t in
  match apply_edits t es, out with
  | Some m, Some i =>
      text_eqb m i && nlist_eqb (offsets_after t es) offs
      && text_eqb i (psm_spec (mem_n marks) sym t) && edits_ok t es
  | _, _ => false
  end.

Definition yomi_ok_edit (isK isR isL isB : cp -> bool) (maxlen : nat) (t : text) (e : edit) : bool :=
  match e_start e with
  | O => false
  | S p =>
      let body := slice t (S (S p)) (e_end e - 1) in
      text_eqb (e_repl e) []
      && (S (S p) <? e_end e - 1) && (e_end e <=? length t)
      && (length body <=? maxlen)
      && match nth_error t p with Some c => isK c | None => false end
      && match nth_error t (S p) with Some c => isL c | None => false end
      && match nth_error t (e_end e - 1) with Some c => isB c | None => false end
      && forallb isR body
  end.

Definition check_yomi (kanji reading : list (N * N)) (lbs rbs : list N) (maxlen : nat) (t : text)
           (out : option text) (offs : list N) : bool :=
  let isK := fun c => in_ranges kanji c && (c <? 1114111)%N in
  let isR := fun c => in_ranges reading c && (c <? 1114111)%N in
  let es := yomi_edits isK isR (mem_n lbs) (mem_n rbs) maxlen t in
  match apply_edits t es, out with
  | Some m, Some i =>
      text_eqb m i && nlist_eqb (offsets_after t es) offs
      && edits_ok t es && forallb (yomi_ok_edit isK isR (mem_n lbs) (mem_n rbs) maxlen t) es
  | _, _ => false
  end.
