(* Model of the path-rewrite stage: analysis/node.rs::{concat_nodes, concat_oov_nodes},
   plugin/path_rewrite/join_numeric/mod.rs::{concat, rewrite_gen}, plugin/path_rewrite/join_katakana_oov/mod.rs::rewrite_gen.
   Executable definitions only.  Loops carry explicit fuel; [None] = fuel exhausted. *)
From Coq Require Import List NArith ZArith Bool Arith.
From SudachiVerif Require Import Model.Numeric.
From SudachiVerif Require Generated.RewriteFacts.
Import ListNotations.

Module RF := Generated.RewriteFacts.

(* A result node as far as the plugins look at it / build it.
   nb, ne: code-point range in the (modified) text; surf / norm / dform / rform: the RAW WordInfoData strings as code
   points (an empty norm / dform / rform stands for "same as surface", see [norm_of]);
   bb, be: byte range the morpheme REPORTS (begin_bytes / end_bytes of the ResultNode: Morpheme::surface() slices the
   text by it); pos: part-of-speech id; oov: word_id().is_oov(); cats: AND of the character classes over the node's range
   (InputBuffer::cat_of_range); cat0: class of its first character (cat_at_char(begin)). *)
Record node := mkN {
  nb : nat; ne : nat; bb : nat; be : nat; surf : list N; norm : list N; dform : list N; rform : list N;
  extra : N;   (* bit 0: A-unit split list non-empty, bit 1: B-unit split list, bit 2: word structure, bit 3: synonym group ids *)
  pos : N; oov : bool; cats : N; cat0 : N }.

Inductive res (A : Type) := Ok (a : A) | ErrRange | PanicIndex.
Arguments Ok {A} a. Arguments ErrRange {A}. Arguments PanicIndex {A}.

Definition dnode : node := mkN 0 0 0 0 [] [] [] [] 0 0 false 0 0.

(* WordInfo::normalized_form(): the surface when the stored form is empty *)
Definition norm_of (n : node) : list N := match norm n with [] => surf n | s => s end.
Definition at_ (p : list node) (i : nat) : node := nth i p dnode.

Definition slice (p : list node) (b e : nat) : list node := firstn (e - b) (skipn b p).

Definition and_cats (g : list node) : N :=
  match g with [] => 0%N | n :: t => fold_left (fun a x => N.land a (cats x)) t (cats n) end.

(* concat_nodes(path, begin, end, normalized_form): Err(InvalidRange) when begin >= end; path[end-1] panics beyond the end.
   The new node has WordId::INVALID, whose dictionary nibble is 0xf: is_oov() is true. *)
Definition merged_numeric (g : list node) (nf : option (list N)) : node :=
  let f := hd dnode g in let l := last g dnode in
  mkN (nb f) (ne l) (bb f) (be l) (concat (map surf g))
      (match nf with Some s => s | None => concat (map norm g) end)
      (concat (map dform g)) (concat (map rform g)) 0 (pos f) RF.invalid_word_id_is_oov (and_cats g) (cat0 f).

Definition concat_nodes (p : list node) (b e : nat) (nf : option (list N)) : res (list node) :=
  if e <=? b then ErrRange
  else if length p <? e then PanicIndex
  else Ok (firstn b p ++ merged_numeric (slice p b e) nf :: skipn e p).

(* concat_oov_nodes(path, begin, end, pos_id): surface = normalized = dictionary form = concatenation, empty reading;
   word id = max of the parts, is_oov iff some part is OOV (an OOV id is larger than every dictionary id) *)
Definition merged_oov (g : list node) (pid : N) : node :=
  let f := hd dnode g in let l := last g dnode in
  let s := concat (map surf g) in
  mkN (nb f) (ne l) (bb f) (be l) s s s [] 0 pid (existsb oov g) (and_cats g) (cat0 f).

Definition concat_oov_nodes (p : list node) (b e : nat) (pid : N) : res (list node) :=
  if e <=? b then ErrRange
  else if length p <? e then PanicIndex
  else Ok (firstn b p ++ merged_oov (slice p b e) pid :: skipn e p).

(* ------------------------------------------------------------------ JoinKatakanaOovPlugin *)
Definition contains (c flag : N) : bool := N.eqb (N.land c flag) flag.
Definition is_kat (n : node) : bool := contains (cats n) RF.KATAKANA.
Definition can_oov_bow (n : node) : bool := negb (contains (cat0 n) RF.NOOOVBOW).

Section Katakana.
Variable min_length : nat.
Variable oov_pos : N.

Definition is_shorter (n : node) : bool := (ne n - nb n) <? min_length.

(* begin = i - 1; loop { if begin < 0 break; if !kat(path[begin]) { begin += 1; break }; begin -= 1 }; max(begin, 0)
   -- [b] is begin + 1 *)
Fixpoint scan_left (p : list node) (b : nat) : nat :=
  match b with
  | O => O
  | S b' => if is_kat (at_ p b') then scan_left p b' else b
  end.

(* while end < len && kat(path[end]) { end += 1 }  -- fuel = len *)
Fixpoint scan_right (p : list node) (e fuel : nat) : nat :=
  match fuel with
  | O => e
  | S f => if (e <? length p) && is_kat (at_ p e) then scan_right p (S e) f else e
  end.

(* while begin != end && !can_oov_bow(path[begin]) { begin += 1 } *)
Fixpoint skip_nobow (p : list node) (b e fuel : nat) : nat :=
  match fuel with
  | O => b
  | S f => if negb (b =? e) && negb (can_oov_bow (at_ p b)) then skip_nobow p (S b) e f else b
  end.

Fixpoint kat_loop (fuel : nat) (p : list node) (i : nat) : option (res (list node)) :=
  match fuel with
  | O => None
  | S f =>
      if length p <=? i then Some (Ok p)
      else
        let n := at_ p i in
        if negb (oov n || is_shorter n) || negb (is_kat n) then kat_loop f p (S i)
        else
          let b := scan_left p i in
          let e := scan_right p (S i) (length p) in
          let b := skip_nobow p b e (length p) in
          if N.to_nat RF.kat_merge_above <? e - b then
            match concat_oov_nodes p b e oov_pos with
            | Ok p' => kat_loop f p' (b + N.to_nat RF.kat_resume)
            | r => Some r
            end
          else kat_loop f p (S i)
  end.

Definition join_katakana (p : list node) : option (res (list node)) := kat_loop (S (length p)) p 0.
End Katakana.

(* ------------------------------------------------------------------ JoinNumericPlugin *)
Section NumericJoin.
Variable enable_normalize : bool.
Variable numeric_pos : N.

Definition is_numcat (n : node) : bool := negb (N.eqb (N.land (cats n) (N.lor RF.NUMERIC RF.KANJINUMERIC)) 0).

(* JoinNumericPlugin::concat *)
Definition num_concat (p : list node) (b e : nat) (ps : parser) : res (list node) :=
  if negb (N.eqb (pos (at_ p b)) numeric_pos) then Ok p
  else if enable_normalize then
    let nf := s_to_string gen_cfg (tot ps) in
    if (N.to_nat RF.num_merge_above <? e - b) || negb (text_eqb nf (norm_of (at_ p b))) then concat_nodes p b e (Some nf) else Ok p
  else if N.to_nat RF.num_merge_above <? e - b then concat_nodes p b e None else Ok p.

Record nstate := mkNS { np : list node; ni : Z; nbeg : Z; ncad : bool; npad : bool; nps : parser }.

Definition is_str (s : list N) (c : N) : bool := match s with [x] => N.eqb x c | _ => false end.

(* for c in s.chars() { if !parser.append(&c) { ...; break } } *)
Fixpoint feed_chars (ps : parser) (cs : list N) : bool * parser :=
  match cs with
  | [] => (true, ps)
  | c :: t => let '(ok, ps') := p_append gen_cfg ps c in if ok then feed_chars ps' t else (false, ps')
  end.

(* c = if s.len() == 1 { s.as_bytes()[0] as char } else { char::MAX } -- only compared with ',' and '.' *)
Definition single_ascii (s : list N) : N := match s with [x] => if N.ltb x 128 then x else 1114111%N | _ => 1114111%N end.

(* one iteration of `while i < path.len() as i32 - 1` ; None = loop finished *)
Definition num_step (st : nstate) : option (res nstate) :=
  let p := np st in
  if negb (Z.ltb (ni st) (Z.of_nat (length p) - 1)) then None
  else
    let i := (ni st + 1)%Z in
    let n := at_ p (Z.to_nat i) in
    let s := norm_of n in
    if is_numcat n || (ncad st && is_str s 44) || (npad st && is_str s 46) then
      let '(beg, ps) := if Z.ltb (nbeg st) 0 then (i, p_new gen_cfg) else (nbeg st, nps st) in
      let '(ok, ps') := feed_chars ps s in
      if ok then Some (Ok (mkNS p i beg (ncad st) (npad st) ps'))
      (* the run is restarted without the offending separator only while that separator still counts as a digit
         (RF.restart_requires_flag: the repaired code; without the guard the same run failed for ever) *)
      else if N.eqb (er ps') E_COMMA && (negb RF.restart_requires_flag || ncad st)
      then Some (Ok (mkNS p (beg - 1) (-1) false (npad st) ps'))
      else if N.eqb (er ps') E_POINT && (negb RF.restart_requires_flag || npad st)
      then Some (Ok (mkNS p (beg - 1) (-1) (ncad st) false ps'))
      else Some (Ok (mkNS p i (-1) (ncad st) (npad st) ps'))
    else
      let c := single_ascii s in
      let r :=
        if Z.leb 0 (nbeg st) then
          let b := Z.to_nat (nbeg st) in
          let '(ok, ps') := p_done gen_cfg (nps st) in
          if ok then
            match num_concat p b (Z.to_nat i) ps' with
            | Ok p' => Ok (p', (nbeg st + RF.num_resume)%Z, ps')
            | ErrRange => ErrRange | PanicIndex => PanicIndex
            end
          else
            let ss := norm_of (at_ p (Z.to_nat i - 1)) in
            if (N.eqb (er ps') E_COMMA && is_str ss 44) || (N.eqb (er ps') E_POINT && is_str ss 46) then
              match num_concat p b (Z.to_nat i - 1) ps' with
              | Ok p' => Ok (p', (nbeg st + RF.num_resume_sep)%Z, ps')
              | ErrRange => ErrRange | PanicIndex => PanicIndex
              end
            else Ok (p, i, ps')
        else Ok (p, i, nps st) in
      match r with
      | Ok (p', i', ps') =>
          let cad := if negb (ncad st) && negb (N.eqb c 44) then true else ncad st in
          let pad := if negb (npad st) && negb (N.eqb c 46) then true else npad st in
          Some (Ok (mkNS p' i' (-1) cad pad ps'))
      | ErrRange => Some ErrRange
      | PanicIndex => Some PanicIndex
      end.

(* process last part *)
Definition num_finish (st : nstate) : res (list node) :=
  let p := np st in
  if Z.leb 0 (nbeg st) then
    let b := Z.to_nat (nbeg st) in
    let len := length p in
    let '(ok, ps') := p_done gen_cfg (nps st) in
    if ok then num_concat p b len ps'
    else
      let ss := norm_of (at_ p (len - 1)) in
      if (N.eqb (er ps') E_COMMA && is_str ss 44) || (N.eqb (er ps') E_POINT && is_str ss 46)
      then num_concat p b (len - 1) ps' else Ok p
  else Ok p.

Fixpoint num_loop (fuel : nat) (st : nstate) : option (res (list node)) :=
  match fuel with
  | O => None
  | S f => match num_step st with
           | None => Some (num_finish st)
           | Some (Ok st') => num_loop f st'
           | Some ErrRange => Some ErrRange
           | Some PanicIndex => Some PanicIndex
           end
  end.

(* proved sufficient in Proofs/RewriteTermination.v: 3(n+1)^2 iterations *)
Definition num_fuel (p : list node) : nat := 3 * S (length p) * S (length p).

Definition join_numeric (p : list node) : option (res (list node)) :=
  num_loop (num_fuel p) (mkNS p (-1) (-1) true true (p_new gen_cfg)).
End NumericJoin.

(* ------------------------------------------------------------------ plugin chain and the checks of the shards *)
Inductive plugin := PNumeric (enable_normalize : bool) (numeric_pos : N) | PKatakana (min_length : nat) (oov_pos : N).

Definition run_plugin (pl : plugin) (p : list node) : option (res (list node)) :=
  match pl with
  | PNumeric en np => join_numeric en np p
  | PKatakana ml op => join_katakana ml op p
  end.

Fixpoint run_plugins (pls : list plugin) (p : list node) : option (res (list node)) :=
  match pls with
  | [] => Some (Ok p)
  | pl :: t => match run_plugin pl p with
               | Some (Ok p') => run_plugins t p'
               | r => r
               end
  end.

(* observable part of a node: range, surface, normalised / dictionary / reading form, part of speech, OOV flag *)
Definition node_eqb (a b : node) : bool :=
  Nat.eqb (nb a) (nb b) && Nat.eqb (ne a) (ne b) && Nat.eqb (bb a) (bb b) && Nat.eqb (be a) (be b) && text_eqb (surf a) (surf b) && text_eqb (norm a) (norm b) &&
  text_eqb (dform a) (dform b) && text_eqb (rform a) (rform b) && N.eqb (extra a) (extra b) && N.eqb (pos a) (pos b) && Bool.eqb (oov a) (oov b).

Fixpoint nodes_eqb (a b : list node) : bool :=
  match a, b with
  | [], [] => true
  | x :: a', y :: b' => node_eqb x y && nodes_eqb a' b'
  | _, _ => false
  end.

(* the property on the implementation's output: [out] is obtained from [inp] by merging consecutive non-empty groups;
   a merged token covers the union of the ranges, its surface is the concatenation, its part of speech is one the
   plugins prescribe, it has no split lists / word structure / synonym ids; a token that is not part of a merge is unchanged (or, for a single numeral with enableNormalize,
   re-normalised: same range, surface, part of speech) *)
Fixpoint take_group (inp : list node) (e : nat) (acc : list node) : option (list node * list node) :=
  match inp with
  | [] => None
  | n :: t => if Nat.eqb (ne n) e then Some (rev (n :: acc), t)
              else if Nat.ltb (ne n) e then take_group t e (n :: acc) else None
  end.

Definition group_ok (allowed_pos : list N) (renorm : bool) (numeric_pos : N) (g : list node) (m : node) : bool :=
  match g with
  | [] => false
  | [n] => node_eqb n m ||
           (renorm && Nat.eqb (nb n) (nb m) && Nat.eqb (bb n) (bb m) && Nat.eqb (be n) (be m) && text_eqb (surf n) (surf m) && N.eqb (pos n) (pos m) && N.eqb (pos n) numeric_pos && N.eqb (extra m) 0)
  | f :: _ => Nat.eqb (nb f) (nb m) && Nat.eqb (ne (last g dnode)) (ne m) &&
              Nat.eqb (bb f) (bb m) && Nat.eqb (be (last g dnode)) (be m) && text_eqb (concat (map surf g)) (surf m) &&
              existsb (N.eqb (pos m)) allowed_pos && N.eqb (extra m) 0
  end.

Fixpoint grouping_ok (fuel : nat) (allowed_pos : list N) (renorm : bool) (numeric_pos : N) (inp out : list node) : bool :=
  match fuel with
  | O => false
  | S f =>
      match out with
      | [] => match inp with [] => true | _ => false end
      | m :: out' =>
          match take_group inp (ne m) [] with
          | Some (g, rest) => group_ok allowed_pos renorm numeric_pos g m && grouping_ok f allowed_pos renorm numeric_pos rest out'
          | None => false
          end
      end
  end.

Definition plugin_pos (pl : plugin) : N := match pl with PNumeric _ np => np | PKatakana _ op => op end.
Definition has_renorm (pls : list plugin) : bool := existsb (fun pl => match pl with PNumeric en _ => en | _ => false end) pls.
Definition numeric_pos_of (pls : list plugin) : N :=
  fold_right (fun pl acc => match pl with PNumeric _ np => np | _ => acc end) 0%N pls.

(* one correspondence case: model output = implementation output, and the grouping property holds on the implementation's output *)
Definition check_rewrite (pls : list plugin) (inp out : list node) : bool :=
  match run_plugins pls inp with
  | Some (Ok q) => nodes_eqb q out
  | _ => false
  end &&
  grouping_ok (S (length out)) (map plugin_pos pls) (has_renorm pls) (numeric_pos_of pls) inp out.
