(* Model of the A/B splitting code:
     sudachi/src/analysis/node.rs            ResultNode::{num_splits, split}, NodeSplitIterator::next
     sudachi/src/analysis/stateless_tokenizer.rs   split_path
     sudachi/src/analysis/mlist.rs           MorphemeList::split_into
     sudachi/src/dic/lexicon_set.rs          LexiconSet::update_dict_id (re-stamping of unit ids)
     sudachi/src/analysis/morpheme.rs        Morpheme::{begin, end, surface} (mapping to the original text)
   Executable definitions only (no proofs). *)
From Coq Require Import List NArith Bool.
From SudachiVerif Require Import Model.Harness.
From SudachiVerif Require Generated.Limits Generated.SplitFacts.
Import ListNotations.
Open Scope N_scope.

(* ---------- geometry of the modified (normalised) text: a list of Unicode scalar values ---------- *)
Definition width (c : N) : N :=
  if c <? 128 then 1 else if c <? 2048 then 2 else if c <? 65536 then 3 else 4.

Fixpoint blen (t : list N) : N :=
  match t with [] => 0 | c :: r => width c + blen r end.

Definition clen (t : list N) : N := N.of_nat (length t).

(* InputBuffer::build, mod_b2c: every byte of code point k carries k; one sentinel entry = number of code points *)
Fixpoint b2c_from (k : N) (t : list N) : list N :=
  match t with
  | [] => [k]
  | c :: r => repeat k (N.to_nat (width c)) ++ b2c_from (k + 1) r
  end.

(* InputBuffer::ch_idx: self.mod_b2c[idx]; None = index out of range (panic) *)
Definition ch_idx (t : list N) (i : N) : option N := nth_error (b2c_from 0 t) (N.to_nat i).

(* InputBuffer::to_curr_byte_idx: mod_c2b[k] = byte offset of code point k (sentinel: the byte length) *)
Definition c2b (t : list N) (k : N) : N := blen (firstn (N.to_nat k) t).

(* ---------- word ids: 4 bits dictionary, 28 bits word (WORD_MASK is re-read from word_id.rs) ---------- *)
Definition WORD_SPAN : N := Generated.Limits.WORD_MASK + 1.
Definition dic_of (w : N) : N := w / WORD_SPAN.
Definition word_of (w : N) : N := w mod WORD_SPAN.
Definition mk_wid (d w : N) : N := d * WORD_SPAN + w.

(* LexiconSet::update_dict_id: a unit whose stored dictionary part is > 0 (the builder writes 1 for "same user
   dictionary") is re-stamped with the id of the dictionary the parent word was read from; system units are kept.
   The comparison against 0 is re-read from the source (Generated/SplitFacts.v). *)
Import Generated.SplitFacts.
Definition guard (g : cmp * N) (x : N) : bool := cmp_eval (fst g) x (snd g).
Definition restamp_when : N -> bool := guard restamp_cmp.   (* cur_dict_id > 0 *)
Definition keep_when : N -> bool := guard keep_cmp.         (* split_len <= 1 *)
Definition nothing_when : N -> bool := guard nothing_cmp.   (* num_splits == 0 *)

(* the decidable side condition under which the theorems of Proofs/SplitProofs.v are proved; it is evaluated on the
   regenerated facts in Properties/C09.v *)
Definition guard_eqb (a b : cmp * N) : bool := cmp_eqb (fst a) (fst b) && (snd a =? snd b).
Definition split_facts_ok : bool :=
  guard_eqb restamp_cmp (CGt, 0) && guard_eqb keep_cmp (CLe, 1) && guard_eqb nothing_cmp (CEq, 0) &&
  iterator_shape_recognised && split_is_last_stage.

Definition restamp (d u : N) : N :=
  if restamp_when (dic_of u) then mk_wid d (word_of u) else u.

Definition restamp_units (w : N) (raw : list N) : list N := map (restamp (dic_of w)) raw.

(* ---------- result nodes (modified-text coordinates, as ResultNode keeps them) ---------- *)
Record node := mkNode { nb : N; ne : N; bb : N; be : N; wid : N }.

Definition node_eqb (a b : node) : bool :=
  (nb a =? nb b) && (ne a =? ne b) && (bb a =? bb b) && (be a =? be b) && (wid a =? wid b).

(* StatefulTokenizer::resolve_best_path: byte range of a lattice node through to_curr_byte_idx *)
Definition mk_cnode (t : list N) (cb ce w : N) : node := mkNode cb ce (c2b t cb) (c2b t ce) w.

Section split.
  Variable hw : N -> N.            (* WordInfo::head_word_length of a word: byte length of its key *)
  Variable t : list N.             (* modified text *)

  (* NodeSplitIterator::next, unrolled over the unit list:
       last unit  -> inherits (char_end, byte_end) of the parent
       otherwise  -> byte_end = byte_start + head_word_length(unit); char_end = text.ch_idx(byte_end) *)
  Fixpoint split_go (us : list N) (cs bs ce be_ : N) : option (list node) :=
    match us with
    | [] => Some []
    | u :: rest =>
      match rest with
      | [] => Some [mkNode cs ce bs be_ u]
      | _ :: _ =>
        let be' := bs + hw u in
        match ch_idx t be' with
        | None => None
        | Some ce' =>
          match split_go rest ce' be' ce be_ with
          | None => None
          | Some l => Some (mkNode cs ce' bs be' u :: l)
          end
        end
      end
    end.

  (* ResultNode::split *)
  Definition split_node (n : node) (us : list N) : option (list node) :=
    split_go us (nb n) (bb n) (ne n) (be n).

  Variable units : N -> list N.    (* declared units of a word in the mode at hand, already re-stamped *)

  (* stateless_tokenizer.rs split_path, for mode A or B (mode C returns the path as is: see tokenize_mode).
     The comparison `split_len <= 1` is re-read from the source. *)
  Fixpoint split_path (path : list node) : option (list node) :=
    match path with
    | [] => Some []
    | n :: r =>
      let us := units (wid n) in
      if keep_when (N.of_nat (length us)) then
        match split_path r with Some l => Some (n :: l) | None => None end
      else
        match split_node n us with
        | None => None
        | Some a => match split_path r with Some l => Some (a ++ l) | None => None end
        end
    end.

  (* MorphemeList::split_into: num_splits == 0 => Ok(false), `out` untouched; otherwise the iterator's nodes are
     appended to `out` (which is not cleared) and Ok(true) is returned. *)
  Definition split_into (n : node) (out : list node) : option (bool * list node) :=
    let us := units (wid n) in
    if nothing_when (N.of_nat (length us)) then Some (false, out)
    else match split_node n us with
         | None => None
         | Some l => Some (true, out ++ l)
         end.

  (* "C tokenisation followed by on-demand splitting of every token": a token is replaced by what split_into
     appends when it answers true and kept when it answers false *)
  Fixpoint resplit (path : list node) : option (list node) :=
    match path with
    | [] => Some []
    | n :: r =>
      match split_into n [] with
      | None => None
      | Some (b, l) =>
        match resplit r with
        | None => None
        | Some l' => Some ((if b then l else [n]) ++ l')
        end
      end
    end.
End split.

Inductive mode := ModeA | ModeB | ModeC.

(* do_tokenize's last stage: split_path(dict, path, mode, ...) with `if mode == Mode::C { return Ok(path) }` *)
Definition tokenize_mode (hw : N -> N) (t : list N) (ua ub : N -> list N) (m : mode) (path : list node) : option (list node) :=
  match m with
  | ModeC => Some path
  | ModeA => split_path hw t ua path
  | ModeB => split_path hw t ub path
  end.

(* ---------- boundaries ---------- *)
Definition cbounds (p : list node) : list N := flat_map (fun n => [nb n; ne n]) p.
Definition bbounds (p : list node) : list N := flat_map (fun n => [bb n; be n]) p.

(* ---------- what "the sub-tokens are exactly the declared units and partition the parent" means ---------- *)
(* nodes expected for unit keys ks / unit ids us placed after the text prefix pre *)
Fixpoint expected (pre : list N) (us : list N) (ks : list (list N)) : list node :=
  match us, ks with
  | u :: us', k :: ks' =>
      mkNode (clen pre) (clen (pre ++ k)) (blen pre) (blen (pre ++ k)) u :: expected (pre ++ k) us' ks'
  | _, _ => []
  end.

(* a chain of nodes that tiles the byte range [b0, e0) and the char range [c0, d0): contiguous, in order, no empty piece *)
Fixpoint tiles (c0 b0 d0 e0 : N) (l : list node) : Prop :=
  match l with
  | [] => c0 = d0 /\ b0 = e0
  | n :: r => nb n = c0 /\ bb n = b0 /\ nb n < ne n /\ bb n < be n /\ tiles (ne n) (be n) d0 e0 r
  end.

(* ---------- correspondence-check entry points ---------- *)
(* dictionary view shipped with a case: word id -> (key, stored A units, stored B units) *)
Definition dentry := (N * (list N * (list N * list N)))%type.

Fixpoint dfind (d : list dentry) (w : N) : option (list N * (list N * list N)) :=
  match d with
  | [] => None
  | (w', x) :: r => if w =? w' then Some x else dfind r w
  end.

Definition d_hw (d : list dentry) (w : N) : N :=
  match dfind d w with Some (k, _) => blen k | None => 0 end.
Definition d_key (d : list dentry) (w : N) : list N :=
  match dfind d w with Some (k, _) => k | None => [] end.
Definition d_units (a : bool) (d : list dentry) (w : N) : list N :=
  match dfind d w with
  | Some (_, (ua, ub)) => restamp_units w (if a then ua else ub)
  | None => []
  end.

(* a token as the public API shows it: (word id, Morpheme::begin, Morpheme::end, start and end of Morpheme::surface
   inside the original text) *)
Definition otoken := (N * (N * N * (N * N)))%type.

Definition otoken_eqb (a b : otoken) : bool :=
  let '(w, (x, y, (s, e))) := a in
  let '(w', (x', y', (s', e'))) := b in
  (w =? w') && (x =? x') && (y =? y') && (s =? s') && (e =? e').

(* Morpheme::begin = m2o[mod_c2b[node.begin]], Morpheme::surface = original[m2o[begin_bytes] .. m2o[end_bytes]] *)
Definition to_otoken (t m2o : list N) (n : node) : option otoken :=
  match nth_error m2o (N.to_nat (c2b t (nb n))), nth_error m2o (N.to_nat (c2b t (ne n))),
        nth_error m2o (N.to_nat (bb n)), nth_error m2o (N.to_nat (be n)) with
  | Some x, Some y, Some s, Some e => Some (wid n, (x, y, (s, e)))
  | _, _, _, _ => None
  end.

Fixpoint to_otokens (t m2o : list N) (p : list node) : option (list otoken) :=
  match p with
  | [] => Some []
  | n :: r => match to_otoken t m2o n, to_otokens t m2o r with
              | Some a, Some l => Some (a :: l)
              | _, _ => None
              end
  end.

(* implementation outcome of one analysis / split: None = panic *)
Definition same_tokens (model : option (list node)) (t m2o : list N) (impl : option (list otoken)) : bool :=
  match model, impl with
  | None, None => true
  | Some p, Some l => match to_otokens t m2o p with
                      | Some l' => list_eqb otoken_eqb l' l
                      | None => false
                      end
  | _, _ => false
  end.

Definition same_split (model : option (bool * list node)) (t m2o : list N) (impl : option (bool * list otoken)) : bool :=
  match model, impl with
  | None, None => true
  | Some (b, p), Some (b', l) => Bool.eqb b b' && same_tokens (Some p) t m2o (Some l)
  | _, _ => false
  end.

Definition mem_N (x : N) (l : list N) : bool := existsb (N.eqb x) l.
Definition obounds (l : list otoken) : list N := flat_map (fun a => let '(_, (x, y, _)) := a in [x; y]) l.
Definition incl_N (a b : list N) : bool := forallb (fun x => mem_N x b) a.

(* the property, evaluated on what the implementation reported (original-text coordinates):
   - every boundary of the C tokenisation is a boundary of the A/B tokenisation
   - a C token whose word declares no unit appears unchanged in the A/B tokenisation *)
Definition refines_impl (units : N -> list N) (ctoks abtoks : list otoken) : bool :=
  incl_N (obounds ctoks) (obounds abtoks) &&
  forallb (fun a => match units (fst a) with
                    | [] => existsb (otoken_eqb a) abtoks
                    | _ => true
                    end) ctoks.

(* sub-tokens reported for one C token by split_into: ids are the declared units in order, and the ranges tile the
   parent's range (contiguous, first starts at the parent's start, last ends at the parent's end) *)
Fixpoint chain_impl (x y : N) (l : list otoken) : bool :=
  match l with
  | [] => x =? y
  | (_, (b, e, _)) :: r => (b =? x) && (b <=? e) && chain_impl e y r
  end.

Definition partition_impl (units : N -> list N) (parent : otoken) (subs : list otoken) : bool :=
  let '(w, (x, y, _)) := parent in
  list_eqb N.eqb (map fst subs) (units w) && chain_impl x y subs.

(* units_wf for one C node, decidable on the shipped data: the keys of the declared units concatenate to the text the
   node covers *)
Definition slice (t : list N) (cb ce : N) : list N := firstn (N.to_nat (ce - cb)) (skipn (N.to_nat cb) t).

Definition units_wf_b (d : list dentry) (t : list N) (n : node) (us : list N) : bool :=
  list_eqb N.eqb (concat (map (d_key d) us)) (slice t (nb n) (ne n)) &&
  forallb (fun u => match d_key d u with [] => false | _ => true end) us.

(* concatenation, over the C tokens, of split_into's output when it answered true and of the token itself otherwise *)
Fixpoint resplit_impl (ctoks : list otoken) (sp : list (option (bool * list otoken))) : option (list otoken) :=
  match ctoks, sp with
  | [], [] => Some []
  | c :: cr, Some (b, l) :: sr =>
      match resplit_impl cr sr with
      | Some l' => Some ((if b then l else [c]) ++ l')
      | None => None
      end
  | _, _ => None
  end.

Definition no_single (units : N -> list N) (cpath : list node) : bool :=
  forallb (fun n => negb (N.of_nat (length (units (wid n))) =? 1)) cpath.

(* One case.
     d        dictionary view          t, m2o   modified text and its byte map to the original
     cp       the C-mode path as (char begin, char end, word id)
     ic       C-mode tokens as reported     ia, ib   A / B tokenisation as reported (None = panic)
     iu       the (A, B) unit lists stored with every C token as WordInfo reports them (already re-stamped)
     sa, sb   split_into(A / B) of every C token as reported *)
Definition check_case (d : list dentry) (t m2o : list N) (cp : list (N * N * N))
           (ic : list otoken) (iu : list (list N * list N)) (ia ib : option (list otoken))
           (sa sb : list (option (bool * list otoken))) : bool :=
  let hw := d_hw d in
  let ua := d_units true d in
  let ub := d_units false d in
  let cpath := map (fun x => let '(cb, ce, w) := x in mk_cnode t cb ce w) cp in
  (* model = implementation *)
  same_tokens (Some cpath) t m2o (Some ic) &&
  list_eqb (pair_eqb (list_eqb N.eqb) (list_eqb N.eqb)) (map (fun n => (ua (wid n), ub (wid n))) cpath) iu &&
  same_tokens (tokenize_mode hw t ua ub ModeA cpath) t m2o ia &&
  same_tokens (tokenize_mode hw t ua ub ModeB cpath) t m2o ib &&
  (N.of_nat (length sa) =? N.of_nat (length cpath)) && (N.of_nat (length sb) =? N.of_nat (length cpath)) &&
  forallb (fun p => same_split (split_into hw t ua (fst p) []) t m2o (snd p)) (combine cpath sa) &&
  forallb (fun p => same_split (split_into hw t ub (fst p) []) t m2o (snd p)) (combine cpath sb) &&
  (* property predicates on the implementation's own output *)
  match ia with Some la => refines_impl ua ic la | None => true end &&
  match ib with Some lb => refines_impl ub ic lb | None => true end &&
  forallb (fun q => let '(n, c, s) := q in
                    match s with
                    | Some (true, subs) => if units_wf_b d t n (ua (wid n)) then partition_impl ua c subs else true
                    | Some (false, subs) => match ua (wid n), subs with [], [] => true | _, _ => false end
                    | None => negb (units_wf_b d t n (ua (wid n)))
                    end) (combine (combine cpath ic) sa) &&
  forallb (fun q => let '(n, c, s) := q in
                    match s with
                    | Some (true, subs) => if units_wf_b d t n (ub (wid n)) then partition_impl ub c subs else true
                    | Some (false, subs) => match ub (wid n), subs with [], [] => true | _, _ => false end
                    | None => negb (units_wf_b d t n (ub (wid n)))
                    end) (combine (combine cpath ic) sb) &&
  (if no_single ua cpath then
     match ia, resplit_impl ic sa with
     | Some la, Some l => list_eqb otoken_eqb la l
     | None, None => true
     | _, _ => false
     end else true) &&
  (if no_single ub cpath then
     match ib, resplit_impl ic sb with
     | Some lb, Some l => list_eqb otoken_eqb lb l
     | None, None => true
     | _, _ => false
     end else true).
