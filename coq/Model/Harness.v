(* Helpers shared by the generated correspondence-case files. *)
From Coq Require Import List NArith.
Import ListNotations.
Open Scope N_scope.

Fixpoint failures (i : N) (l : list bool) : list N :=
  match l with
  | [] => []
  | b :: t => if b then failures (N.succ i) t else i :: failures (N.succ i) t
  end.

(* ids of the cases whose check evaluated to false *)
Fixpoint failing_ids (l : list (N * bool)) : list N :=
  match l with
  | [] => []
  | (i, b) :: t => if b then failing_ids t else i :: failing_ids t
  end.

Definition list_eqb {A} (eqb : A -> A -> bool) : list A -> list A -> bool :=
  fix go l1 l2 :=
    match l1, l2 with
    | [], [] => true
    | x :: t1, y :: t2 => andb (eqb x y) (go t1 t2)
    | _, _ => false
    end.

Definition opt_eqb {A} (eqb : A -> A -> bool) (a b : option A) : bool :=
  match a, b with
  | None, None => true
  | Some x, Some y => eqb x y
  | _, _ => false
  end.

Definition pair_eqb {A B} (ea : A -> A -> bool) (eb : B -> B -> bool) (a b : A * B) : bool :=
  andb (ea (fst a) (fst b)) (eb (snd a) (snd b)).
