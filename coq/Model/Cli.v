(* Model of the command-line tool's line handling and surface-only output (sudachi-cli/src/main.rs, output.rs).
   Bytes are N.  Executable definitions only. *)
From Coq Require Import List NArith Bool Arith String Ascii.
From SudachiVerif Require Import Model.Harness.
From SudachiVerif Require Generated.CliFacts.
Import ListNotations.
Open Scope N_scope.

Definition LF : N := 10.
Definition CR : N := 13.

Definition last_is (b : N) (l : list N) : bool :=
  match rev l with x :: _ => x =? b | [] => false end.

(* strip_eol with the two length guards `len > k1`, `len > k2` as found in the source *)
Definition strip_eol_gen (k1 k2 : nat) (l : list N) : list N :=
  if Nat.ltb k1 (List.length l) && last_is LF l then
    let l1 := removelast l in
    if Nat.ltb k2 (List.length l1) && last_is CR l1 then removelast l1 else l1
  else l.

Definition strip_eol : list N -> list N :=
  strip_eol_gen Generated.CliFacts.strip_lf_min_len Generated.CliFacts.strip_cr_min_len.

(* BufRead::read_line repeated until it returns 0: maximal chunks ending with LF, the last possibly unterminated *)
Fixpoint split_lines_aux (cur : list N) (l : list N) : list (list N) :=
  match l with
  | [] => match cur with [] => [] | _ => [rev cur] end
  | b :: t => if b =? LF then rev (b :: cur) :: split_lines_aux [] t else split_lines_aux (b :: cur) t
  end.
Definition split_lines (f : list N) : list (list N) := split_lines_aux [] f.

(* the texts the tool hands to the analyser, one per input line *)
Definition cli_texts (f : list N) : list (list N) := map strip_eol (split_lines f).

(* Wakachi::write: surfaces separated by the word separator, the sentence closed by "\n"; "\n" alone for no morphemes *)
Definition bytes_of_string (s : string) : list N :=
  map (fun a => N_of_ascii a) (list_ascii_of_string s).
Definition word_sep : list N := bytes_of_string Generated.CliFacts.wakati_word_sep.

Fixpoint wakati_loop (last_idx idx : nat) (ss : list (list N)) : list N :=
  match ss with
  | [] => []
  | s :: t => s ++ (if Nat.eqb idx last_idx then [LF] else word_sep) ++ wakati_loop last_idx (S idx) t
  end.
Definition wakati (ss : list (list N)) : list N :=
  match ss with
  | [] => [LF]
  | _ => wakati_loop (List.length ss - 1) 0 ss
  end.

(* specification side *)
Fixpoint intercalate (sep : list N) (ss : list (list N)) : list N :=
  match ss with
  | [] => []
  | [s] => s
  | s :: t => s ++ sep ++ intercalate sep t
  end.

Definition no_lf (t : list N) : bool := forallb (fun b => negb (b =? LF)) t.

(* one input line as the user sees it: text + terminator (0 = none, 1 = "\n", 2 = "\r\n") *)
Definition term_bytes (k : nat) : list N :=
  match k with 0%nat => [] | 1%nat => [LF] | _ => [CR; LF] end.
Definition line_ok (islast : bool) (ln : list N * nat) : bool :=
  let '(t, k) := ln in
  no_lf t &&
  match k with
  | 0%nat => islast && negb (match t with [] => true | _ => false end)
  | 1%nat => negb (last_is CR t)
  | _ => true
  end.
Fixpoint lines_ok (ls : list (list N * nat)) : bool :=
  match ls with
  | [] => true
  | [ln] => line_ok true ln
  | ln :: t => line_ok false ln && lines_ok t
  end.
Definition file_of (ls : list (list N * nat)) : list N :=
  List.concat (map (fun ln => fst ln ++ term_bytes (snd ln)) ls).

(* ---- correspondence entry points ---- *)
Definition bytes_eqb : list N -> list N -> bool := list_eqb N.eqb.
(* texts: what the tool demonstrably analysed for each line (recovered from its surface-only output) *)
Definition check_cli_lines (file : list N) (texts : list (list N)) : bool :=
  list_eqb bytes_eqb (cli_texts file) texts.
Definition check_wakati (surfaces : list (list N)) (printed : list N) : bool :=
  bytes_eqb (wakati surfaces) printed.
