(* C06 — (1) Header::write_to / Header::parse (dic/header.rs), the first thing DictBuilder::compile writes and whose returned
   size is the base of every offset after it; (2) arbitrary call histories on one DictBuilder: read_conn / read_lexicon /
   resolve / compile in any order and repetition, each call carried out whatever the earlier ones returned, with the partial
   effects a failing call leaves behind.  Debug-profile semantics.  Executable definitions only. *)
From Coq Require Import List ZArith NArith Bool String.
From SudachiVerif Require Import Model.GuardLang Model.Harness Model.Params Model.Build Generated.BuildGuards.
Import ListNotations.
Open Scope list_scope.
Open Scope Z_scope.

(* ------------------------------------------------------------------ header *)

Definition utf8_char (c : N) : list N :=
  (if c <? 128 then [c]
   else if c <? 2048 then [192 + c / 64; 128 + c mod 64]
   else if c <? 65536 then [224 + c / 4096; 128 + (c / 64) mod 64; 128 + c mod 64]
   else [240 + c / 262144; 128 + (c / 4096) mod 64; 128 + (c / 64) mod 64; 128 + c mod 64])%N.
Definition utf8 (s : list N) : list N := flat_map utf8_char s.

(* k bytes, little endian *)
Fixpoint le_bytes (k : nat) (n : N) : list N :=
  match k with O => [] | S k' => (n mod 256)%N :: le_bytes k' (n / 256)%N end.
Fixpoint le_val (bs : list N) : N := match bs with [] => 0%N | b :: t => (b + 256 * le_val t)%N end.

Record hfacts := mkHFacts {
  h_in_bytes : bool;       (* the guard measures the description in bytes (else: in characters) *)
  h_guard : guard;         (* error iff  measure CMP DESCRIPTION_SIZE *)
  h_size : Z;              (* DESCRIPTION_SIZE *)
  h_storage : Z;           (* STORAGE_SIZE, the value write_to returns *)
  h_pad_exact : bool       (* padding = DESCRIPTION_SIZE - len by plain subtraction (else clamped at 0) *)
}.

(* Header::write_to: the bytes written; its return value is h_storage whenever it is Ok *)
Definition header_write (H : hfacts) (version time : N) (descr : list N) : res (list N) :=
  let b := utf8 descr in
  let lb := Z.of_nat (List.length b) in
  let measure := if h_in_bytes H then lb else Z.of_nat (List.length descr) in
  if fires (h_guard H) 0 0 measure then Err
  else if h_pad_exact H then
         (if h_size H <? lb then Panic      (* `DESCRIPTION_SIZE - len` underflows *)
          else Ok (le_bytes 8 version ++ le_bytes 8 time ++ b ++ repeat 0%N (Z.to_nat (h_size H - lb))))
       else Ok (le_bytes 8 version ++ le_bytes 8 time ++ b ++ repeat 0%N (Z.to_nat (h_size H - Z.min lb (h_size H)))).

Fixpoint upto_nul (bs : list N) : list N :=
  match bs with [] => [] | b :: t => if (b =? 0)%N then [] else b :: upto_nul t end.

(* Header::parse on the first bytes of a dictionary: (version, create_time, description bytes up to the first NUL) *)
Definition header_parse (H : hfacts) (bs : list N) : option (N * N * list N) :=
  let n := Z.to_nat (h_size H) in
  if Nat.ltb (List.length bs) (16 + n) then None
  else Some (le_val (firstn 8 bs), le_val (firstn 8 (skipn 8 bs)), upto_nul (firstn n (skipn 16 bs))).

Definition hfacts_ok (H : hfacts) : bool :=
  h_in_bytes H && h_pad_exact H && (0 <=? h_size H) && (h_storage H =? 16 + h_size H)
  && match h_guard H with mkG CastNone CGt (OConst c) => c =? h_size H | _ => false end.

Definition gen_hfacts : hfacts :=
  mkHFacts BuildGuards.header_guard_in_bytes BuildGuards.header_guard BuildGuards.HEADER_DESCRIPTION_SIZE
           BuildGuards.HEADER_STORAGE_SIZE BuildGuards.header_padding_exact.

Definition header_version (user : bool) : N := if user then BuildGuards.USER_DICT_VERSION_3 else BuildGuards.SYSTEM_DICT_VERSION_2.
Definition header := header_write gen_hfacts.

(* the whole compile with the header in front: validation first, then Header::write_to *)
Definition build_h (inp : input) (user : bool) (time : N) (descr : list N) : res (dict * list N) :=
  match build inp with
  | Ok d => match header (header_version user) time descr with
            | Ok hb => Ok (d, hb)
            | Err => Err
            | Panic => Panic
            end
  | Err => Err
  | Panic => Panic
  end.

(* correspondence: check_build of Model/Build.v, with the header settings of the builder and the first bytes of the output *)
Definition check_build_h (inp : input) (user : bool) (time : N) (descr : list N) (impl_header : list N)
           (impl_status second_status : status) (second_same : bool)
           (impl_dims : Z * Z) (impl_cells : list (Z * Z * Z)) (loads_and_analyses : bool) : bool :=
  match header (header_version user) time descr with
  | Ok hb =>
      check_build inp impl_status second_status second_same impl_dims impl_cells loads_and_analyses
      && (if status_eqb impl_status SOk
          then list_eqb N.eqb hb impl_header
               (* property predicate on the implementation's bytes: fixed layout, description recoverable *)
               && (Z.of_nat (List.length impl_header) =? h_storage gen_hfacts)
               && match header_parse gen_hfacts impl_header with
                  | Some (v, t, d) => (v =? header_version user)%N && (t =? time)%N
                                      && (if existsb (N.eqb 0) (utf8 descr) then true else list_eqb N.eqb d (utf8 descr))
                  | None => false
                  end
          else true)
  | Err =>
      (* the description does not fit: compile fails after validation; a builder that fails validation fails anyway *)
      match build inp with
      | Ok _ => status_eqb impl_status SErr && status_eqb second_status SErr && second_same
      | _ => check_build inp impl_status second_status second_same impl_dims impl_cells loads_and_analyses
      end
  | Panic => false
  end.

(* ------------------------------------------------------------------ call histories *)

(* how a call that accepts AsDataSource was given its data: bytes in memory, or the path of a file with these bytes *)
Inductive source := SBytes | SFile.

Inductive op :=
| OConn (s : source) (ls : list cline)       (* read_conn *)
| OLex (s : source) (rs : list rec)          (* read_lexicon *)
| OResolve                      (* resolve (no inline split units in the modelled stream: nothing to do) *)
| OCompile.                     (* compile into a sink that accepts everything *)

(* what one builder carries from call to call *)
Record hstate := mkH {
  hs_user : bool; hs_nsys : Z; hs_sys_nl : Z; hs_sys_nr : Z;     (* user dictionary: the system dictionary it extends *)
  hs_nl : Z; hs_nr : Z; hs_stores : list (Z * Z);                 (* ConnBuffer: dimensions, matrix as stores (flat index, cost) *)
  hs_liml : Z; hs_limr : Z;                                       (* LexiconReader::max_left / max_right *)
  hs_entries : list entry;
  hs_conn_seen : bool                                             (* ghost: some read_conn got past its header line *)
}.

Definition I16_MAX : Z := 32767.
Definition init_system : hstate := mkH false 0 0 0 0 0 [] I16_MAX I16_MAX [] false.
Definition init_user (sys_nl sys_nr nsys : Z) : hstate := mkH true nsys sys_nl sys_nr 0 0 [] sys_nl sys_nr [] false.

Section WithFacts.
Variable F : bfacts.
(* DictBuilder::read_conn passes the buffer's dimensions to the lexicon also when reading failed (else: only on success),
   and does so only for system dictionaries (else: for user dictionaries too) *)
Variable limits_follow_on_error : bool.
Variable user_limits_fixed : bool.
(* the arm of read_conn for a file path / for bytes returns (or propagates the error) on its own when reading failed, i.e.
   before the dimensions are handed to the lexicon (else: both arms only produce the value the common continuation uses).
   Both routes end in the same parser (fact read_routes_reach_same_parser), so the source plays no other role *)
Variable conn_file_returns_early : bool.
Variable conn_bytes_returns_early : bool.
Definition returns_early (s : source) : bool := match s with SFile => conn_file_returns_early | SBytes => conn_bytes_returns_early end.

(* the cost lines of read_conn, with what a failing line leaves behind *)
Fixpoint read_lines_st (c : conn) (ls : list cline) : conn * res unit :=
  match ls with
  | [] => (c, Ok tt)
  | [] :: t => read_lines_st c t
  | ln :: t =>
      match parse_line F c ln with
      | Ok c' => read_lines_st c' t
      | Err => (c, Err)
      | Panic => (c, Panic)
      end
  end.

(* ConnBuffer::read on a buffer that may hold an earlier matrix: the header replaces the dimensions and resizes the matrix
   (stores beyond the new size are cut off, the others stay where they are in the flat array).
   Result: the buffer afterwards, whether the header line was passed, the status *)
Definition conn_read_st (old : conn) (ls : list cline) : conn * bool * res unit :=
  match skip_blank ls with
  | [] => (old, false, if b_empty_panics F then Panic else Err)
  | hdr :: rest =>
      match splitn (b_hdr_fields F) hdr with
      | [a; b] =>
          match parse_i16 a, parse_i16 b with
          | Some l, Some r =>
              if accepted (b_hdr_left_g F) 0 0 l && accepted (b_hdr_right_g F) 0 0 r then
                if (l <? 0) || (r <? 0) then (old, false, Panic)
                else let c0 := mkConn l r (filter (fun s => fst s <? l * r) (c_stores old)) in
                     let '(c, st) := read_lines_st c0 rest in (c, true, st)
              else (old, false, Err)
          | _, _ => (old, false, Err)
          end
      | _ => (old, false, Err)
      end
  end.

(* read_lexicon: rows are pushed one by one; the first malformed row ends the call, the rows before it stay *)
Fixpoint parse_records_st (rs : list rec) : list entry * bool :=
  match rs with
  | [] => ([], true)
  | r :: t => match parse_record F r with
              | Some e => let '(es, ok) := parse_records_st t in (e :: es, ok)
              | None => ([], false)
              end
  end.

Definition compile_dict (st : hstate) : res dict :=
  let es := hs_entries st in
  let n := Z.of_nat (List.length es) in
  let max0 := if hs_user st then hs_nsys st else n in
  let max1 := if hs_user st then n else 0 in
  if forallb (entry_ok F (hs_liml st) (hs_limr st) max0 max1) es then
    if index_err F es then Err else
    if existsb (indexed F) es then
      if existsb (fun e => indexed F e && e_surface_nul e) es then Panic
      else Ok (mkDict (if hs_user st then hs_sys_nl st else hs_nl st) (if hs_user st then hs_sys_nr st else hs_nr st)
                      (if hs_user st then [] else hs_stores st) (hs_user st) (hs_nsys st) es)
    else if b_empty_trie_err F then Err else Panic
  else Err.

(* one call: the builder afterwards and what the call returned (a dictionary for a successful compile) *)
Definition step (st : hstate) (o : op) : hstate * res (option dict) :=
  match o with
  | OConn s ls =>
      let '(c, seen, r) := conn_read_st (mkConn (hs_nl st) (hs_nr st) (hs_stores st)) ls in
      let follow := (match r with Ok _ => true | _ => limits_follow_on_error && negb (returns_early s) end) && negb (hs_user st && user_limits_fixed) in
      (mkH (hs_user st) (hs_nsys st) (hs_sys_nl st) (hs_sys_nr st) (c_nl c) (c_nr c) (c_stores c)
           (if follow then c_nl c else hs_liml st) (if follow then c_nr c else hs_limr st)
           (hs_entries st) (hs_conn_seen st || seen),
       match r with Ok _ => Ok None | Err => Err | Panic => Panic end)
  | OLex _ rs =>
      let '(es, ok) := parse_records_st rs in
      (mkH (hs_user st) (hs_nsys st) (hs_sys_nl st) (hs_sys_nr st) (hs_nl st) (hs_nr st) (hs_stores st)
           (hs_liml st) (hs_limr st) (hs_entries st ++ es) (hs_conn_seen st),
       if ok then Ok None else Err)
  | OResolve => (st, Ok None)
  | OCompile => (st, match compile_dict st with Ok d => Ok (Some d) | Err => Err | Panic => Panic end)
  end.

Fixpoint run_history (st : hstate) (ops : list op) : list (res (option dict)) :=
  match ops with
  | [] => []
  | o :: t => let sr := step st o in snd sr :: run_history (fst sr) t
  end.

Fixpoint final_state (st : hstate) (ops : list op) : hstate :=
  match ops with [] => st | o :: t => final_state (fst (step st o)) t end.

End WithFacts.

(* a matrix has been taken in (or the dictionary is a user dictionary, whose matrix is that of its system dictionary):
   the documented precondition of validity -- a system dictionary compiled without any matrix has a 0x0 matrix *)
Definition matrix_known (st : hstate) : bool := hs_user st || hs_conn_seen st.

Definition history := run_history gen_bfacts BuildGuards.conn_limits_follow_on_error BuildGuards.conn_limits_fixed_for_user
                                  BuildGuards.conn_file_route_returns_early BuildGuards.conn_bytes_route_returns_early.

(* the same calls with every source replaced by bytes in memory *)
Definition as_bytes (o : op) : op := match o with OConn _ ls => OConn SBytes ls | OLex _ rs => OLex SBytes rs | x => x end.

(* ------------------------------------------------------------------ correspondence entry for histories *)

(* per call: the status the implementation returned; for a successful compile also the dimensions / cells read back from the
   loaded dictionary, whether loading + analysis + the independent audit raised no failure *)
Definition call_obs := (status * (Z * Z) * list (Z * Z * Z) * bool)%type.

Definition check_call (hdr_fits matrix_was_known : bool) (r : res (option dict)) (o : call_obs) : bool :=
  let '(st, dims, cells, fine) := o in
  match r with
  | Ok None => status_eqb st SOk
  | Ok (Some d) =>
      if negb hdr_fits then status_eqb st SErr      (* validation passed, Header::write_to rejects the description *)
      else
      status_eqb st SOk
      && (if d_user d then true else (fst dims =? d_nl d) && (snd dims =? d_nr d)
                                     && forallb (fun c => let '(l, r, v) := c in v =? cell_of_stores (d_nl d) (d_stores d) l r) cells)
      (* property predicate: once a matrix is known, success means a valid dictionary that loads and analyses *)
      && (if matrix_was_known then dict_valid d && stores_in_range d && index_lists_ok d && fine else true)
  | Err => status_eqb st SErr
  | Panic => false
  end.

Fixpoint check_calls (hdr_fits : bool) (st : hstate) (ops : list op) (obs : list call_obs) : bool :=
  match ops, obs with
  | [], [] => true
  | o :: t, ob :: tb =>
      let sr := step gen_bfacts BuildGuards.conn_limits_follow_on_error BuildGuards.conn_limits_fixed_for_user
                     BuildGuards.conn_file_route_returns_early BuildGuards.conn_bytes_route_returns_early st o in
      check_call hdr_fits (matrix_known st) (snd sr) ob && check_calls hdr_fits (fst sr) t tb
  | _, _ => false
  end.

(* descr: the description set on the builder ([] if none) *)
Definition check_history (user : bool) (sys_nl sys_nr nsys : Z) (descr : list N) (ops : list op) (obs : list call_obs) : bool :=
  check_calls (match header (header_version user) 0%N descr with Ok _ => true | _ => false end)
              (if user then init_user sys_nl sys_nr nsys else init_system) ops obs.
