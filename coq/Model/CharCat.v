(* Model of sudachi/src/dic/character_category.rs : compile + get_category_types.
   Executable definitions only (no proofs) so that the model still runs when a proof breaks. *)
From Coq Require Import List NArith Bool.
From SudachiVerif Require Generated.CategoryFacts.
Import ListNotations.
Open Scope N_scope.

(* CategoryType is a u32 bit set; the bit of DEFAULT is re-read from dic/category_type.rs on every run. *)
Definition DEFAULT : N := Generated.CategoryFacts.DEFAULT.

(* CatRange { begin, end (exclusive), categories } *)
Record crange := mkR { rb : N; re : N; rc : N }.

(* BTreeSet<u32>::insert, observed through into_iter(): strictly sorted, duplicate free *)
Fixpoint ins (x : N) (l : list N) : list N :=
  match l with
  | [] => [x]
  | y :: t => if x <? y then x :: l else if x =? y then l else y :: ins x t
  end.

Definition collect_boundaries (rs : list crange) : list N :=
  fold_left (fun acc r => ins (re r) (ins (rb r) acc)) rs [].

(* for i in start_idx..len { if boundaries[i] > range.end { break; } categories[i] |= range.categories } *)
Fixpoint apply_loop (r : crange) (bs cs : list N) : list N :=
  match bs, cs with
  | b :: bs', c :: cs' =>
      if re r <? b then cs else N.lor c (rc r) :: apply_loop r bs' cs'
  | _, _ => cs
  end.

(* binary_search(&range.begin): Ok(i) => i + 1, Err(_) => panic!  -- None models the panic *)
Fixpoint apply_range (r : crange) (bs cs : list N) : option (list N) :=
  match bs, cs with
  | b :: bs', c :: cs' =>
      if b =? rb r then Some (c :: apply_loop r bs' cs')
      else option_map (cons c) (apply_range r bs' cs')
  | _, _ => None
  end.

Fixpoint apply_all (rs : list crange) (bs cs : list N) : option (list N) :=
  match rs with
  | [] => Some cs
  | r :: rs' => match apply_range r bs cs with
                | Some cs' => apply_all rs' bs cs'
                | None => None
                end
  end.

(* the merge loop over (boundaries[i], categories[i]) for i >= 1 with (last_boundary, last_category) *)
Fixpoint merge (lb lc : N) (ps : list (N * N)) : list (N * N) :=
  match ps with
  | [] => [(lb, lc)]
  | (b, c) :: ps' => if c =? lc then merge b lc ps' else (lb, lc) :: merge b c ps'
  end.

Definition fix_empty (c : N) : N := if c =? 0 then DEFAULT else c.

Record charcat := mkCC { boundaries : list N; categories : list N }.

Definition default_cc : charcat := mkCC [] [DEFAULT].

Definition compile (rs : list crange) : option charcat :=
  match rs with
  | [] => Some default_cc
  | _ =>
    let bs := collect_boundaries rs in
    match apply_all rs bs (map (fun _ => 0) bs) with
    | None => None
    | Some cats =>
      match bs, cats with
      | b0 :: bs', _ :: cats' =>
          let ps := merge b0 DEFAULT (combine bs' cats') in
          Some (mkCC (map fst ps) (map (fun p => fix_empty (snd p)) ps ++ [DEFAULT]))
      | _, _ => None
      end
    end
  end.

(* slice::binary_search on a strictly sorted slice: Ok(idx) => categories[idx+1], Err(idx) => categories[idx];
   both are "categories[number of boundaries <= c]". *)
Fixpoint lookup_aux (bs cs : list N) (c : N) : N :=
  match bs, cs with
  | b :: bs', x :: cs' => if c <? b then x else lookup_aux bs' cs' c
  | [], x :: _ => x
  | _, [] => DEFAULT
  end.

Definition lookup (cc : charcat) (c : N) : N :=
  match boundaries cc with
  | [] => DEFAULT
  | _ => lookup_aux (boundaries cc) (categories cc) c
  end.

(* ---- specification: union of all covering definitions, DEFAULT when the union is empty ---- *)
Definition covers (r : crange) (c : N) : bool := (rb r <=? c) && (c <? re r).

Definition union_at (rs : list crange) (c : N) : N :=
  fold_left (fun a r => if covers r c then N.lor a (rc r) else a) rs 0.

Definition spec (rs : list crange) (c : N) : N := fix_empty (union_at rs c).

(* CharCategoryIter: the ranges the iterator yields, as (left, right, category); right of the last is char::MAX *)
Definition CHAR_MAX : N := 1114111.
Fixpoint iter_aux (left : N) (bs cs : list N) : list (N * N * N) :=
  match bs, cs with
  | b :: bs', x :: cs' => (left, b, x) :: iter_aux b bs' cs'
  | [], x :: _ => [(left, CHAR_MAX, x)]
  | _, [] => []
  end.
(* on the default table (no boundaries) CharCategoryIter::next takes `boundaries.last().unwrap()` of an empty vector:
   None models that panic *)
Definition iter (cc : charcat) : option (list (N * N * N)) :=
  match boundaries cc with
  | [] => None
  | _ => Some (iter_aux 0 (boundaries cc) (categories cc))
  end.

(* ---- correspondence-check entry: one case = definition ranges + (code point, implementation answer) list ---- *)
Definition well_formed (rs : list crange) : bool := forallb (fun r => rb r <? re r) rs.

Definition check_case (rs : list crange) (qs : list (N * N)) : bool :=
  match compile rs with
  | None => false
  | Some cc => forallb (fun q => (lookup cc (fst q) =? snd q) && (snd q =? spec rs (fst q))) qs
  end.

(* the same plus what CharacterCategory::iter() yielded: None = it panicked *)
Definition triple_eqb (a b : N * N * N) : bool :=
  (fst (fst a) =? fst (fst b)) && (snd (fst a) =? snd (fst b)) && (snd a =? snd b).
Fixpoint triples_eqb (a b : list (N * N * N)) : bool :=
  match a, b with
  | [], [] => true
  | x :: a', y :: b' => triple_eqb x y && triples_eqb a' b'
  | _, _ => false
  end.
Definition check_case_iter (rs : list crange) (qs : list (N * N)) (it : option (list (N * N * N))) : bool :=
  check_case rs qs &&
  match compile rs with
  | None => false
  | Some cc => match iter cc, it with
               | None, None => true
               | Some a, Some b => triples_eqb a b
               | _, _ => false
               end
  end.
