(* C13: the OOV branch of resolve_best_path and what a Morpheme reports for it, over the real buffer state of
   Model/Buffer.v (original bytes, normalised bytes, offset map m2o) -- for every length-changing normalisation.
     word info of an OOV node   surface = curr_slice_c(char range)   (slice of the NORMALISED text), pos_id = word part of the id
     Morpheme::surface          orig_slice(byte range)              (slice of the ORIGINAL text through the offset map)
     normalized / dictionary / reading form   fall back to the word info's surface
   Executable definitions only.  Texts are byte lists here (Model/Oov.v's oov_morpheme works on code points and identifies
   the character indices of both texts; this file removes that identification). *)
From Coq Require Import List NArith ZArith Bool String.
From SudachiVerif Require Model.Buffer Model.Oov.
From SudachiVerif Require Import Model.Harness.
Import ListNotations.
Open Scope N_scope.

Module B := SudachiVerif.Model.Buffer.
Module O := SudachiVerif.Model.Oov.

(* resolve_best_path, OOV branch (None = a slice panics) *)
Definition oov_info_buf (s : B.buf) (w : N) (n : B.rnode) : option O.word_info :=
  let src := fun f => O.assoc f O.OF.oov_info_fields in
  let surf := if String.eqb (src "surface"%string) "curr_slice_c" then B.curr_slice_c (B.cur s) (B.rn_bc n) (B.rn_ec n)
              else if String.eqb (src "surface"%string) "orig_slice_c" then B.orig_slice_c s (B.rn_bc n) (B.rn_ec n)
              else Some [] in
  match surf with
  | Some sf => Some (O.mkWI sf (if String.eqb (src "pos_id"%string) "word_id.word:u16" then N.modulo (O.wid_word w) 65536 else 0)
                            [] [] [])
  | None => None
  end.

(* what the Morpheme of an OOV node with word id w reports *)
Definition oov_morpheme_buf (s : B.buf) (w : N) (n : B.rnode) : option O.morph_view :=
  match oov_info_buf s w n, B.morpheme_surface s n with
  | Some wi, Some sf =>
      Some (O.mkMV (O.wid_is_oov w) (O.dictionary_id w) (O.wi_pos wi) sf
                   (O.normalized_form wi) (O.dictionary_form wi) (O.reading_form wi))
  | _, _ => None
  end.

(* ---- correspondence entry: buffer state of an analysis (original bytes, normalised bytes, offset map) and the nodes of its
   result: (raw word id, character range and byte range in the NORMALISED text, reported view with byte strings) ---- *)
Definition check_morph_buf (s : B.buf) (m : N * (nat * nat * nat * nat) * O.morph_view) : bool :=
  match m with
  | (w, (bc, ec, bb, be), v) =>
    let n := B.mkRN bc ec bb be in
    if O.wid_is_oov w then
      (* the model agrees with the implementation *)
      match oov_morpheme_buf s w n with Some mv => O.morph_view_eqb mv v | None => false end
      (* and the property, with the constants of its statement: is_oov, dictionary -1, the three forms are the NORMALISED
         bytes of the node's range, the surface is the ORIGINAL bytes between the images of its ends under the offset map *)
      && O.mv_is_oov v && Z.eqb (O.mv_dic v) (-1)
      && O.cps_eqb (O.mv_normalized v) (B.byte_slice (B.cur s) (bb, be))
      && O.cps_eqb (O.mv_dictionary v) (B.byte_slice (B.cur s) (bb, be))
      && O.cps_eqb (O.mv_reading v) (B.byte_slice (B.cur s) (bb, be))
      && O.cps_eqb (O.mv_surface v) (B.byte_slice (B.orig s) (B.map_range (B.m2o s) (bb, be)))
      && (O.mv_pos v =? N.land w 268435455)
    else negb (O.mv_is_oov v) && Z.eqb (O.mv_dic v) (O.dictionary_id w) && Z.leb 0 (O.mv_dic v)
  end.

Definition check_morphs_buf (orig cur : list N) (m2o : list N) (ms : list (N * (nat * nat * nat * nat) * O.morph_view)) : bool :=
  let s := B.mkBuf orig cur (map N.to_nat m2o) in
  forallb (check_morph_buf s) ms.
