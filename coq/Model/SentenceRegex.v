(* A small regex AST (what the patterns of sudachi/src/sentence_detector.rs use) and a generic matcher with the
   semantics the engines have: leftmost start, alternatives in order, greedy repetition with backtracking, atomic
   (possessive) groups, one-character negative look-behind / look-ahead, \A ^ \z $ without the multi-line flag.
   Executable definitions only.  gen/factmods/SentenceRegexFacts.py parses every Regex::new literal of the detector
   into this AST on each run (Generated/SentenceRegexFacts.v); Proofs/SentenceRegexProofs.v shows that the hand
   matchers of Model/Sentence.v equal this matcher on the regenerated ASTs, for all texts. *)
From Coq Require Import List NArith Bool Arith.
Import ListNotations.

(* ---------- character classes ---------- *)
(* a class is (single code points, proper ranges) *)
Definition cls := (list N * list (N * N))%type.
Definition in_list (l : list N) (c : N) : bool := existsb (N.eqb c) l.
Definition in_range (c : N) (r : N * N) : bool := if (fst r <=? c)%N then (c <=? snd r)%N else false.
Definition in_ranges (k : cls) (c : N) : bool :=
  if in_list (fst k) c then true else existsb (in_range c) (snd k).
(* [{}{}]: two building blocks inside one pair of brackets *)
Definition cls_union (a b : cls) : cls := (fst a ++ fst b, snd a ++ snd b).

(* \s of the regex crate = Unicode White_Space *)
Definition WS : cls :=
  ([ 32; 133; 160; 5760; 8239; 8287; 12288 ]%N, [ (9, 13); (8192, 8202); (8232, 8233) ]%N).
Definition is_ws : N -> bool := in_ranges WS.
(* . without the s flag: everything but line feed *)
Definition not_lf (c : N) : bool := negb (c =? 10)%N.

(* ---------- patterns ---------- *)
Inductive re :=
| RLit (w : list N)           (* literal characters in sequence *)
| RCls (k : cls)              (* [...] *)
| RAny                        (* . *)
| RWs                         (* \s *)
| RCat (a b : re)
| RAlt (a b : re)             (* a|b, a first *)
| RRep (r : re) (lo : nat)    (* r{lo,}  greedy:  * = {0,}   + = {1,} *)
| RAtomic (r : re)            (* possessive quantifier / atomic group: no backtracking into r *)
| RNotBehind (k : cls)        (* (?<![k]) *)
| RNotAhead (k : cls)         (* (?![k]) *)
| RBot                        (* \A, ^ *)
| REot                        (* \z, $ *)
| RGrp (n : nat) (r : re).    (* capture group number n *)

(* ---------- matcher state: the character before the position, the position, the rest of the haystack ---------- *)
Record st := mkSt { prev : option N; pos : nat; rest : list N }.

Definition step (s : st) (c : N) (tl : list N) : st := mkSt (Some c) (S (pos s)) tl.

(* one character satisfying p *)
Definition one {A} (p : N -> bool) (s : st) (k : st -> option A) : option A :=
  match rest s with
  | c :: tl => if p c then k (step s c tl) else None
  | [] => None
  end.

Fixpoint lit (w : list N) (s : st) : option st :=
  match w with
  | [] => Some s
  | a :: w' =>
      match rest s with
      | c :: tl => if (a =? c)%N then lit w' (step s c tl) else None
      | [] => None
      end
  end.

(* backtracking matcher in continuation-passing style: k is "the rest of the pattern"; None = this way fails *)
Fixpoint mt (r : re) (A : Type) (s : st) (k : st -> option A) {struct r} : option A :=
  match r with
  | RLit w => match lit w s with Some s' => k s' | None => None end
  | RCls c => one (in_ranges c) s k
  | RAny => one not_lf s k
  | RWs => one is_ws s k
  | RCat a b => mt a A s (fun s' => mt b A s' k)
  | RAlt a b => match mt a A s k with Some x => Some x | None => mt b A s k end
  | RRep r' lo =>
      (* one more iteration first (it must consume something), then the rest of the pattern; n bounds the number of
         iterations by the length of the haystack *)
      (fix loop (n cnt : nat) (s : st) {struct n} : option A :=
         match n with
         | 0 => if lo <=? cnt then k s else None
         | S n' =>
             match mt r' A s (fun s' => if pos s <? pos s' then loop n' (S cnt) s' else None) with
             | Some x => Some x
             | None => if lo <=? cnt then k s else None
             end
         end) (length (rest s)) 0 s
  | RAtomic r' => match mt r' st s (fun s' => Some s') with Some s' => k s' | None => None end
  | RNotBehind c => match prev s with
                    | Some p => if in_ranges c p then None else k s
                    | None => k s
                    end
  | RNotAhead c => match rest s with
                   | d :: _ => if in_ranges c d then None else k s
                   | [] => k s
                   end
  | RBot => match prev s with None => k s | Some _ => None end
  | REot => match rest s with [] => k s | _ :: _ => None end
  | RGrp _ r' => mt r' A s k
  end.

(* length of the match that starts at the head of t, the character before it being pv *)
Definition re_match_at (r : re) (pv : option N) (t : list N) : option nat :=
  match mt r st (mkSt pv 0 t) (fun s' => Some s') with
  | Some s' => Some (pos s')
  | None => None
  end.

(* Regex::find: leftmost start, (start, end) relative to index i of the head of t *)
Fixpoint re_search (r : re) (pv : option N) (i : nat) (t : list N) : option (nat * nat) :=
  match re_match_at r pv t with
  | Some m => Some (i, i + m)
  | None =>
      match t with
      | c :: tl => re_search r (Some c) (S i) tl
      | [] => None
      end
  end.

Definition re_find (r : re) (t : list N) : option (nat * nat) := re_search r None 0 t.
Definition re_is_match (r : re) (t : list N) : bool := match re_find r t with Some _ => true | None => false end.
Definition re_find_end (r : re) (t : list N) : option nat := option_map snd (re_find r t).

(* Regex::find_iter for patterns without empty matches: ends of the successive matches; the search resumes at the end
   of the previous match and look-behind sees the characters before it.  skip = characters of the current match left *)
Fixpoint re_find_iter_ends (r : re) (skip : nat) (pv : option N) (i : nat) (t : list N) : list nat :=
  match t with
  | [] => []
  | c :: tl =>
      match skip with
      | S k => re_find_iter_ends r k (Some c) (S i) tl
      | 0 =>
          match re_match_at r pv t with
          | Some (S m) => (i + S m) :: re_find_iter_ends r m (Some c) (S i) tl
          | _ => re_find_iter_ends r 0 (Some c) (S i) tl
          end
      end
  end.

(* captures_iter over (a)|(b) as parenthesis_level uses it: +1 when group 1 (the first alternative) took part,
   otherwise -1 unless the level is 0 *)
Fixpoint re_alt_level (a b : re) (lv : nat) (skip : nat) (pv : option N) (t : list N) : nat :=
  match t with
  | [] => lv
  | c :: tl =>
      match skip with
      | S k => re_alt_level a b lv k (Some c) tl
      | 0 =>
          match re_match_at (RAlt a b) pv t with
          | Some (S m) =>
              re_alt_level a b (match re_match_at a pv t with Some _ => S lv | None => pred lv end) m (Some c) tl
          | _ => re_alt_level a b lv 0 (Some c) tl
          end
      end
  end.

Definition re_paren_level (r : re) (t : list N) : option nat :=
  match r with
  | RAlt a b => Some (re_alt_level a b 0 0 None t)
  | _ => None
  end.

(* x1|x2|...|xn of literals, nested to the right as the fact generator emits alternations *)
Fixpoint alt_of_lits (w : list N) (ws : list (list N)) : re :=
  match ws with
  | [] => RLit w
  | w' :: tl => RAlt (RLit w) (alt_of_lits w' tl)
  end.
