(* Model of the state kept between analyses (C10):
     sudachi/src/analysis/stateful_tokenizer.rs   StatefulTokenizer {set_mode, set_subset, reset, do_tokenize, resolve_best_path, swap_result}
     sudachi/src/input_text/buffer/mod.rs         InputBuffer {reset, start_build, with_editor/commit/rollback, refresh_chars, build, fill_*}
     sudachi/src/analysis/lattice.rs              Lattice {reset, reset_vec, connect_bos}
     sudachi/src/analysis/mlist.rs                MorphemeList {collect_results, split_into, lookup}
   The records have exactly the fields of the Rust structs (inventories compared with Generated/ResetFacts.v in
   Properties/C10.v).  Vec/String operations keep the code's semantics: push/extend append to whatever the field holds,
   resize keeps the old prefix, clear happens only where the code clears (driven by the regenerated clear lists).
   Everything that is a pure function of the data it reads (plugins, category lookup, lattice search, word info, splitting)
   is a field of `env`, so the theorems hold for every dictionary and plugin set.  Executable definitions only. *)
From Coq Require Import List NArith Bool String.
From SudachiVerif Require Import Model.Harness.
From SudachiVerif Require Model.Split Generated.ResetFacts.
Import ListNotations.
Open Scope string_scope.
Open Scope list_scope.
Open Scope N_scope.

Definition text := list N.
Inductive bstate := Clean | RW | RO.
Definition edit := (N * N * list N)%type.
Inductive tmode := MA | MB | MC.
Definition rnode := Model.Split.node.

(* ---------- InputBuffer ---------- *)
Record ibuf := mkIB { original : text; modified : text; modified_2 : text; m2o : list N; m2o_2 : list N; mod_chars : text; mod_c2b : list N; mod_b2c : list N; mod_bow : list bool; mod_cat : list N; mod_cat_continuity : list N; replaces : list edit; state : bstate }.

Definition set_original (v : text) (b : ibuf) : ibuf := mkIB v (modified b) (modified_2 b) (m2o b) (m2o_2 b) (mod_chars b) (mod_c2b b) (mod_b2c b) (mod_bow b) (mod_cat b) (mod_cat_continuity b) (replaces b) (state b).
Definition set_modified (v : text) (b : ibuf) : ibuf := mkIB (original b) v (modified_2 b) (m2o b) (m2o_2 b) (mod_chars b) (mod_c2b b) (mod_b2c b) (mod_bow b) (mod_cat b) (mod_cat_continuity b) (replaces b) (state b).
Definition set_modified_2 (v : text) (b : ibuf) : ibuf := mkIB (original b) (modified b) v (m2o b) (m2o_2 b) (mod_chars b) (mod_c2b b) (mod_b2c b) (mod_bow b) (mod_cat b) (mod_cat_continuity b) (replaces b) (state b).
Definition set_m2o (v : list N) (b : ibuf) : ibuf := mkIB (original b) (modified b) (modified_2 b) v (m2o_2 b) (mod_chars b) (mod_c2b b) (mod_b2c b) (mod_bow b) (mod_cat b) (mod_cat_continuity b) (replaces b) (state b).
Definition set_m2o_2 (v : list N) (b : ibuf) : ibuf := mkIB (original b) (modified b) (modified_2 b) (m2o b) v (mod_chars b) (mod_c2b b) (mod_b2c b) (mod_bow b) (mod_cat b) (mod_cat_continuity b) (replaces b) (state b).
Definition set_mod_chars (v : text) (b : ibuf) : ibuf := mkIB (original b) (modified b) (modified_2 b) (m2o b) (m2o_2 b) v (mod_c2b b) (mod_b2c b) (mod_bow b) (mod_cat b) (mod_cat_continuity b) (replaces b) (state b).
Definition set_mod_c2b (v : list N) (b : ibuf) : ibuf := mkIB (original b) (modified b) (modified_2 b) (m2o b) (m2o_2 b) (mod_chars b) v (mod_b2c b) (mod_bow b) (mod_cat b) (mod_cat_continuity b) (replaces b) (state b).
Definition set_mod_b2c (v : list N) (b : ibuf) : ibuf := mkIB (original b) (modified b) (modified_2 b) (m2o b) (m2o_2 b) (mod_chars b) (mod_c2b b) v (mod_bow b) (mod_cat b) (mod_cat_continuity b) (replaces b) (state b).
Definition set_mod_bow (v : list bool) (b : ibuf) : ibuf := mkIB (original b) (modified b) (modified_2 b) (m2o b) (m2o_2 b) (mod_chars b) (mod_c2b b) (mod_b2c b) v (mod_cat b) (mod_cat_continuity b) (replaces b) (state b).
Definition set_mod_cat (v : list N) (b : ibuf) : ibuf := mkIB (original b) (modified b) (modified_2 b) (m2o b) (m2o_2 b) (mod_chars b) (mod_c2b b) (mod_b2c b) (mod_bow b) v (mod_cat_continuity b) (replaces b) (state b).
Definition set_mod_cat_continuity (v : list N) (b : ibuf) : ibuf := mkIB (original b) (modified b) (modified_2 b) (m2o b) (m2o_2 b) (mod_chars b) (mod_c2b b) (mod_b2c b) (mod_bow b) (mod_cat b) v (replaces b) (state b).
Definition set_replaces (v : list edit) (b : ibuf) : ibuf := mkIB (original b) (modified b) (modified_2 b) (m2o b) (m2o_2 b) (mod_chars b) (mod_c2b b) (mod_b2c b) (mod_bow b) (mod_cat b) (mod_cat_continuity b) v (state b).
Definition set_state (v : bstate) (b : ibuf) : ibuf := mkIB (original b) (modified b) (modified_2 b) (m2o b) (m2o_2 b) (mod_chars b) (mod_c2b b) (mod_b2c b) (mod_bow b) (mod_cat b) (mod_cat_continuity b) (replaces b) v.

(* Vec::clear / String::clear of the field called f; `self.state = BufferState::Clean` for "state" *)
Definition ib_clear (f : string) (b : ibuf) : ibuf :=
  if String.eqb f "original" then set_original [] b else
  if String.eqb f "modified" then set_modified [] b else
  if String.eqb f "modified_2" then set_modified_2 [] b else
  if String.eqb f "m2o" then set_m2o [] b else
  if String.eqb f "m2o_2" then set_m2o_2 [] b else
  if String.eqb f "mod_chars" then set_mod_chars [] b else
  if String.eqb f "mod_c2b" then set_mod_c2b [] b else
  if String.eqb f "mod_b2c" then set_mod_b2c [] b else
  if String.eqb f "mod_bow" then set_mod_bow [] b else
  if String.eqb f "mod_cat" then set_mod_cat [] b else
  if String.eqb f "mod_cat_continuity" then set_mod_cat_continuity [] b else
  if String.eqb f "replaces" then set_replaces [] b else
  if String.eqb f "state" then set_state Clean b else
  b.
Definition ibuf_field_names : list string := ["original"; "modified"; "modified_2"; "m2o"; "m2o_2"; "mod_chars"; "mod_c2b"; "mod_b2c"; "mod_bow"; "mod_cat"; "mod_cat_continuity"; "replaces"; "state"].

Definition ib_clear_all (fs : list string) (b : ibuf) : ibuf := fold_left (fun b f => ib_clear f b) fs b.

Definition ib_default : ibuf := mkIB [] [] [] [] [] [] [] [] [] [] [] [] Clean.

(* ---------- the regenerated facts, as one value ---------- *)
Record facts := mkF {
  f_tok_reset : list string;      (* StatefulTokenizer::reset: fields cleared *)
  f_top : string;                 (* ... and what it does with top_path *)
  f_ib_reset : list string;       (* InputBuffer::reset *)
  f_commit : list string;         (* InputBuffer::commit *)
  f_build : list string;          (* InputBuffer::build *)
  f_fill : list string;           (* InputBuffer::fill_orig_b2c *)
  f_rollback : list string;       (* InputBuffer::rollback *)
  f_lat_rows : list string;       (* Lattice::reset: row arrays passed to reset_vec *)
  f_lat_scalars : list string;    (* Lattice::reset: scalars overwritten *)
  f_sb_guard : string * string;   (* start_build: `if self.original.len() > MAX_LENGTH` *)
  f_commit_guard : string * string; (* commit: `if sz > REALLY_MAX_LENGTH` *)
  f_steps : list string;          (* order of the steps of do_tokenize *)
  f_flags : bool                  (* the remaining recognised-shape flags *)
}.

Definition F0 : facts :=
  let R := 0 in
  mkF Generated.ResetFacts.tokenizer_reset_clears Generated.ResetFacts.tokenizer_reset_top_path
      Generated.ResetFacts.input_buffer_reset_clears Generated.ResetFacts.commit_clears Generated.ResetFacts.build_clears
      Generated.ResetFacts.fill_orig_b2c_clears Generated.ResetFacts.rollback_clears
      Generated.ResetFacts.lattice_reset_rows Generated.ResetFacts.lattice_reset_scalars
      Generated.ResetFacts.start_build_guard Generated.ResetFacts.commit_guard Generated.ResetFacts.do_tokenize_steps
      (Generated.ResetFacts.top_path_ids_drained && Generated.ResetFacts.swap_result_recognised &&
       Generated.ResetFacts.set_mode_subset_recognised && Generated.ResetFacts.node_buffer_cleared_before_use &&
       Generated.ResetFacts.resolve_edits_drains && Generated.ResetFacts.reset_vec_clears_every_row &&
       Generated.ResetFacts.mlist_recognised && Generated.ResetFacts.python_protocol_recognised).

(* the values the theorems of Proofs/TokStateProofs.v are proved for *)
Definition Fexp : facts :=
  mkF ["input"; "oov"] "clear_or_recreate"
      ["m2o"; "mod_b2c"; "mod_bow"; "mod_c2b"; "mod_cat"; "mod_cat_continuity"; "mod_chars"; "modified"; "original"; "state"]
      ["m2o_2"; "mod_chars"; "modified_2"] ["mod_chars"] ["m2o_2"] ["replaces"]
      ["ends"; "ends_full"; "indices"] ["eos"; "size"]
      (">", "MAX_LENGTH") (">", "REALLY_MAX_LENGTH")
      ["start_build"; "rewrite_input"; "build"; "return_if_empty"; "build_lattice"; "resolve_best_path"; "path_rewrite"; "split_path"; "store_top_path"]
      true.

Definition strs_eqb : list string -> list string -> bool := list_eqb String.eqb.
Definition fvec (F : facts) : list (list string) :=
  [f_tok_reset F; [f_top F]; f_ib_reset F; f_commit F; f_build F; f_fill F; f_rollback F; f_lat_rows F; f_lat_scalars F;
   [fst (f_sb_guard F); snd (f_sb_guard F)]; [fst (f_commit_guard F); snd (f_commit_guard F)]; f_steps F].
Definition facts_ok (F : facts) : bool := list_eqb strs_eqb (fvec F) (fvec Fexp) && f_flags F.

(* field inventories of the four structs against the records of this file *)
Definition tok_field_names : list string := ["dictionary"; "input"; "debug"; "mode"; "oov"; "lattice"; "top_path_ids"; "top_path"; "subset"].
Definition lattice_field_names : list string := ["ends"; "ends_full"; "indices"; "eos"; "size"].
Definition mlist_field_names : list string := ["dict"; "input"; "nodes"].
Definition input_part_field_names : list string := ["input"; "subset"].
Definition inventories_ok : bool :=
  strs_eqb Generated.ResetFacts.tokenizer_fields tok_field_names &&
  strs_eqb Generated.ResetFacts.input_buffer_fields ibuf_field_names &&
  strs_eqb Generated.ResetFacts.lattice_fields lattice_field_names &&
  strs_eqb Generated.ResetFacts.morpheme_list_fields mlist_field_names &&
  strs_eqb Generated.ResetFacts.input_part_fields input_part_field_names &&
  strs_eqb Generated.ResetFacts.nodes_fields ["data"].

Definition mem_s (x : string) (l : list string) : bool := existsb (String.eqb x) l.

Definition guard_eval (g : string * string) (x : N) : bool :=
  let k := Generated.ResetFacts.limit_of (snd g) in
  if String.eqb (fst g) ">" then k <? x else
  if String.eqb (fst g) ">=" then k <=? x else
  if String.eqb (fst g) "<" then x <? k else
  if String.eqb (fst g) "<=" then x <=? k else false.

(* ---------- Lattice ---------- *)
Record lattice := mkLat { ends : list (list N); ends_full : list (list N); indices : list (list N); eos : option N; size : N }.
Definition rows3 := (list (list N) * list (list N) * list (list N))%type.
Definition lat_default : lattice := mkLat [] [] [] None 0.

(* Lattice::reset_vec: every existing row is cleared (rows are never dropped), new empty rows are pushed up to target *)
Definition reset_vec (rows : list (list N)) (target : nat) : list (list N) :=
  map (fun _ => []) rows ++ repeat [] (target - List.length rows).

Definition BOS : N := 0.
(* connect_bos: self.ends[0].push(..) *)
Definition push_row0 (x : N) (rows : list (list N)) : list (list N) :=
  match rows with r :: t => (r ++ [x]) :: t | [] => [] end.

Definition lat_reset (F : facts) (n : N) (l : lattice) : lattice :=
  let tgt := S (N.to_nat n) in
  let rs (name : string) (rows : list (list N)) := if mem_s name (f_lat_rows F) then reset_vec rows tgt else rows in
  mkLat (push_row0 BOS (rs "ends" (ends l))) (rs "ends_full" (ends_full l)) (rs "indices" (indices l))
        (if mem_s "eos" (f_lat_scalars F) then None else eos l)
        (if mem_s "size" (f_lat_scalars F) then N.of_nat tgt else size l).

(* "You must use the size parameter ... and never access vectors after the end": the rows the analysis may touch *)
Definition visible (l : lattice) : rows3 :=
  let k := N.to_nat (size l) in (firstn k (ends l), firstn k (ends_full l), firstn k (indices l)).

Definition write_visible (v : rows3) (e : option N) (l : lattice) : lattice :=
  let k := N.to_nat (size l) in
  let '(a, b, c) := v in
  mkLat (a ++ skipn k (ends l)) (b ++ skipn k (ends_full l)) (c ++ skipn k (indices l)) e (size l).

(* ---------- the pure parts ---------- *)
(* what the analysis reads of an InputBuffer: every field but the scratch string modified_2 and the edit list *)
Definition view := (text * text * list N * list N * text * list N * list N * list bool * list N * list N)%type.
Definition view_of (b : ibuf) : view :=
  (original b, modified b, m2o b, m2o_2 b, mod_chars b, mod_c2b b, mod_b2c b, mod_bow b, mod_cat b, mod_cat_continuity b).

(* outcome of a step: Ok, an error value, a panic *)
Inductive result := ROk | RErr | RPanic.
(* outcome of the chain of path-rewrite plugins *)
Inductive pwres := WOk (p : list rnode) | WErr | WPanic.

Record plugin := mkPlugin {
  uses_chars : bool;
  p_run : text -> list N -> text -> option (list edit)   (* reads modified, m2o, mod_chars; None = Err *)
}.

Record core_out := mkCO {
  co_rows : rows3;            (* the visible rows after build_lattice *)
  co_eos : option N;
  co_oov : list N;            (* what build_lattice leaves in the node buffer *)
  co_ids : option (list N)    (* None: EosBosDisconnect; Some: what fill_top_path pushes *)
}.

Record env := mkEnv {
  e_plugins : list plugin;                                   (* input text plugins, in order *)
  e_resolve : text -> list N -> list edit -> option (text * list N * N);   (* edit::resolve_edits: text and map appended to the targets, size; None = it panics (slice off a boundary / out of range) *)
  e_cat : N -> N;                                            (* character category *)
  e_c2b_body : text -> list N;  e_b2c_body : text -> list N;  e_b2c_last : text -> N;
  e_bow : text -> list bool -> list bool;                    (* build's BOW loop over the resized mod_bow *)
  e_cont : list N -> list N -> list N;                       (* fill_cat_continuity over mod_cat and the resized vector *)
  e_ob2c : text -> list N -> list N;                         (* fill_orig_b2c over the resized m2o_2 *)
  e_core : view -> N -> rows3 -> core_out;                   (* build_lattice after Lattice::reset (dictionary + OOV + Viterbi) *)
  e_node : view -> N -> rows3 -> N -> rnode;                 (* resolve_best_path: result node of a path id (word info by subset) *)
  e_prw : view -> N -> rows3 -> list rnode -> pwres;            (* all path rewrite plugins *)
  e_split : tmode -> N -> view -> list rnode -> option (list rnode); (* split_path = Model.Split.tokenize_mode; None = panic *)
  e_split_into : tmode -> N -> view -> rnode -> option (option (list rnode)); (* None = panic, Some None = no units *)
  e_lookup : text -> N -> view -> list rnode;                (* MorphemeList::lookup: nodes pushed *)
  e_norm : N -> N;                                           (* InfoSubset::normalize *)
  e_split_a : N; e_split_b : N                               (* InfoSubset::SPLIT_A / SPLIT_B *)
}.

Definition is_nil {A} (l : list A) : bool := match l with [] => true | _ => false end.
Definition resize {A} (l : list A) (n : nat) (d : A) : list A := firstn n l ++ repeat d (n - List.length l).
Definition seqN (n : N) : list N := map N.of_nat (seq 0 (N.to_nat n)).
Definition USIZE_MAX : N := 18446744073709551615.

(* InputBuffer::reset; the caller then pushes the text into `original` *)
Definition ib_reset (F : facts) (b : ibuf) : ibuf := ib_clear_all (f_ib_reset F) b.
Definition push_str (t : text) (b : ibuf) : ibuf := set_original (original b ++ t) b.

(* start_build returns (succeeded?, buffer), the editing steps (outcome, buffer) *)
Definition start_build (F : facts) (b : ibuf) : bool * ibuf :=
  if guard_eval (f_sb_guard F) (Model.Split.blen (original b)) then (false, b)
  else
    let md := modified b ++ original b in
    (true, set_m2o (m2o b ++ seqN (Model.Split.blen md + 1)) (set_modified md (set_state RW b))).

Definition refresh_chars (b : ibuf) : ibuf :=
  if is_nil (mod_chars b) then set_mod_chars (mod_chars b ++ modified b) b else b.

Definition commit (F : facts) (E : env) (b : ibuf) : result * ibuf :=
  if is_nil (replaces b) then (ROk, b)
  else
    let b1 := ib_clear_all (f_commit F) b in
    match e_resolve E (modified b1) (m2o b1) (replaces b1) with
    | None =>
        (* a panic inside resolve_edits: the Drain of the edit list empties it while unwinding; the two scratch targets
           hold whatever was appended (nothing reads them before they are cleared again) *)
        (RPanic, set_replaces [] b1)
    | Some (tgt, tmap, sz) =>
      (* resolve_edits appends to the two targets and drains the edit list *)
      let b2 := set_replaces [] (set_m2o_2 (m2o_2 b1 ++ tmap) (set_modified_2 (modified_2 b1 ++ tgt) b1)) in
      if guard_eval (f_commit_guard F) sz then (RErr, b2)
      else (ROk, set_m2o_2 (m2o b2) (set_m2o (m2o_2 b2) (set_modified_2 (modified b2) (set_modified (modified_2 b2) b2))))
    end.

(* InputTextPlugin::rewrite = refresh_chars (if the plugin uses chars) + with_editor *)
Definition plugin_step (F : facts) (E : env) (p : plugin) (b : ibuf) : result * ibuf :=
  let b1 := if uses_chars p then refresh_chars b else b in
  match p_run p (modified b1) (m2o b1) (mod_chars b1) with
  | None => (RErr, ib_clear_all (f_rollback F) b1)
  | Some es => commit F E (set_replaces (replaces b1 ++ es) b1)
  end.

Fixpoint rewrite_input (F : facts) (E : env) (ps : list plugin) (b : ibuf) : result * ibuf :=
  match ps with
  | [] => (ROk, b)
  | p :: r => let '(st, b') := plugin_step F E p b in
              match st with ROk => rewrite_input F E r b' | _ => (st, b') end
  end.

Definition fill_orig_b2c (F : facts) (E : env) (b : ibuf) : ibuf :=
  let b1 := ib_clear_all (f_fill F) b in
  set_m2o_2 (e_ob2c E (original b1) (resize (m2o_2 b1) (S (N.to_nat (Model.Split.blen (original b1)))) USIZE_MAX)) b1.

Definition build (F : facts) (E : env) (b : ibuf) : ibuf :=
  let b1 := ib_clear_all (f_build F) (set_state RO b) in
  let cs := modified b1 in
  let chars := mod_chars b1 ++ cs in
  let cats := mod_cat b1 ++ map (e_cat E) cs in
  let b2c1 := mod_b2c b1 ++ e_b2c_body E cs in
  let c2b1 := mod_c2b b1 ++ e_c2b_body E cs ++ [N.of_nat (List.length b2c1)] in
  let bow := e_bow E cs (resize (mod_bow b1) (N.to_nat (Model.Split.blen cs)) false) in
  let cont := if is_nil chars then mod_cat_continuity b1
              else e_cont E cats (resize (mod_cat_continuity b1) (List.length chars) 1) in
  fill_orig_b2c F E
    (set_mod_cat_continuity cont (set_mod_bow bow (set_mod_b2c (b2c1 ++ [e_b2c_last E cs]) (set_mod_c2b c2b1
      (set_mod_cat cats (set_mod_chars chars b1)))))).

(* ---------- StatefulTokenizer ---------- *)
Record tok := mkTok {
  input : ibuf; debug : bool; mode : tmode; oov : list N; lat : lattice;
  top_path_ids : list N; top_path : option (list rnode); subset : N }.
(* the field `dictionary` is immutable shared data: it is the `env` argument of every function *)

Definition SUBSET_ALL : N := 1023.
Definition fresh (m : tmode) (ss : N) : tok := mkTok ib_default false m [] lat_default [] (Some []) ss.
(* StatefulTokenizer::create *)
Definition create (m : tmode) : tok := fresh m SUBSET_ALL.

Definition mode_bits (E : env) (m : tmode) : N := match m with MA => e_split_a E | MB => e_split_b E | MC => 0 end.

Definition set_mode (E : env) (m : tmode) (s : tok) : tok :=
  mkTok (input s) (debug s) m (oov s) (lat s) (top_path_ids s) (top_path s) (N.lor (subset s) (mode_bits E m)).

Definition set_subset (E : env) (x : N) (s : tok) : tok :=
  let ms := mode_bits E (mode s) in
  mkTok (input s) (debug s) (mode s) (oov s) (lat s) (top_path_ids s) (top_path s) (N.lor (e_norm E (N.lor x ms)) ms).

Definition tok_reset (F : facts) (s : tok) : tok :=
  let tp := if String.eqb (f_top F) "clear_or_recreate" then Some []
            else if String.eqb (f_top F) "clear_if_some" then match top_path s with Some _ => Some [] | None => None end
            else top_path s in
  mkTok (if mem_s "input" (f_tok_reset F) then ib_reset F (input s) else input s) (debug s) (mode s)
        (if mem_s "oov" (f_tok_reset F) then [] else oov s) (lat s) (top_path_ids s) tp (subset s).

Definition with_input (b : ibuf) (s : tok) : tok :=
  mkTok b (debug s) (mode s) (oov s) (lat s) (top_path_ids s) (top_path s) (subset s).

(* build_lattice .. split_path .. self.top_path = Some(path), on a built, non-empty buffer *)
Definition analysis_phase (F : facts) (E : env) (s : tok) : result * tok :=
  let b := input s in
  let v := view_of b in
  let lat1 := lat_reset F (N.of_nat (List.length (mod_chars b))) (lat s) in
  let co := e_core E v (subset s) (visible lat1) in
  let lat2 := write_visible (co_rows co) (co_eos co) lat1 in
  let oov2 := co_oov co in       (* node_buffer.clear() precedes every use *)
  match co_ids co with
  | None => (RErr, mkTok b (debug s) (mode s) oov2 lat2 (top_path_ids s) (top_path s) (subset s))
  | Some ids =>
    (* resolve_best_path: take top_path (or a new vector), fill_top_path pushes, reverse, drain *)
    let path0 := match top_path s with Some p => p | None => [] end in
    let all_ids := rev (top_path_ids s ++ ids) in
    let path1 := path0 ++ map (e_node E v (subset s) (co_rows co)) all_ids in
    match e_prw E v (subset s) (co_rows co) path1 with
    | WErr => (RErr, mkTok b (debug s) (mode s) oov2 lat2 [] None (subset s))
    | WPanic => (RPanic, mkTok b (debug s) (mode s) oov2 lat2 [] None (subset s))
    | WOk path2 =>
      match e_split E (mode s) (subset s) v path2 with
      | None => (RPanic, mkTok b (debug s) (mode s) oov2 lat2 [] None (subset s))
      | Some path3 => (ROk, mkTok b (debug s) (mode s) oov2 lat2 [] (Some path3) (subset s))
      end
    end
  end.

Definition do_tokenize (F : facts) (E : env) (s : tok) : result * tok :=
  let '(ok1, b1) := start_build F (input s) in
  if negb ok1 then (RErr, with_input b1 s) else
  let '(st2, b2) := rewrite_input F E (e_plugins E) b1 in
  match st2 with
  | ROk =>
      let b3 := build F E b2 in
      if is_nil (modified b3) then (ROk, with_input b3 s)
      else analysis_phase F E (with_input b3 s)
  | _ => (st2, with_input b2 s)
  end.

(* tok.reset().push_str(t); tok.do_tokenize() *)
Definition analyse (F : facts) (E : env) (t : text) (s : tok) : result * tok :=
  let s1 := tok_reset F s in
  do_tokenize F E (with_input (push_str t (input s1)) s1).

(* ---------- MorphemeList ---------- *)
Record mlist := mkML { l_input : ibuf; l_subset : N; l_nodes : list rnode }.
(* MorphemeList::empty: InputPart::default() has called start_build on an empty buffer *)
Definition ml_empty (F : facts) : mlist := mkML (snd (start_build F ib_default)) SUBSET_ALL [].

(* collect_results / swap_result: None = `self.top_path.as_mut().unwrap()` panics *)
Definition collect (s : tok) (l : mlist) : option (tok * mlist) :=
  match top_path s with
  | None => None
  | Some p => Some (mkTok (l_input l) (debug s) (mode s) (oov s) (lat s) (top_path_ids s) (Some (l_nodes l)) (subset s),
                    mkML (input s) (subset s) p)
  end.

(* split_into(mode, index, out): `out` takes the input part of the source and the sub-tokens are appended *)
Definition ml_split_into (E : env) (m : tmode) (src : mlist) (i : nat) (out : mlist) : option (bool * mlist) :=
  match nth_error (l_nodes src) i with
  | None => None
  | Some n =>
    match e_split_into E m (l_subset src) (view_of (l_input src)) n with
    | None => None
    | Some None => Some (false, out)
    | Some (Some subs) => Some (true, mkML (l_input src) (l_subset src) (l_nodes out ++ subs))
    end
  end.

(* lookup(query, subset): reset + push + start_build + build on the list's own buffer, nodes appended *)
Definition ml_lookup (F : facts) (E : env) (q : text) (ss : N) (l : mlist) : bool * mlist :=
  let '(ok, b1) := start_build F (push_str q (ib_reset F (l_input l))) in
  if negb ok then (false, mkML b1 (l_subset l) (l_nodes l))
  else let b2 := build F E b1 in
       (true, mkML b2 (l_subset l) (l_nodes l ++ e_lookup E q ss (view_of b2))).

(* ---------- the whole system: one tokenizer, a store of result lists ---------- *)
Record sys := mkSys { tk : tok; lists : list mlist }.

Inductive op :=
| OSetMode (m : tmode) | OSetSubset (x : N) | OAnalyse (t : text) | ONewList
| OCollect (k : nat) | OSplitInto (m : tmode) (src : nat) (i : nat) (out : nat) | OLookup (k : nat) (q : text) (ss : N).

Fixpoint set_nth {A} (k : nat) (x : A) (l : list A) : list A :=
  match l, k with
  | [], _ => []
  | _ :: t, O => x :: t
  | y :: t, S k' => y :: set_nth k' x t
  end.

Definition run_op (F : facts) (E : env) (o : op) (y : sys) : sys :=
  match o with
  | OSetMode m => mkSys (set_mode E m (tk y)) (lists y)
  | OSetSubset x => mkSys (set_subset E x (tk y)) (lists y)
  | OAnalyse t => mkSys (snd (analyse F E t (tk y))) (lists y)
  | ONewList => mkSys (tk y) (lists y ++ [ml_empty F])
  | OCollect k =>
    match nth_error (lists y) k with
    | None => y
    | Some l => match collect (tk y) l with
                | None => y      (* the panic unwinds before anything is swapped *)
                | Some (s', l') => mkSys s' (set_nth k l' (lists y))
                end
    end
  | OSplitInto m src i out =>
    match nth_error (lists y) src, nth_error (lists y) out with
    | Some ls, Some lo => match ml_split_into E m ls i lo with
                          | Some (_, lo') => mkSys (tk y) (set_nth out lo' (lists y))
                          | None => y
                          end
    | _, _ => y
    end
  | OLookup k q ss =>
    match nth_error (lists y) k with
    | None => y
    | Some l => mkSys (tk y) (set_nth k (snd (ml_lookup F E q ss l)) (lists y))
    end
  end.

Definition run_ops (F : facts) (E : env) (ops : list op) (y : sys) : sys := fold_left (fun y o => run_op F E o y) ops y.

(* ---------- observation of a probe ---------- *)
(* what a result list shows after collect_results: every buffer field the accessors read, the state, nodes, subset *)
Definition observation := (view * bstate * list rnode * N)%type.
Definition collected (s : tok) : option observation :=
  match top_path s with
  | None => None
  | Some p => Some (view_of (input s), state (input s), p, subset s)
  end.

(* analyse t, then (when it succeeded) collect into a result list; the list's previous content does not matter *)
Definition probe (F : facts) (E : env) (t : text) (s : tok) : result * option observation :=
  let '(r, s') := analyse F E t s in
  (r, match r with ROk => collected s' | _ => None end).

(* the invariant every operation keeps: no pending edits in any buffer, no pending path ids *)
Definition inv_tok (s : tok) : Prop := replaces (input s) = [] /\ top_path_ids s = [].
Definition inv_sys (y : sys) : Prop := inv_tok (tk y) /\ Forall (fun l => replaces (l_input l) = []) (lists y).

(* ---------- correspondence run: the environment read off a table recorded from fresh tokenizers ---------- *)
(* one row per distinct analysed text: what a fresh tokenizer reports for it *)
Record trow := mkRow {
  r_text : text;                          (* original text *)
  r_norm : option (text * list N);        (* None: the input text plugin makes no edit; Some (modified, m2o) *)
  r_disc : bool;                          (* lattice cannot be connected (EosBosDisconnect) *)
  r_late : bool;                          (* the path rewrite plugin of the harness fails on this text *)
  r_pc : list rnode;                      (* path in mode C *)
  r_pa : option (list rnode); r_pb : option (list rnode)   (* paths in modes A / B; None = panic *)
}.

Definition text_eqb : text -> text -> bool := list_eqb N.eqb.
Fixpoint tfind (tbl : list trow) (t : text) : option trow :=
  match tbl with [] => None | r :: rest => if text_eqb (r_text r) t then Some r else tfind rest t end.

Definition len_is {A} (l : list A) (n : N) : bool := N.of_nat (List.length l) =? n.

Definition exp_modified (r : trow) : text := match r_norm r with Some (md, _) => md | None => r_text r end.
Definition exp_m2o (r : trow) : list N := match r_norm r with Some (_, m) => m | None => seqN (Model.Split.blen (r_text r) + 1) end.

(* the fields the analysis reads are those a fresh buffer holds for this text (stale prefixes change the lengths) *)
Definition coherent (r : trow) (v : view) (rows : rows3) : bool :=
  let '(orig, md, mo, mo2, chars, c2b, b2c, bow, cat, cont) := v in
  let n := N.of_nat (List.length md) in
  let bl := Model.Split.blen md in
  text_eqb md (exp_modified r) && list_eqb N.eqb mo (exp_m2o r) && text_eqb chars md &&
  len_is c2b (n + 1) && len_is b2c (bl + 1) && len_is bow bl && len_is cat n && len_is cont n &&
  len_is mo2 (Model.Split.blen orig + 1) &&
  let '(a, b, c) := rows in
  list_eqb (list_eqb N.eqb) a ([BOS] :: repeat [] (N.to_nat n)) &&
  list_eqb (list_eqb N.eqb) b (repeat [] (S (N.to_nat n))) && list_eqb (list_eqb N.eqb) c (repeat [] (S (N.to_nat n))).

Definition POISON : rnode := Model.Split.mkNode 999999 999999 999999 999999 999999.

Definition v_orig (v : view) : text := let '(orig, _, _, _, _, _, _, _, _, _) := v in orig.

Definition env_of (tbl : list trow) : env :=
  mkEnv
    [mkPlugin true (fun md _ chars =>
       if text_eqb chars md then
         match tfind tbl md with
         | Some r => match r_norm r with Some _ => Some [(0, Model.Split.blen md, [])] | None => Some [] end
         | None => None
         end
       else None)]
    (fun md _ _ => match tfind tbl md with
                   | Some r => match r_norm r with Some (tgt, tmap) => Some (tgt, tmap, Model.Split.blen tgt) | None => Some ([], [], 0) end
                   | None => Some ([], [], 0)
                   end)
    (fun _ => 0)
    (fun cs => map (fun k => Model.Split.c2b cs (N.of_nat k)) (seq 0 (List.length cs)))
    (fun cs => removelast (Model.Split.b2c_from 0 cs))
    (fun cs => N.max 1 (N.of_nat (List.length cs)))
    (fun _ old => old) (fun _ old => old) (fun _ old => old)
    (fun v _ rows =>
       match tfind tbl (v_orig v) with
       | Some r => if coherent r v rows
                   then mkCO rows None [] (if r_disc r then None else Some (rev (seqN (N.of_nat (List.length (r_pc r))))))
                   else mkCO rows None [] (Some [999999])
       | None => mkCO rows None [] (Some [999999])
       end)
    (fun v _ _ id => match tfind tbl (v_orig v) with
                     | Some r => nth (N.to_nat id) (r_pc r) POISON
                     | None => POISON
                     end)
    (fun v _ _ path => match tfind tbl (v_orig v) with
                       | Some r => if r_late r then WErr else WOk path
                       | None => WOk path
                       end)
    (fun m _ v path => match m with
                       | MC => Some path
                       | _ => match tfind tbl (v_orig v) with
                              | Some r => if list_eqb Model.Split.node_eqb path (r_pc r)
                                          then (match m with MA => r_pa r | _ => r_pb r end)
                                          else Some (POISON :: path)
                              | None => Some (POISON :: path)
                              end
                       end)
    (fun _ _ _ _ => Some None)
    (fun _ _ _ => [])
    (fun x => x) 64 128.

(* events of a run: (kind, flag, nodes): kind 0 = analyse (flag 0 Ok / 1 Err / 2 Panic), kind 1 = collect (flag 0 / 2,
   nodes of the list afterwards as (char begin, char end, word id)) *)
Definition event := (N * N * list (N * N * N))%type.
Definition nodes3 (p : list rnode) : list (N * N * N) :=
  map (fun n => (Model.Split.nb n, Model.Split.ne n, Model.Split.wid n)) p.
Definition flag_of (r : result) : N := match r with ROk => 0 | RErr => 1 | RPanic => 2 end.

Definition events_of (F : facts) (E : env) (o : op) (y : sys) : list event :=
  match o with
  | OAnalyse t => [(0, flag_of (fst (analyse F E t (tk y))), [])]
  | OCollect k => match nth_error (lists y) k with
                  | Some l => match collect (tk y) l with
                              | Some (_, l') => [(1, 0, nodes3 (l_nodes l'))]
                              | None => [(1, 2, [])]
                              end
                  | None => []
                  end
  | _ => []
  end.

Fixpoint run_trace (F : facts) (E : env) (ops : list op) (y : sys) : list event :=
  match ops with
  | [] => []
  | o :: r => events_of F E o y ++ run_trace F E r (run_op F E o y)
  end.

Definition n3_eqb (a b : N * N * N) : bool :=
  let '(x, y, z) := a in let '(x', y', z') := b in (x =? x') && (y =? y') && (z =? z').
Definition event_eqb (a b : event) : bool :=
  let '(k, f, l) := a in let '(k', f', l') := b in (k =? k') && (f =? f') && list_eqb n3_eqb l l'.

(* One case: table, initial mode, operations (the last two are the probe: analyse t, collect), the implementation's
   events for the same operations, and the events of the probe on a freshly created tokenizer (mode and field request
   of the history tokenizer).  true iff the model reproduces the implementation's events and the implementation's
   probe events equal the fresh ones. *)
Definition last_two {A} (l : list A) : list A := skipn (List.length l - 2) l.
Definition check_case (tbl : list trow) (m0 : tmode) (ops : list op) (impl : list event) (fresh_probe : list event) : bool :=
  list_eqb event_eqb (run_trace F0 (env_of tbl) ops (mkSys (create m0) [])) impl &&
  list_eqb event_eqb (last_two impl) fresh_probe.
