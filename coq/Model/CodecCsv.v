(* C05 — the lexicon reader's own text handling, from a CSV row already split into its fields (the csv crate stays
   outside) to the rows the Resolve model and the codec take:
     sudachi/src/dic/build/parse.rs    unescape / unescape_cow / unescape_slow (regex UNICODE_LITERAL), check_str_len,
                                       parse_i16, parse_u32, parse_dic_form, parse_wordid(_raw), parse_wordid_list,
                                       parse_u32_list, parse_slash_list, parse_mode, none_if_equal, WORD_ID_LITERAL
     sudachi/src/dic/build/lexicon.rs  LexiconReader::{parse_record, parse_splits, parse_split, pos_of, preload_pos,
                                       write_pos_table}
     sudachi/src/dic/grammar.rs        pos_list_parser
   Texts are lists of code points (a Rust &str).  Limits, comparison operators, the column table, the inline-reference
   fields and the mode table are the regenerated ones (Generated/CsvFacts.v).  Executable definitions only. *)
From Coq Require Import List NArith ZArith Bool String Ascii.
From SudachiVerif Require Import Model.GuardLang Model.Codec Model.CodecResolve.
From SudachiVerif Require Generated.CsvFacts.
Import ListNotations.
Open Scope N_scope.

Module CF := Generated.CsvFacts.

(* ------------------------------------------------------------------ results *)
Inductive err :=
| ESize                 (* InvalidSize: a string column longer than MAX_DIC_STRING_LEN bytes, or a list above MAX_ARRAY_LEN *)
| EChar (digits : text) (* InvalidCharLiteral: \u escape that names no scalar value *)
| EI16 | EU32 | EWordId | EMode
| ESplitFormat          (* an inline reference with fewer than 8 fields *)
| ENoField (i : N)      (* NoRawField: the row has no column i *)
| EPosLimit             (* PosLimitExceeded *)
| EModeASplits          (* InvalidSplit("A-mode tokens can't have splits") *)
| EEmptySurface
| ENulSurface.

Inductive res (A : Type) := ROk (a : A) | RErr (e : err).
Arguments ROk {A} a.
Arguments RErr {A} e.
Definition bind {A B} (r : res A) (f : A -> res B) : res B :=
  match r with ROk a => f a | RErr e => RErr e end.
Notation "'do' x <- r ; k" := (bind r (fun x => k)) (at level 200, x pattern, r at level 100, k at level 200).

(* ------------------------------------------------------------------ characters *)
Definition BACKSLASH : N := 92.
Definition LOWER_U : N := 117.
Definition LBRACE : N := 123.
Definition RBRACE : N := 125.
Definition SLASH : N := 47.
Definition COMMA : N := 44.
Definition STAR : N := 42.
Definition UPPER_U : N := 85.

Definition hexval (c : N) : option N :=
  if (48 <=? c) && (c <=? 57) then Some (c - 48)
  else if (97 <=? c) && (c <=? 102) then Some (c - 87)
  else if (65 <=? c) && (c <=? 70) then Some (c - 55)
  else None.
Definition is_hex (c : N) : bool := match hexval c with Some _ => true | None => false end.
(* u32::from_str_radix(_, 16) of at most six hex digits *)
Fixpoint hexnum (acc : N) (hs : text) : N :=
  match hs with
  | [] => acc
  | h :: t => hexnum (acc * 16 + match hexval h with Some v => v | None => 0 end) t
  end.
(* the longest prefix of hex digits, at most `max` of them, and what follows it *)
Fixpoint take_hex (max : nat) (s : text) : text * text :=
  match max, s with
  | S k, c :: t => if is_hex c then let (h, r) := take_hex k t in (c :: h, r) else ([], s)
  | _, _ => ([], s)
  end.

(* ------------------------------------------------------------------ unescape *)
(* what the regex \\u(?:\{([0-9a-fA-F]{1,6})\}|([0-9a-fA-F]{4})) finds right after a backslash:
   nothing, a character (and how many code points of the rest belong to the escape), or digits naming no scalar *)
Inductive esc := EscNone | EscChar (c : N) (consumed : nat) | EscBad (digits : text).

(* char::from_u32 *)
Definition decode (hs : text) (consumed : nat) : esc :=
  let v := hexnum 0 hs in if is_scalar v then EscChar v consumed else EscBad hs.

(* the four-digit alternative, tried on what follows `\u` *)
Definition four_digits (r : text) : esc :=
  let (hs, _) := take_hex 4 r in if Nat.eqb (List.length hs) 4 then decode hs 5 else EscNone.

Definition try_escape (t : text) : esc :=
  match t with
  | u :: r =>
      if u =? LOWER_U then
        match r with
        | b :: r1 =>
            if b =? LBRACE then
              let (hs, r2) := take_hex 6 r1 in
              match hs, r2 with
              | _ :: _, c :: _ => if c =? RBRACE then decode hs (3 + List.length hs) else EscNone
              | _, _ => EscNone         (* the second alternative cannot match either: `{` is no hex digit *)
              end
            else four_digits r
        | [] => EscNone
        end
      else EscNone
  | [] => EscNone
  end.

(* unescape_slow: left to right, non-overlapping matches; the first escape naming no scalar is the error.
   `skip` = code points still belonging to the escape just decoded *)
Fixpoint unescape_go (skip : nat) (s : text) : res text :=
  match s with
  | [] => ROk []
  | c :: t =>
      match skip with
      | S k => unescape_go k t
      | O =>
          if c =? BACKSLASH then
            match try_escape t with
            | EscChar ch n => do r <- unescape_go n t; ROk (ch :: r)
            | EscBad hs => RErr (EChar hs)
            | EscNone => do r <- unescape_go 0 t; ROk (c :: r)
            end
          else do r <- unescape_go 0 t; ROk (c :: r)
      end
  end.

(* unescape / unescape_cow: check_str_len on the raw field first *)
Definition unescape (s : text) : res text :=
  if cmp_eval CF.str_len_cmp (Z.of_N (utf8_len s)) CF.MAX_DIC_STRING_LEN then RErr ESize else unescape_go 0 s.

(* ------------------------------------------------------------------ numbers and word ids *)
Fixpoint digits_val (acc : Z) (s : text) : option Z :=
  match s with
  | [] => Some acc
  | c :: t => if (48 <=? c) && (c <=? 57) then digits_val (acc * 10 + Z.of_N (c - 48)) t else None
  end.
(* core::num from_str: an optional sign (`-` only for signed types), at least one ASCII digit, nothing else *)
Definition int_of_text (signed : bool) (s : text) : option Z :=
  match s with
  | [] => None
  | c :: t =>
      if (c =? 43) || (c =? 45) then
        match t with
        | [] => None
        | _ => if c =? 43 then digits_val 0 t
               else if signed then option_map Z.opp (digits_val 0 t) else None
        end
      else digits_val 0 s
  end.
Definition parse_i16 (s : text) : res Z :=
  match int_of_text true s with
  | Some z => if (-32768 <=? z)%Z && (z <=? 32767)%Z then ROk z else RErr EI16
  | None => RErr EI16
  end.
Definition parse_u32 (s : text) : res N :=
  match int_of_text false s with
  | Some z => if (z <=? 4294967295)%Z then ROk (Z.to_N z) else RErr EU32
  | None => RErr EU32
  end.
(* parse_wordid_raw: u32, then WordId::checked(0, v) *)
Definition parse_wordid_raw (s : text) : res N :=
  match parse_u32 s with
  | ROk v => if (Z.of_N v <=? CF.WORD_MASK)%Z then ROk v else RErr EWordId
  | RErr _ => RErr EWordId
  end.
(* parse_wordid: `U...` = word of the user dictionary being compiled: WordId::new(1, word) *)
Definition parse_wordid (s : text) : res N :=
  match s with
  | c :: t => if c =? UPPER_U then do v <- parse_wordid_raw t; ROk (DIC + v) else parse_wordid_raw s
  | [] => parse_wordid_raw s
  end.
Definition is_star (s : text) : bool := match s with [c] => c =? STAR | _ => false end.
Definition parse_dic_form (s : text) : res N := if is_star s then ROk 4294967295 else parse_wordid s.

(* ------------------------------------------------------------------ lists *)
(* str::split(sep): always at least one item *)
Fixpoint split_on (sep : N) (s : text) : list text :=
  match s with
  | [] => [[]]
  | c :: t => if c =? sep then [] :: split_on sep t
              else match split_on sep t with
                   | h :: r => (c :: h) :: r
                   | [] => [[c]]
                   end
  end.
(* str::splitn(n, sep): at most n items, the last one is the rest *)
Fixpoint splitn (n : nat) (sep : N) (s : text) : list text :=
  match n with
  | O => []
  | S O => [s]
  | S k => match s with
           | [] => [[]]
           | c :: t => if c =? sep then [] :: splitn k sep t
                       else match splitn n sep t with
                            | h :: r => (c :: h) :: r
                            | [] => [[c]]
                            end
           end
  end.

Fixpoint map_res {A B} (f : A -> res B) (l : list A) : res (list B) :=
  match l with
  | [] => ROk []
  | x :: t => do y <- f x; do ys <- map_res f t; ROk (y :: ys)
  end.
Definition list_too_long {A} (l : list A) : bool :=
  cmp_eval CF.list_len_cmp (Z.of_nat (List.length l)) CF.MAX_ARRAY_LEN.
(* parse_slash_list: every item is parsed (first failing item = the error), then the length is checked *)
Definition parse_slash_list {B} (f : text -> res B) (s : text) : res (list B) :=
  do l <- map_res f (split_on SLASH s); if list_too_long l then RErr ESize else ROk l.
Definition empty_or_star (s : text) : bool := match s with [] => true | _ => is_star s end.
Definition parse_wordid_list (s : text) : res (list N) := if empty_or_star s then ROk [] else parse_slash_list parse_wordid s.
Definition parse_u32_list (s : text) : res (list N) := if empty_or_star s then ROk [] else parse_slash_list parse_u32 s.

(* ------------------------------------------------------------------ mode *)
(* char::is_whitespace (Unicode White_Space), for str::trim *)
Definition is_space (c : N) : bool :=
  ((9 <=? c) && (c <=? 13)) || (c =? 32) || (c =? 133) || (c =? 160) || (c =? 5760)
  || ((8192 <=? c) && (c <=? 8202)) || (c =? 8232) || (c =? 8233) || (c =? 8239) || (c =? 8287) || (c =? 12288).
Fixpoint trim_start (s : text) : text := match s with c :: t => if is_space c then trim_start t else s | [] => [] end.
Definition trim (s : text) : text := rev (trim_start (rev (trim_start s))).
Fixpoint text_of_string (s : string) : text :=
  match s with
  | EmptyString => []
  | String a t => N_of_ascii a :: text_of_string t
  end.
Fixpoint lookup_mode (tbl : list (string * string)) (s : text) : option string :=
  match tbl with
  | [] => None
  | (lit, m) :: t => if text_eqb (text_of_string lit) s then Some m else lookup_mode t s
  end.
(* 0 = A, 1 = B, 2 = C *)
Definition parse_mode (s : text) : res N :=
  match lookup_mode CF.mode_table (trim s) with
  | Some m => if String.eqb m "A" then ROk 0 else if String.eqb m "B" then ROk 1 else if String.eqb m "C" then ROk 2 else RErr EMode
  | None => RErr EMode
  end.

(* ------------------------------------------------------------------ POS numbering *)
Definition posrow := list text.     (* the six components *)
Fixpoint posrow_eqb (a b : posrow) : bool :=
  match a, b with
  | [], [] => true
  | x :: a', y :: b' => text_eqb x y && posrow_eqb a' b'
  | _, _ => false
  end.
(* LexiconReader.pos (an IndexMap): the rows in id order, the preloaded system POS first *)
Definition pos_state := list posrow.
Fixpoint index_of_row (p : posrow) (l : list posrow) (i : N) : option N :=
  match l with
  | [] => None
  | x :: t => if posrow_eqb x p then Some i else index_of_row p t (N.succ i)
  end.
(* pos_of: known row -> its id; new row -> id = number of rows so far, unless that exceeds the limit *)
Definition pos_of (st : pos_state) (p : posrow) : res (pos_state * N) :=
  match index_of_row p st 0 with
  | Some i => ROk (st, i)
  | None =>
      let id := Z.of_nat (List.length st) in
      if cmp_eval CF.pos_limit_cmp id CF.MAX_POS_IDS then RErr EPosLimit else ROk (st ++ [p], Z.to_N id)
  end.

(* write_pos_table: u16 count of the rows after the preloaded ones, then their 6 strings each *)
Fixpoint concat_opt (l : list (option bytes)) : option bytes :=
  match l with
  | [] => Some []
  | Some a :: t => match concat_opt t with Some b => Some (a ++ b) | None => None end
  | None :: _ => None
  end.
Definition pos_table_bytes (rows : list posrow) : option bytes :=
  match concat_opt (map write_string (List.concat rows)) with
  | Some b => Some (le16 (N.of_nat (List.length rows) mod 65536) ++ b)
  | None => None
  end.
(* pos_list_parser: le_u16 count, count(count(utf16_string_parser, POS_DEPTH), count) *)
Fixpoint read_strings (n : nat) (bs : bytes) : option (list text * bytes) :=
  match n with
  | O => Some ([], bs)
  | S k => match read_string bs with
           | Some (s, r) => match read_strings k r with Some (l, r') => Some (s :: l, r') | None => None end
           | None => None
           end
  end.
Fixpoint read_pos_rows (n : nat) (bs : bytes) : option (list posrow * bytes) :=
  match n with
  | O => Some ([], bs)
  | S k => match read_strings (N.to_nat CF.POS_DEPTH) bs with
           | Some (row, r) => match read_pos_rows k r with Some (l, r') => Some (row :: l, r') | None => None end
           | None => None
           end
  end.
Definition read_pos_table (bs : bytes) : option (list posrow * bytes) :=
  match read_le16 bs with
  | Some (n, r) => read_pos_rows (N.to_nat n) r
  | None => None
  end.

(* ------------------------------------------------------------------ split columns *)
Fixpoint all_digits (s : text) : bool := match s with [] => true | c :: t => (48 <=? c) && (c <=? 57) && all_digits t end.
Definition nonempty_digits (s : text) : bool := match s with [] => false | _ => all_digits s end.
(* WORD_ID_LITERAL ^U?\d+$.  \d of the regex crate also accepts non-ASCII decimal digits; an item made of those is then
   no valid u32 for parse_wordid, and as an inline reference it has no comma: an error in either reading *)
Definition is_wid_literal (s : text) : bool :=
  match s with
  | c :: t => if c =? UPPER_U then nonempty_digits t else nonempty_digits s
  | [] => false
  end.

(* parse_split: a word id, or `surface,pos1,..,pos6,reading` *)
Definition parse_split (st : pos_state) (item : text) : res (pos_state * split_unit) :=
  if is_wid_literal item then do w <- parse_wordid item; ROk (st, SRef w)
  else
    match splitn (N.to_nat CF.inline_splitn) COMMA item with
    | f0 :: rest =>
        do surface <- unescape f0;
        (fix pos_fields (k : nat) (fs : list text) (acc : list text) {struct k} : res (pos_state * split_unit) :=
           match k with
           | S k' => match fs with
                     | f :: fs' => do p <- unescape f; pos_fields k' fs' (acc ++ [p])
                     | [] => RErr ESplitFormat
                     end
           | O => match fs with
                  | f :: _ => do reading <- unescape f;
                              do sp <- pos_of st acc;
                              ROk (fst sp, inline_of surface (snd sp) reading)
                  | [] => RErr ESplitFormat
                  end
           end) 6%nat rest []
    | [] => RErr ESplitFormat
    end.

Fixpoint parse_split_items (st : pos_state) (items : list text) : res (pos_state * list split_unit) :=
  match items with
  | [] => ROk (st, [])
  | x :: t => do su <- parse_split st x;
              do sr <- parse_split_items (fst su) t;
              ROk (fst sr, snd su :: snd sr)
  end.
(* parse_splits *)
Definition parse_splits (st : pos_state) (s : text) : res (pos_state * list split_unit) :=
  if empty_or_star s then ROk (st, [])
  else do r <- parse_split_items st (split_on SLASH s);
       if list_too_long (snd r) then RErr ESize else ROk r.

(* ------------------------------------------------------------------ one record *)
(* rec.get(i, ..): the column the regenerated table assigns to the variable *)
Fixpoint column_of (tbl : list (string * N * string * bool)) (v : string) : N :=
  match tbl with
  | [] => 999
  | (name, i, _, _) :: t => if String.eqb name v then i else column_of t v
  end.
Definition get (fields : list text) (v : string) : res text :=
  let i := column_of CF.record_columns v in
  match nth_error fields (N.to_nat i) with
  | Some s => ROk s
  | None => RErr (ENoField i)
  end.
Definition has_nul (s : text) : bool := existsb (fun c => c =? 0) s.

(* columns 0..14 of parse_record: strings, numbers, dictionary form, mode -- a function of the row alone *)
Record head := mkHead {
  h_surface : text; h_left : Z; h_right : Z; h_cost : Z; h_headword : text; h_pos : posrow;
  h_reading : text; h_norm : text; h_dic : N; h_mode : N
}.
Definition decode_head (f : list text) : res head :=
  do surface <- bind (get f "surface") unescape;
  do lid <- bind (get f "left_id") parse_i16;
  do rid <- bind (get f "right_id") parse_i16;
  do cost <- bind (get f "cost") parse_i16;
  do headword <- bind (get f "headword") unescape;
  do p1 <- bind (get f "p1") unescape;
  do p2 <- bind (get f "p2") unescape;
  do p3 <- bind (get f "p3") unescape;
  do p4 <- bind (get f "p4") unescape;
  do p5 <- bind (get f "p5") unescape;
  do p6 <- bind (get f "p6") unescape;
  do reading <- bind (get f "reading") unescape;
  do normalized <- bind (get f "normalized") unescape;
  do dic <- bind (get f "dic_form_id") parse_dic_form;
  do mode <- bind (get f "splitting") parse_mode;
  ROk (mkHead surface lid rid cost headword [p1; p2; p3; p4; p5; p6] reading normalized dic mode).
(* columns 17 and 18 *)
Definition decode_tail (f : list text) : res (list N * list N) :=
  do ws <- bind (get f "parts") parse_wordid_list;
  do syn <- match get f "synonyms" with ROk s => parse_u32_list s | RErr _ => ROk [] end;   (* get_or_default *)
  ROk (ws, syn).

(* LexiconReader::parse_record, in the order of the source: columns 0..14, the split columns 15 and 16 (they number the
   POS of their inline references), columns 17 and 18, pos_of for the row's own POS, the three checks *)
Definition parse_record (st : pos_state) (f : list text) : res (pos_state * rrow) :=
  do h <- decode_head f;
  do sa <- bind (get f "split_a") (parse_splits st);
  do sb <- bind (get f "split_b") (parse_splits (fst sa));
  do t <- decode_tail f;
  do sp <- pos_of (fst sb) (h_pos h);
  if (h_mode h =? 0) && negb (match snd sa, snd sb with [], [] => true | _, _ => false end) then RErr EModeASplits
  else if match h_surface h with [] => true | _ => false end then RErr EEmptySurface
  else if has_nul (h_surface h) then RErr ENulSurface
  else ROk (fst sp,
            mkRow (h_surface h)
                  (mkEntry (h_headword h) (utf8_len (h_surface h)) (snd sp) (h_norm h) (h_dic h) (h_reading h) [] []
                           (fst t) (snd t) (h_left h) (h_right h) (h_cost h))
                  (snd sa) (snd sb)).

(* read_bytes: the records in file order; the first failing record stops the build *)
Fixpoint parse_records (st : pos_state) (rows : list (list text)) : res (pos_state * list rrow) :=
  match rows with
  | [] => ROk (st, [])
  | f :: t => do r <- parse_record st f;
              do rs <- parse_records (fst r) t;
              ROk (fst rs, snd r :: snd rs)
  end.

(* the columns the model was written for; Properties/C05.v obliges the regenerated table to be this *)
Definition expected_columns : list (string * N * string * bool) :=
  [ ("surface", 0, "unescape", false); ("left_id", 1, "parse_i16", false); ("right_id", 2, "parse_i16", false);
    ("cost", 3, "parse_i16", false); ("headword", 4, "unescape_cow", false);
    ("p1", 5, "unescape_cow", false); ("p2", 6, "unescape_cow", false); ("p3", 7, "unescape_cow", false);
    ("p4", 8, "unescape_cow", false); ("p5", 9, "unescape_cow", false); ("p6", 10, "unescape_cow", false);
    ("reading", 11, "unescape_cow", false); ("normalized", 12, "unescape_cow", false);
    ("dic_form_id", 13, "parse_dic_form", false); ("splitting", 14, "parse_mode", false);
    ("split_a", 15, "parse_splits", false); ("split_b", 16, "parse_splits", false);
    ("parts", 17, "parse_wordid_list", false); ("synonyms", 18, "parse_u32_list", true) ]%string.
Definition expected_inline_fields : list (string * string) :=
  [ ("surface", "unescape"); ("p1", "unescape_cow"); ("p2", "unescape_cow"); ("p3", "unescape_cow");
    ("p4", "unescape_cow"); ("p5", "unescape_cow"); ("p6", "unescape_cow"); ("reading", "unescape_cow") ]%string.
Definition expected_mode_table : list (string * string) :=
  [ ("a", "A"); ("A", "A"); ("b", "B"); ("B", "B"); ("c", "C"); ("C", "C"); ("*", "C"); ("BC", "B") ]%string.
Definition csv_facts_ok : bool :=
  String.eqb CF.unicode_literal_regex "\\u(?:\{([0-9a-fA-F]{1,6})\}|([0-9a-fA-F]{4}))"
  && String.eqb CF.word_id_literal_regex "^U?\d+$"
  && (CF.inline_splitn =? 8) && (CF.POS_DEPTH =? 6)
  && (match CF.str_len_cmp with CGt => true | _ => false end)
  && (match CF.list_len_cmp with CGt => true | _ => false end)
  && (match CF.pos_limit_cmp with CGt => true | _ => false end)
  && (CF.MAX_POS_IDS <=? 65534)%Z && (0 <=? CF.MAX_POS_IDS)%Z
  && (CF.MAX_ARRAY_LEN <=? 127)%Z && (CF.WORD_MASK =? 268435455)%Z.

(* the POS requests of a lexicon in file order (inline references of columns 15 and 16 of a row, then the row's own),
   numbered one after the other: what parse_records does to LexiconReader.pos *)
Fixpoint assign (st : pos_state) (ps : list posrow) : res (pos_state * list N) :=
  match ps with
  | [] => ROk (st, [])
  | p :: t => do si <- pos_of st p; do r <- assign (fst si) t; ROk (fst r, snd si :: snd r)
  end.
(* the requests that are new when they come, each once, in order of first appearance *)
Fixpoint new_rows (st : list posrow) (ps : list posrow) : list posrow :=
  match ps with
  | [] => []
  | p :: t => if existsb (posrow_eqb p) st then new_rows st t else p :: new_rows (st ++ [p]) t
  end.
