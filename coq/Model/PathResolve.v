(* Model of how a relative file name of the configuration is resolved (sudachi/src/config.rs: ConfigBuilder::build puts
   the anchors together, Config::complete_path / PathResolver::first_existing pick the file).
   The file system is abstract: which (anchor, file) exists is a function handed in.  Executable definitions only.
   Used by C17 (characterDefinitionFile); the same route resolves systemDict / userDict / the plugins' definition files
   (C13's unk.def / char.def, C07's rewrite.def), so other properties may reuse it. *)
From Coq Require Import List Bool Arith String.
From SudachiVerif Require Generated.PathResolveFacts.
Import ListNotations.
Local Open Scope nat_scope.

Section Resolve.
  Variable dir : Type.
  Variable dir_eqb : dir -> dir -> bool.
  Variable file : Type.
  Variable is_absolute : file -> bool.
  Variable exists_in : dir -> file -> bool.     (* anchor.join(file).exists() *)
  Variable exists_cwd : file -> bool.           (* file.exists(), i.e. relative to the process's working directory *)

  (* ConfigBuilder::build: `path` of the configuration (if any), the resource directory, the root directory (directory of
     the configuration file, if any); an anchor equal to an earlier one is not added twice (`if !resolver.contains(&buf)`) *)
  Fixpoint dedup (seen l : list dir) : list dir :=
    match l with
    | [] => []
    | d :: t => if existsb (dir_eqb d) seen then dedup seen t else d :: dedup (d :: seen) t
    end.
  Definition opt (o : option dir) : list dir := match o with Some d => [d] | None => [] end.
  Definition anchors (path : option dir) (resource : dir) (root : option dir) : list dir :=
    dedup [] (opt path ++ [resource] ++ opt root).

  Inductive resolved := AsIs | InAnchor (d : dir) | InCwd | NotFound.

  (* PathResolver::first_existing: all_candidates(path).find(|p| p.exists()) over the roots in order *)
  Fixpoint first_existing (roots : list dir) (f : file) : option dir :=
    match roots with
    | [] => None
    | d :: t => if exists_in d f then Some d else first_existing t f
    end.

  (* Config::complete_path *)
  Definition complete_path (roots : list dir) (f : file) : resolved :=
    if is_absolute f then AsIs
    else match first_existing roots f with
         | Some d => InAnchor d
         | None => if exists_cwd f then InCwd else NotFound
         end.
End Resolve.

Arguments AsIs {dir}. Arguments InAnchor {dir} d. Arguments InCwd {dir}. Arguments NotFound {dir}.

(* ---- correspondence entry: anchors numbered 0 = `path`, 1 = resource directory, 2 = root directory; present = which of
   (path, resource, root, cwd) hold a file of the name; chosen = the location whose file the implementation used (3 = cwd,
   4 = it failed to load) ---- *)
Definition check_resolve (present : list bool) (chosen : nat) : bool :=
  let ex := fun (d : nat) (_ : unit) => nth d present false in
  let r := complete_path nat unit (fun _ => false) ex (fun _ => nth 3 present false)
                         (anchors nat Nat.eqb (Some 0) 1 (Some 2)) tt in
  match r with
  | InAnchor d => Nat.eqb chosen d
  | InCwd => Nat.eqb chosen 3
  | NotFound => Nat.eqb chosen 4
  | AsIs => false
  end.
