(* Model of sudachi/src/analysis/lattice.rs (Viterbi lattice), mathematical level:
   totals are exact integers, "not connected to BOS" (i32::MAX in the code) is None.
   The machine-level copy with i32 wrap-around is Model/LatticeM.v.
   Executable definitions only. *)
From Coq Require Import List ZArith NArith Bool Arith.
Import ListNotations.
Open Scope Z_scope.

Record node := mkNode { nbeg : nat; nend : nat; nleft : N; nright : N; ncost : Z }.

(* one slot of the parallel arrays ends / ends_full / indices.  enode = None is the BOS VNode(0, 0) *)
Record entry := mkEntry { enode : option node; etotal : option Z; eprev : option (nat * nat) }.

Definition eright (e : entry) : N := match enode e with None => 0%N | Some m => nright m end.

Definition lattice := list (list entry).   (* rows indexed by end boundary (code points) *)

Definition bos : entry := mkEntry None (Some 0) None.

(* Lattice::reset(length) + connect_bos: length+1 empty rows, BOS in row 0 *)
Definition reset (length : nat) : lattice := [bos] :: repeat [] length.

Definition row (L : lattice) (i : nat) : list entry := nth i L [].

Section WithConn.
  (* conn l r = ConnectionMatrix::cost(left = right id of the left node, right = left id of the right node) *)
  Variable conn : N -> N -> Z.

  (* connect_node: scan ends[begin] in order, skip unconnected, strict < keeps the first minimum.
     acc = (index of best so far, its cost) *)
  Fixpoint scan (es : list entry) (i : nat) (lft : N) (cst : Z) (acc : option (nat * Z)) : option (nat * Z) :=
    match es with
    | [] => acc
    | e :: es' =>
        let acc' :=
          match etotal e with
          | None => acc
          | Some t =>
              let nc := t + conn (eright e) lft + cst in
              match acc with
              | None => Some (i, nc)
              | Some (_, m) => if nc <? m then Some (i, nc) else acc
              end
          end in
        scan es' (S i) lft cst acc'
    end.

  Definition connect_node (L : lattice) (begin : nat) (lft : N) (cst : Z) : option (nat * Z) :=
    scan (row L begin) 0%nat lft cst None.

  Fixpoint push_row (L : lattice) (i : nat) (e : entry) : lattice :=
    match L, i with
    | [], _ => []                       (* out of range: the code would panic on ends[end_idx] *)
    | r :: L', O => (r ++ [e]) :: L'
    | r :: L', S i' => r :: push_row L' i' e
    end.

  (* Lattice::insert; returns the new lattice and the cost reported (None = i32::MAX) *)
  Definition insert (L : lattice) (n : node) : lattice * option Z :=
    match connect_node L (nbeg n) (nleft n) (ncost n) with
    | None => (push_row L (nend n) (mkEntry (Some n) None None), None)
    | Some (i, c) => (push_row L (nend n) (mkEntry (Some n) (Some c) (Some (nbeg n, i))), Some c)
    end.

  Definition insert_all (L : lattice) (ns : list node) : lattice :=
    fold_left (fun L n => fst (insert L n)) ns L.

  (* the same, also recording what every insert returned *)
  Fixpoint insert_trace (L : lattice) (ns : list node) : lattice * list (option Z) :=
    match ns with
    | [] => (L, [])
    | n :: t => let '(L', c) := insert L n in
                let '(L'', cs) := insert_trace L' t in (L'', c :: cs)
    end.

  (* connect_eos: the EOS node spans [size-1, size-1], left id 0, cost 0 *)
  Definition connect_eos (L : lattice) : option (nat * nat * Z) :=
    let len := (length L - 1)%nat in
    match connect_node L len 0%N 0 with
    | None => None                      (* Err(EosBosDisconnect) *)
    | Some (i, c) => Some (len, i, c)
    end.

  Definition get (L : lattice) (p : nat * nat) : option entry := nth_error (row L (fst p)) (snd p).

  (* fill_top_path: from the EOS predecessor follow `indices` until a predecessor in row 0 (BOS).
     Returns the entries from last to first.  Fuel = number of rows. *)
  Fixpoint walk (L : lattice) (fuel : nat) (p : nat * nat) : option (list entry) :=
    match fuel with
    | O => None
    | S f =>
        match get L p with
        | None => None
        | Some e =>
            match eprev e with
            | None => None
            | Some q => if Nat.eqb (fst q) 0 then Some [e]
                        else match walk L f q with
                             | None => None
                             | Some es => Some (e :: es)
                             end
            end
        end
    end.

  Definition top_path (L : lattice) : option (list entry) :=
    match connect_eos L with
    | None => None
    | Some (r, i, _) => option_map (@rev entry) (walk L (length L) (r, i))
    end.

  (* ---------- specification side ---------- *)
  (* cost of a segmentation, left to right: connection from the previous right id, word cost, ...,
     and finally the connection to EOS (left id 0, cost 0) *)
  Fixpoint cost_from (prev : N) (p : list node) : Z :=
    match p with
    | [] => conn prev 0%N
    | n :: t => conn prev (nleft n) + ncost n + cost_from (nright n) t
    end.
  Definition path_cost (p : list node) : Z := cost_from 0%N p.

  (* cumulative cost up to and including the k-th node (what Morpheme::total_cost reports in mode C) *)
  Fixpoint prefix_costs (prev : N) (acc : Z) (p : list node) : list Z :=
    match p with
    | [] => []
    | n :: t => let a := acc + conn prev (nleft n) + ncost n in a :: prefix_costs (nright n) a t
    end.

  (* p covers [from, to) contiguously with candidates taken from ns *)
  Fixpoint chain (ns : list node) (from to : nat) (p : list node) : Prop :=
    match p with
    | [] => from = to
    | n :: t => In n ns /\ nbeg n = from /\ (nbeg n < nend n)%nat /\ chain ns (nend n) to t
    end.
End WithConn.

(* insertion order assumed by Lattice::insert ("lattice for all previous boundaries is already constructed"):
   non-decreasing begin, begin < end, end within the lattice *)
Fixpoint sorted_from (lo : nat) (ns : list node) : Prop :=
  match ns with
  | [] => True
  | n :: t => (lo <= nbeg n)%nat /\ sorted_from (nbeg n) t
  end.
Definition nodes_ok (len : nat) (ns : list node) : Prop :=
  sorted_from 0 ns /\ forall n, In n ns -> (nbeg n < nend n)%nat /\ (nend n <= len)%nat.

Fixpoint sorted_fromb (lo : nat) (ns : list node) : bool :=
  match ns with
  | [] => true
  | n :: t => Nat.leb lo (nbeg n) && sorted_fromb (nbeg n) t
  end.
Definition nodes_okb (len : nat) (ns : list node) : bool :=
  sorted_fromb 0 ns && forallb (fun n => Nat.ltb (nbeg n) (nend n) && Nat.leb (nend n) len) ns.
