(* Model of the index construction of the dictionary builder: IndexBuilder (dic/build/index.rs) as driven by
   DictBuilder::write_index (dic/build/mod.rs).  Executable definitions only.
   rows = the records of the lexicon CSV in file order (Model/LexSet.v `row` = surface bytes, left id). *)
From Coq Require Import String List NArith ZArith Bool.
From SudachiVerif Require Generated.IndexFacts.
From SudachiVerif Require Import Model.Harness Model.Trie Model.WordIdTable Model.LexSet.
Import ListNotations.
Open Scope N_scope.

Module IF := Generated.IndexFacts.

(* one entry of IndexBuilder.data: key and the ids pushed so far; the list is the IndexMap in insertion order *)
Notation group := (list N * list N)%type (only parsing).

(* IndexBuilder::add = data.entry(key).or_default().ids.push(id): an existing key keeps its place and gets the id appended,
   a new key goes to the end.  (`append_to_existing` is re-read from the source.) *)
Fixpoint index_add (m : list group) (k : list N) (id : N) : list group :=
  match m with
  | [] => [(k, [id])]
  | (k', ids) :: t =>
      if bytes_eqb k' k then (k', if IF.append_to_existing then ids ++ [id] else [id]) :: t
      else (k', ids) :: index_add t k id
  end.

(* the loop of write_index: `for (i, e) in entries.iter().enumerate() { if e.should_index() { add(surface, WordId(0, i)) } }`
   i counts all rows, cnt only the indexed ones (`ids_are_row_numbers` is re-read from the source) *)
Fixpoint index_rows (m : list group) (i cnt : N) (rows : list row) : list group :=
  match rows with
  | [] => m
  | r :: t =>
      if builder_indexes (snd r)
      then index_rows (index_add m (fst r) (if IF.ids_are_row_numbers then i else cnt)) (i + 1) (cnt + 1) t
      else index_rows m (i + 1) cnt t
  end.

Definition index_groups (rows : list row) : list group := index_rows [] 0 0 rows.

(* build_word_id_table then build_trie: table bytes, and the (key, table offset) pairs handed to the trie builder
   (before sorting; None = a group of more than 127 ids is rejected) *)
Definition index_table (rows : list row) : option (list N * list (list N * N)) :=
  let gs := index_groups rows in
  match encode_groups (map snd gs) with
  | None => None
  | Some (tbl, offs) => Some (tbl, combine (map fst gs) offs)
  end.

(* ---- specification side ---- *)
(* surfaces of the indexed rows in order of first occurrence *)
Definition add_key (ks : list (list N)) (k : list N) : list (list N) :=
  if existsb (bytes_eqb k) ks then ks else ks ++ [k].
Definition first_occurrences (l : list (list N)) : list (list N) := fold_left add_key l [].
Definition indexed_surfaces (rows : list row) : list (list N) := map fst (filter indexed rows).

(* ---- correspondence: the model's table against the compiled bytes ---- *)
Definition kv_eqb (a b : list N * N) : bool := bytes_eqb (fst a) (fst b) && (snd a =? snd b).

(* the word-id table section of the file is byte for byte what the model writes, and the keys with their values that the
   verified enumerator reads out of the trie section are exactly the model's (key, offset) pairs *)
Definition index_cert (L : lexicon) (rows : list row) (fuel : nat) : bool :=
  match index_table rows, keys_of (lx_trie L) fuel with
  | Some (tbl, kos), Some ks => list_eqb N.eqb tbl (lx_table L) && perm_b kv_eqb kos ks
  | _, _ => false
  end.

(* ---------- correspondence-check entry for C04 (extends Model/LexSet.v check_case_c04) ----------
   additionally, per dictionary: the model of IndexBuilder run on the CSV rows reproduces the word-id table section byte for
   byte and exactly the (key, value) pairs the verified enumerator reads out of the trie section; every surface is a whole
   number of UTF-8 characters (hypothesis of C04_lookup_lattice_nodes_wf) *)
Definition check_case_c04i (dics : list (string * string * list (string * Z))) (fuel : nat)
           (queries : list (string * list (list (N * N)))) (exacts : list (string * list N)) : bool :=
  check_case_c04 dics fuel queries exacts
  && forallb (fun d => index_cert (dec_lex (fst d)) (dec_rows (snd d)) fuel
                       && forallb (fun r => chars_ok_b (fst r)) (dec_rows (snd d))) dics.

(* ---------- correspondence: a hand-made double array fed straight to the reader ----------
   trie = the array (little-endian units, zero runs compressed); keys = the key set it was laid out from;
   queries = (text, what common_prefix_iterator returned at offset 0 .. |text|).
   The verified enumerator must read exactly the key set out of the array and the reader model must agree with the
   implementation at every offset. *)
Fixpoint check_raw_offsets (a : list N) (text : list N) (off : nat) (outs : list (list (N * N))) : bool :=
  match outs with
  | [] => true
  | o :: t => list_eqb we_eqb (traverse a text off) o && check_raw_offsets a text (S off) t
  end.

Definition check_case_c04_raw (trie : string) (fuel : nat) (keys : list (string * N))
           (queries : list (string * list (list (N * N)))) : bool :=
  let a := u32s_of_bytes (hexz_bytes trie) in
  match keys_of a fuel with
  | None => false
  | Some ks => perm_b kv_eqb (map (fun k => (hex_bytes (fst k), snd k)) keys) ks
  end
  && forallb (fun q => let text := hex_bytes (fst q) in
                       (length (snd q) =? S (length text))%nat && check_raw_offsets a text 0 (snd q)) queries.

(* ---------- a lexicon read from several files ----------
   DictBuilder::read_lexicon appends the records of a file to the entries read so far (LexiconReader::read_record pushes;
   nothing is cleared, sorted or de-duplicated between calls), write_index then numbers ALL entries.  Reading files f1 .. fn one
   after the other with a running word number: state = (index so far, next word number, number of indexed words so far) *)
Definition read_file (st : list group * N * N) (f : list row) : list group * N * N :=
  match st with
  | (m, i, cnt) => (index_rows m i cnt f, i + N.of_nat (length f), cnt + N.of_nat (length (filter (fun r => builder_indexes (snd r)) f)))
  end.
Definition read_files (fs : list (list row)) : list group * N * N := fold_left read_file fs ([], 0, 0).
