(* C09 at the level a dictionary author writes: the stack of lexicon sources (system dictionary first, then the user
   dictionaries in load order), each a list of rows in the vocabulary of the C05 codec model (Model/CodecResolve.v:
   index form = column 0, the other columns, split columns 15/16 as written: word-id references or inline
   `surface,pos,reading` references).  From the rows alone this file computes
     - the key of a (global) word id, the global ids of the units a word declares (resolution as DictBuilder::resolve does
       it -- own rows first, then the system dictionary by headword --, then LexiconSet::update_dict_id), and
     - rows_units_ok: "the keys of the declared units concatenate to the word's key and none is empty",
   and, for a stack of compiled files, what the loaded LexiconSet reports (head_word_length, unit lists).
   Executable definitions only; the composition theorems are in Proofs/SplitDict.v. *)
From Coq Require Import List NArith ZArith Bool.
From SudachiVerif Require Import Model.Codec Model.CodecResolve.
Import ListNotations.
Open Scope N_scope.

Definition srcs := list (list rrow).

(* RawLexiconEntry as parse_record builds it: write_word_info writes `self.surface.len()` of the column-0 string *)
Definition from_csv (r : rrow) : Prop := e_surface_len (r_entry r) = utf8_len (r_surface r).
Definition csv_row (r : rrow) : rrow :=
  let e := r_entry r in
  mkRow (r_surface r)
        (mkEntry (e_headword e) (utf8_len (r_surface r)) (e_pos e) (e_norm e) (e_dic_form e) (e_reading e) (e_splits_a e)
                 (e_splits_b e) (e_word_structure e) (e_synonyms e) (e_left e) (e_right e) (e_cost e))
        (r_a r) (r_b r).

Definition dic_part (w : N) : N := w / DIC.
Definition word_part (w : N) : N := w mod DIC.

Definition rows_of (ds : srcs) (d : N) : list rrow := nth (N.to_nat d) ds [].
(* (the guard keeps N.to_nat away from the word parts of special ids -- 2^28 - 1 for merged tokens -- when the model is run) *)
Definition src_row (ds : srcs) (w : N) : option rrow :=
  let rows := rows_of ds (dic_part w) in
  if word_part w <? N.of_nat (List.length rows) then nth_error rows (N.to_nat (word_part w)) else None.
Definition src_key (ds : srcs) (w : N) : text := match src_row ds w with Some r => r_surface r | None => [] end.

(* the keys BinDictResolver has for the system dictionary: headword, POS, stored reading of every system row *)
Definition sys_keys (ds : srcs) : list rkey := map (fun r => sys_key (r_entry r)) (rows_of ds 0).

(* DictBuilder::resolve for the dictionary with id d: a system dictionary resolves against its own rows only, a user
   dictionary against its own rows (stamped 1) and then the system dictionary *)
Definition src_resolve_units (ds : srcs) (d : N) (us : list split_unit) : option (list N) :=
  resolve_units (if d =? 0 then 0 else 1) (map own_key (rows_of ds d)) (if d =? 0 then [] else sys_keys ds) us.

(* LexiconSet::update_dict_id: a stored id with dictionary part > 0 belongs to the dictionary the word was read from *)
Definition global_of (d raw : N) : N := if 0 <? raw / DIC then d * DIC + raw mod DIC else raw.

(* global ids of the units word w declares for mode A (a = true) / B, from the rows alone; None: no such row, or a
   reference that does not resolve (the build fails) *)
Definition src_units (ds : srcs) (a : bool) (w : N) : option (list N) :=
  match src_row ds w with
  | None => None
  | Some r => option_map (map (global_of (dic_part w))) (src_resolve_units ds (dic_part w) (if a then r_a r else r_b r))
  end.

Definition nonempty (t : text) : bool := match t with [] => false | _ => true end.

(* the condition a dictionary author can check: the keys of the declared units concatenate to the key of the word, and
   every unit exists and has a non-empty key *)
Definition rows_units_ok (ds : srcs) (a : bool) (w : N) : bool :=
  match src_units ds a w with
  | None => false
  | Some us => text_eqb (concat (map (src_key ds) us)) (src_key ds w) && forallb (fun u => nonempty (src_key ds u)) us
  end.

(* ---------- the loaded side: one compiled file per dictionary ---------- *)
Record compiled := mkComp { cp_file : bytes; cp_off : N }.   (* file and position of its words section *)

(* LexiconSet::get_word_info_subset(id, all fields) over the stack; nsp / po: num_system_pos and pos_offsets[d] *)
Definition ld_info (cs : list compiled) (nsp : N) (po : N -> N) (w : N) : option winfo :=
  match nth_error cs (N.to_nat (dic_part w)) with
  | Some c => lexset_get (lexicon_of_file (cp_file c) (cp_off c)) true (dic_part w) nsp (po (dic_part w)) (word_part w) ALL
  | None => None
  end.

(* WordInfo::head_word_length / a_unit_split / b_unit_split of the loaded word *)
Definition ld_hw (cs : list compiled) (nsp : N) (po : N -> N) (w : N) : N :=
  match ld_info cs nsp po w with Some i => as_num (accessor A_hwlen i) | None => 0 end.
Definition ld_units (cs : list compiled) (nsp : N) (po : N -> N) (a : bool) (w : N) : list N :=
  match ld_info cs nsp po w with Some i => as_arr (accessor (if a then A_a else A_b) i) | None => [] end.

(* ---------- correspondence-check entry: the user-facing form of the oracle ---------- *)
From SudachiVerif Require Model.Split.
From SudachiVerif Require Import Model.Harness.

(* constructors for the case files: a row as written (the written length is produced by csv_row), its split units *)
Definition row (key head reading : text) (pos : N) (a b : list split_unit) : rrow :=
  csv_row (mkRow key (mkEntry head 0 pos [] 4294967295 reading [] [] [] [] 0%Z 0%Z 0%Z) a b).
Definition uref (raw : N) : split_unit := SRef raw.
Definition uinl (surface : text) (pos : N) (reading : text) : split_unit := inline_of surface pos reading.

(* original-text ranges of the sub-tokens the rows prescribe for a token that starts at modified byte `off`:
   unit j spans the bytes of its key *)
Fixpoint expected_ranges (ds : srcs) (m2o : list N) (off : N) (us : list N) : option (list (N * (N * N))) :=
  match us with
  | [] => Some []
  | u :: r =>
      let off' := off + utf8_len (src_key ds u) in
      match nth_error m2o (N.to_nat off), nth_error m2o (N.to_nat off'), expected_ranges ds m2o off' r with
      | Some x, Some y, Some l => Some ((u, (x, y)) :: l)
      | _, _, _ => None
      end
  end.

Definition range_eqb (a : N * (N * N)) (b : Model.Split.otoken) : bool :=
  let '(w, (x, y)) := a in let '(w', (x', y', _)) := b in (w =? w') && (x =? x') && (y =? y').

Definition source_ok_mode (ds : srcs) (t m2o : list N) (a : bool) (cb ce w : N) (stored : list N)
           (sp : option (bool * list Model.Split.otoken)) : bool :=
  match src_row ds w with
  | None => true                                   (* not a dictionary word (OOV) *)
  | Some _ =>
    match src_units ds a w with
    | None => false
    | Some us =>
      (* the loaded unit list is the one computed from the rows (C09_loaded_units_are_source_units) *)
      nlist_eqb us stored &&
      (* a C token covers the key of its word *)
      text_eqb (Model.Split.slice t cb ce) (src_key ds w) &&
      (* whenever the author's condition holds, the implementation's sub-tokens are the declared units, each over the
         bytes of its key (C09_split_into_exact_from_source) *)
      (if rows_units_ok ds a w && match us with [] => false | _ => true end then
         match sp, expected_ranges ds m2o (Model.Split.c2b t cb) us with
         | Some (true, subs), Some ex =>
             (N.of_nat (List.length ex) =? N.of_nat (List.length subs)) && forallb (fun p => range_eqb (fst p) (snd p)) (combine ex subs)
         | _, _ => false
         end
       else true)
    end
  end.

(* srcs: the rows of every dictionary of the stack; the other arguments as in Model.Split.check_case *)
Definition check_source (ds : srcs) (t m2o : list N) (cp : list (N * N * N)) (iu : list (list N * list N))
           (sa sb : list (option (bool * list Model.Split.otoken))) : bool :=
  (N.of_nat (List.length iu) =? N.of_nat (List.length cp)) && (N.of_nat (List.length sa) =? N.of_nat (List.length cp)) &&
  (N.of_nat (List.length sb) =? N.of_nat (List.length cp)) &&
  forallb (fun q => let '(c, u, (x, y)) := q in let '(cb, ce, w) := c in
                    source_ok_mode ds t m2o true cb ce w (fst u) x && source_ok_mode ds t m2o false cb ce w (snd u) y)
          (combine (combine cp iu) (combine sa sb)).

(* how many (token, mode) pairs of a case satisfy the author's condition with at least one unit: reported so that the
   evidence shows the oracle is exercised *)
Definition count_units_ok (ds : srcs) (cp : list (N * N * N)) : N :=
  fold_left (fun n c => let '(_, _, w) := c in
                        n + (if rows_units_ok ds true w then 1 else 0) + (if rows_units_ok ds false w then 1 else 0)) cp 0.
