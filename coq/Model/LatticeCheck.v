(* Entry points of the C02 correspondence shards: the machine-level model is compared with what the
   implementation returned, and the property predicate (optimal cost, totals = prefix sums) is evaluated on the
   implementation's own output using the exact model proved optimal in Proofs/LatticeProofs.v. *)
From Coq Require Import List ZArith NArith Bool Arith String.
From SudachiVerif Require Import Model.Harness Model.Lattice Model.LatticeM.
From SudachiVerif Require Generated.ConnFacts.
Import ListNotations.
Open Scope Z_scope.

(* the connection matrix as the code reads it: data[index(left, right)] *)
Definition conn_tbl (num_left num_right : N) (data : list Z) (l r : N) : Z :=
  nth (N.to_nat (Generated.ConnFacts.conn_index l r num_left num_right)) data 0.

Definition node_eqb (a b : node) : bool :=
  Nat.eqb (nbeg a) (nbeg b) && Nat.eqb (nend a) (nend b) && N.eqb (nleft a) (nleft b) &&
  N.eqb (nright a) (nright b) && Z.eqb (ncost a) (ncost b).

Fixpoint chainb (ns : list node) (from to : nat) (p : list node) : bool :=
  match p with
  | [] => Nat.eqb from to
  | n :: t => existsb (node_eqb n) ns && Nat.eqb (nbeg n) from && Nat.ltb (nbeg n) (nend n) && chainb ns (nend n) to t
  end.

Definition zabs_max (l : list Z) : Z := fold_left (fun a x => Z.max a (Z.abs x)) l 0.

(* decidable side condition of i32_exact_if_bounded *)
Definition bounded_case (len : nat) (data : list Z) (ns : list node) : bool :=
  (Z.of_nat len + 1) * (zabs_max data + zabs_max (map ncost ns)) <? MAX32.

Definition ids_in_range (num_left num_right : N) (ns : list node) : bool :=
  forallb (fun n => N.ltb (nright n) num_left && N.ltb (nleft n) num_right) ns && N.ltb 0 num_left && N.ltb 0 num_right.

Definition opt_nodes (es : list (option entry)) : option (list node) :=
  fold_right (fun oe acc => match oe, acc with
                            | Some e, Some l => match enode e with Some n => Some (n :: l) | None => None end
                            | _, _ => None end) (Some []) es.

(* impl = None: the implementation panicked.
   Some (costs returned by every insert, eos) with eos = None (EosBosDisconnect) or
   Some (eos cost, best path as (end, index) first to last, stored total of every path node) *)
(* raw = true: data is the stored array, read through the regenerated index formula (unit level);
   raw = false: data is the canonical table of the matrix *text*, data[r * num_left + l] = cost(left l, right r) (pipeline level) *)
Definition conn_canon (num_left : N) (data : list Z) (l r : N) : Z :=
  nth (N.to_nat (r * num_left + l)) data 0.

Definition check_lattice (checked raw : bool) (num_left num_right : N) (data : list Z) (len : nat) (ns : list node)
           (impl : option (list Z * option (Z * list (nat * nat) * list Z))) : bool :=
  let conn := if raw then conn_tbl num_left num_right data else conn_canon num_left data in
  (* 1. correspondence with the machine-level model *)
  let machine_ok :=
    match minsert_all checked conn (mreset len) ns, impl with
    | Panic, None => true
    | Ok (L, cs), None => match mconnect_eos checked conn L with Panic => true | _ => false end
    | Ok (L, cs), Some (icosts, ieos) =>
        list_eqb Z.eqb cs icosts &&
        match mconnect_eos checked conn L, ieos with
        | Ok None, None => true
        | Ok (Some (_, _, c)), Some (ic, _, _) => c =? ic
        | _, _ => false
        end
    | _, _ => false
    end in
  (* 2. the property itself, on the implementation's output, against the exact (proved) model *)
  let property_ok :=
    if bounded_case len data ns then
      let L := insert_all conn (reset len) ns in
      match impl with
      | None => false                         (* within the bound nothing may panic *)
      | Some (_, ieos) =>
          match connect_eos conn L, ieos with
          | None, None => true
          | Some (_, _, c), Some (ic, ipath, itotals) =>
              (c =? ic) &&
              match opt_nodes (map (get L) ipath) with
              | Some p => chainb ns 0 len p && (path_cost conn p =? ic) &&
                          list_eqb Z.eqb (prefix_costs conn 0%N 0 p) itotals
              | None => false
              end
          | _, _ => false
          end
      end
    else true in
  nodes_okb len ns && ids_in_range num_left num_right ns && machine_ok && property_ok.
