(* Entry points of the C05 / C11 correspondence cases (evaluated by vm_compute in the generated case files). *)
From Coq Require Import List NArith ZArith Bool String.
From SudachiVerif Require Import Model.Codec Model.CodecConn Model.CodecResolve Model.CodecCsv.
From SudachiVerif Require Generated.FieldOrder.
From SudachiVerif Require Model.Trie Model.LexSet Model.IndexBuild.
Import ListNotations.
Open Scope N_scope.

(* ------------------------------------------------------------------ other sections of the file *)
(* Header::write_to: version u64, create_time u64, description padded with zeros to 256 bytes *)
Definition le64 (n : N) : bytes := le32 (n mod 4294967296) ++ le32 (n / 4294967296).
Definition header_bytes (version time : N) (descr : bytes) : bytes :=
  le64 version ++ le64 time ++ descr ++ repeat 0 (256 - List.length descr).

(* connection matrix: Model/CodecConn.v (the model C05_matrix_roundtrip is about); the harness hands over N values *)
Definition zlines (lines : list (N * N * Z)) : list cline :=
  map (fun t => let '(l, r, c) := t in (Z.of_N l, Z.of_N r, c)) lines.
Definition conn_section_of (nl nr : N) (lines : list (N * N * Z)) : option bytes :=
  option_map (conn_section (Z.of_N nl) (Z.of_N nr)) (conn_compile (Z.of_N nl) (Z.of_N nr) (zlines lines)).

(* ------------------------------------------------------------------ what the harness read back through the public API *)
Inductive readback :=
| RB (surface : text) (hwlen pos : N) (norm : text) (dfwi : Z) (dicform reading : text) (a b ws syn : list N) (left right cost : Z)
| RBFail.   (* Err or panic *)

Definition rb_of_info (i : winfo) (p : Z * Z * Z) : readback :=
  RB (as_text (accessor A_surface i)) (as_num (accessor A_hwlen i)) (as_num (accessor A_pos i)) (as_text (accessor A_norm i))
     (as_int (accessor A_dfwi i)) (as_text (accessor A_dicform i)) (as_text (accessor A_reading i))
     (as_arr (accessor A_a i)) (as_arr (accessor A_b i)) (as_arr (accessor A_ws i)) (as_arr (accessor A_syn i))
     (fst (fst p)) (snd (fst p)) (snd p).

Definition rb_eqb (x y : readback) : bool :=
  match x, y with
  | RB s1 h1 p1 n1 d1 f1 r1 a1 b1 w1 y1 l1 g1 c1, RB s2 h2 p2 n2 d2 f2 r2 a2 b2 w2 y2 l2 g2 c2 =>
      nlist_eqb s1 s2 && (h1 =? h2) && (p1 =? p2) && nlist_eqb n1 n2 && (d1 =? d2)%Z && nlist_eqb f1 f2 && nlist_eqb r1 r2
      && nlist_eqb a1 a2 && nlist_eqb b1 b2 && nlist_eqb w1 w2 && nlist_eqb y1 y2 && (l1 =? l2)%Z && (g1 =? g2)%Z && (c1 =? c2)%Z
  | RBFail, RBFail => true
  | _, _ => false
  end.

(* the lexicon as the reader sees it: for each word the bytes of the words section from its offset on.
   words = the words section (starts at file position `offset`) *)
(* the harness hands over the words section only (the trie is not modelled); the reader model of Model/Codec.v
   (lexicon_of_file, file_params: the functions C05_lexicon_roundtrip is about) works on the file with absolute
   positions, so the section is put back at its position behind a zero prefix *)
Definition file_of (offset : N) (words : bytes) : bytes := repeat 0 (N.to_nat offset) ++ words.
Definition lexicon_of (offset : N) (words : bytes) : lexicon := lexicon_of_file (file_of offset words) offset.

(* reading word wid of dictionary dict_id through the model of LexiconSet::get_word_info_subset *)
Definition model_readback (lx : lexicon) (file : bytes) (offset : N) (dict_id nsys pos_offset wid : N) : readback :=
  match lexset_get lx true dict_id nsys pos_offset wid ALL, file_params file offset wid with
  | Some i, Some p => rb_of_info i p
  | _, _ => RBFail
  end.

(* what C05 demands: the declared entry (ids as the oracle resolved them, references re-stamped to the dictionary),
   dictionary form text df *)
(* POS ids of a user dictionary are numbered behind the system POS when it is compiled (nsys + k); loaded as dictionary
   dict_id they are reported behind everything the grammar holds when it is merged: pos_offset + k *)
Definition expected_readback (dict_id nsys pos_offset : N) (e : entry) (df : text) : readback :=
  RB (e_headword e) (e_surface_len e)
     (if (0 <? dict_id) && (nsys <=? e_pos e) then e_pos e - nsys + pos_offset else e_pos e) (or_headword e (e_norm e)) (to_i32 (e_dic_form e)) df
     (or_headword e (e_reading e)) (restamp dict_id (e_splits_a e)) (restamp dict_id (e_splits_b e))
     (restamp dict_id (e_word_structure e)) (e_synonyms e) (e_left e) (e_right e) (e_cost e).

Fixpoint forall3 {A B C} (f : A -> B -> C -> bool) (x : list A) (y : list B) (z : list C) : bool :=
  match x, y, z with
  | [], [], [] => true
  | a :: x', b :: y', c :: z' => f a b c && forall3 f x' y' z'
  | _, _, _ => false
  end.
Fixpoint iota (k : nat) (from : N) : list N := match k with O => [] | S k' => from :: iota k' (N.succ from) end.

(* one compiled dictionary.  skip_words: word ids whose read-back is exempt from the "equals declared" predicate
   (none on a tree without findings); the model/implementation comparison still covers them. *)
Definition check_c05
  (version time : N) (descr impl_header : bytes)
  (pos_rows : list (list text)) (impl_pos : bytes)
  (nl nr : N) (lines : list (N * N * Z)) (impl_conn : bytes) (conn_reads : list (N * N * Z))
  (offset : N) (es : list entry) (impl_words : bytes)
  (dict_id nsys pos_offset : N) (dfs : list text) (rbs : list readback) : bool :=
  nlist_eqb (header_bytes version time descr) impl_header
  && obytes_eqb (pos_table_bytes pos_rows) impl_pos
  && obytes_eqb (conn_section_of nl nr lines) impl_conn
  && forallb (fun t => let '(l, r, c) := t in
                match section_cost impl_conn (Z.of_N l) (Z.of_N r) with
                | Some m => (m =? c)%Z && (c =? declared (zlines lines) (Z.of_N l) (Z.of_N r))%Z
                | None => false
                end) conn_reads
  && obytes_eqb (write_words_section offset es) impl_words
  && (let file := file_of offset impl_words in
      let lx := lexicon_of_file file offset in
      forall3 (fun wid e_df rb => rb_eqb (model_readback lx file offset dict_id nsys pos_offset wid) rb
                                  && rb_eqb (expected_readback dict_id nsys pos_offset (fst e_df) (snd e_df)) rb)
              (iota (List.length es) 0) (combine es dfs) rbs).

(* the same for a dictionary with a known-finding entry: everything is compared except that for the listed word ids
   the implementation's read-back (RBFail or a foreign dictionary form) is only compared with the model's *)
Definition check_c05_model_only
  (offset : N) (es : list entry) (impl_words : bytes) (dict_id nsys pos_offset : N) (rbs : list readback) : bool :=
  obytes_eqb (write_words_section offset es) impl_words
  && (let file := file_of offset impl_words in
      let lx := lexicon_of_file file offset in
      forall3 (fun wid (_ : entry) rb => rb_eqb (model_readback lx file offset dict_id nsys pos_offset wid) rb)
              (iota (List.length es) 0) es rbs).

(* the same with the split columns as written in the CSV: the Resolve model (Model/CodecResolve.v, the one
   C05_resolve_sound is about) turns the rows into entries; `sys` = entries of the system dictionary a user dictionary
   is compiled against *)
Definition check_c05_rows
  (version time : N) (descr impl_header : bytes)
  (pos_rows : list (list text)) (impl_pos : bytes)
  (nl nr : N) (lines : list (N * N * Z)) (impl_conn : bytes) (conn_reads : list (N * N * Z))
  (offset : N) (user : bool) (rows : list rrow) (sys : list entry) (impl_words : bytes)
  (dict_id nsys pos_offset : N) (dfs : list text) (rbs : list readback) : bool :=
  match resolve_rows user rows sys with
  | Some es => check_c05 version time descr impl_header pos_rows impl_pos nl nr lines impl_conn conn_reads
                         offset es impl_words dict_id nsys pos_offset dfs rbs
  | None => false
  end.
Definition check_c05_model_only_rows
  (offset : N) (user : bool) (rows : list rrow) (sys : list entry) (impl_words : bytes)
  (dict_id nsys pos_offset : N) (rbs : list readback) : bool :=
  match resolve_rows user rows sys with
  | Some es => check_c05_model_only offset es impl_words dict_id nsys pos_offset rbs
  | None => false
  end.

(* the same from the CSV fields as they come out of the csv crate (escapes, number and id literals, `*`, lists,
   inline references as text): Model/CodecCsv.v parses the records and numbers the POS, the Resolve model resolves,
   the codec writes.  For a user dictionary `sys_rows` are the fields of the system lexicon it is compiled against
   (its POS are preloaded, its entries are what BinDictResolver sees). *)
Definition parse_stack (user : bool) (sys_rows rows : list (list text)) : res (list posrow * list posrow * list entry * list rrow) :=
  do sys <- (if user then
               do r <- parse_records [] sys_rows;
               match resolve_rows false (snd r) [] with
               | Some es => ROk (fst r, es)
               | None => RErr ESplitFormat
               end
             else ROk ([], []));
  do r <- parse_records (fst sys) rows;
  ROk (fst sys, skipn (List.length (fst sys)) (fst r), snd sys, snd r).

(* the index: builder C's model of IndexBuilder / write_index (Model/IndexBuild.v) run on the parsed rows -- key = UTF-8
   bytes of the index form, indexed iff left_id >= 0, ids = record numbers -- reproduces the word-id table section byte
   for byte and exactly the (key, offset) pairs the verified enumerator reads out of the trie section (index_cert, the
   hypothesis of C04_lookup_exact_of_index_model and of C05_lookup_roundtrip) *)
Definition index_rows_of (rrows : list rrow) : list LexSet.row :=
  map (fun r => (utf8_bytes (r_surface r), e_left (r_entry r))) rrows.
Definition lex_of_sections (impl_trie impl_table : bytes) : LexSet.lexicon :=
  LexSet.mkLex (Trie.u32s_of_bytes impl_trie) impl_table.
Definition check_c05_csv
  (version time : N) (descr impl_header : bytes) (impl_pos : bytes)
  (nl nr : N) (lines : list (N * N * Z)) (impl_conn : bytes) (conn_reads : list (N * N * Z))
  (offset : N) (user : bool) (sys_rows rows : list (list text)) (impl_words : bytes)
  (dict_id nsys pos_offset : N) (dfs : list text) (rbs : list readback)
  (idx : option (bytes * bytes * nat)) : bool :=          (* trie section, word-id table section, longest key + 1 *)
  match parse_stack user sys_rows rows with
  | ROk (sys_pos, new_pos, sys_es, rrows) =>
      (if user then N.of_nat (List.length sys_pos) =? nsys else true)
      && (match idx with
          | Some (impl_trie, impl_table, fuel) =>
              IndexBuild.index_cert (lex_of_sections impl_trie impl_table) (index_rows_of rrows) fuel
          | None => true
          end)
      && check_c05_rows version time descr impl_header new_pos impl_pos nl nr lines impl_conn conn_reads
                        offset user rrows sys_es impl_words dict_id nsys pos_offset dfs rbs
  | RErr _ => false
  end.
Definition check_c05_model_only_csv
  (offset : N) (sys_rows rows : list (list text)) (impl_words : bytes)
  (dict_id nsys pos_offset : N) (rbs : list readback) : bool :=
  match parse_stack true sys_rows rows with
  | ROk (_, _, sys_es, rrows) => check_c05_model_only_rows offset true rrows sys_es impl_words dict_id nsys pos_offset rbs
  | RErr _ => false
  end.

(* a lexicon the compiler must refuse: the model refuses it with the same kind of error (and the same digits for an
   escape that names no scalar value) *)
Definition err_code (e : err) : N * text :=
  match e with
  | ESize => (1, []) | EChar d => (2, d) | EI16 => (3, []) | EU32 => (4, []) | EWordId => (5, []) | EMode => (6, [])
  | ESplitFormat => (7, []) | ENoField _ => (8, []) | EPosLimit => (9, []) | EModeASplits => (10, [])
  | EEmptySurface => (11, []) | ENulSurface => (12, [])
  end.
Definition check_c05_reject (rows : list (list text)) (code : N) (digits : text) : bool :=
  match parse_records [] rows with
  | ROk _ => false
  | RErr e => (fst (err_code e) =? code) && nlist_eqb (snd (err_code e)) digits
  end.

(* ------------------------------------------------------------------ C11 *)
(* raw WordInfoData as the implementation returned it for one subset *)
Definition raw_of_info (i : winfo) : readback :=
  RB (as_text (i F_surface)) (as_num (i F_hwlen)) (as_num (i F_pos)) (as_text (i F_norm)) (as_int (i F_dfwi))
     (as_text (i F_dicform)) (as_text (i F_reading)) (as_arr (i F_a)) (as_arr (i F_b)) (as_arr (i F_ws)) (as_arr (i F_syn)) 0 0 0.
Definition info_of_raw (r : readback) : option winfo :=
  match r with
  | RB s h p n d f rd a b w y _ _ _ =>
      Some (fun g => match g with
                     | F_surface => VText s | F_hwlen => VNum h | F_pos => VNum p | F_norm => VText n | F_dfwi => VInt d
                     | F_dicform => VText f | F_reading => VText rd | F_a => VArr a | F_b => VArr b | F_ws => VArr w | F_syn => VArr y
                     end)
  | RBFail => None
  end.

(* one word of a loaded dictionary, all requested subsets in `subsets` (requested s -> loaded normalize s):
   distinct = the distinct raw results of the implementation, idx = for each subset the index of its result;
   model raw result = implementation raw result, and every requested accessor = accessor after the full load *)
Definition check_c11_word (offset : N) (words : bytes) (has_syn : bool) (dict_id nsys pos_offset wid : N)
  (full : readback) (distinct : list readback) (subsets : list (N * N)) : bool :=
  let lx := lexicon_of offset words in
  match info_of_raw full with
  | None => false
  | Some ifull =>
      rb_eqb (match lexset_get lx has_syn dict_id nsys pos_offset wid ALL with Some i => raw_of_info i | None => RBFail end) full
      && forallb (fun si =>
           let '(s, idx) := si in
           let L := normalize s in
           let impl := nth (N.to_nat idx) distinct RBFail in
           rb_eqb (match lexset_get lx has_syn dict_id nsys pos_offset wid L with Some i => raw_of_info i | None => RBFail end) impl
           && match info_of_raw impl with
              | None => false
              | Some ii => forallb (fun a => implb (N.testbit s (acc_flag a)) (fval_eqb (accessor a ii) (accessor a ifull))) all_acc
              end) subsets
  end.

(* tokenizer configuration: the subset the implementation ended up with after the two calls, in either order *)
Definition mode_of (n : N) : mode := if n =? 0 then ModeA else if n =? 1 then ModeB else ModeC.
Definition check_c11_order (m0 m s : N) (impl_ms impl_sm : N) : bool :=
  (t_subset (set_subset s (set_mode (mode_of m) (tok_create (mode_of m0)))) =? impl_ms)
  && (t_subset (set_mode (mode_of m) (set_subset s (tok_create (mode_of m0)))) =? impl_sm).

(* sequences of operations on long-lived tokenizers whose results are collected into shared MorphemeLists
   (MorphemeList::collect_results -> StatefulTokenizer::swap_result copies the tokenizer's subset INTO the list and
   leaves the tokenizer's configuration alone).  observed = the subset the list reports right after the collection. *)
Inductive tokop := OpMode (t m : N) | OpSubset (t s : N) | OpCollect (t observed : N).
Fixpoint upd_tok (t : nat) (f : tokcfg -> tokcfg) (ts : list tokcfg) : list tokcfg :=
  match ts, t with
  | [], _ => []
  | x :: r, O => f x :: r
  | x :: r, S k => x :: upd_tok k f r
  end.
Fixpoint run_ops (ts : list tokcfg) (ops : list tokop) : bool :=
  match ops with
  | [] => true
  | OpMode t m :: r => run_ops (upd_tok (N.to_nat t) (set_mode (mode_of m)) ts) r
  | OpSubset t s :: r => run_ops (upd_tok (N.to_nat t) (set_subset s) ts) r
  | OpCollect t obs :: r => (t_subset (nth (N.to_nat t) ts (tok_create ModeC)) =? obs) && run_ops ts r
  end.
Definition check_c11_ops (m0s : list N) (ops : list tokop) : bool :=
  run_ops (map (fun m => tok_create (mode_of m)) m0s) ops.
