(* Model of DefaultInputTextPlugin::read_rewrite_lists (plugin/input_text/default_input_text/mod.rs): the TEXT of a
   rewrite.def -> exempt characters + rewrite table, or the error the loader reports.
   Text = list of Unicode scalar values (the file is read as UTF-8 by BufRead::lines; `trim`, `split_whitespace`,
   `chars().count()` all work on chars).  Executable definitions only. *)
From Coq Require Import List NArith Bool Arith.
From SudachiVerif Require Import Model.Harness Model.Normalize.
Import ListNotations.
Local Open Scope nat_scope.

(* char::is_whitespace = Unicode White_Space (compared with std over all scalar values by the harness on every run) *)
Definition is_ws (c : cp) : bool :=
  ((9 <=? c) && (c <=? 13))%N || (c =? 32)%N || (c =? 133)%N || (c =? 160)%N || (c =? 5760)%N
  || ((8192 <=? c) && (c <=? 8202))%N || (c =? 8232)%N || (c =? 8233)%N || (c =? 8239)%N || (c =? 8287)%N
  || (c =? 12288)%N.
Definition white_space_set : list N :=
  [9; 10; 11; 12; 13; 32; 133; 160; 5760; 8192; 8193; 8194; 8195; 8196; 8197; 8198; 8199; 8200; 8201; 8202; 8232; 8233;
   8239; 8287; 12288]%N.

(* BufRead::lines(): split at '\n' (the '\r' of "\r\n" falls to the trim that follows); no line after a final '\n' *)
Fixpoint lines_aux (cur : text) (l : text) : list text :=
  match l with
  | [] => match cur with [] => [] | _ => [rev cur] end
  | b :: t => if (b =? 10)%N then rev cur :: lines_aux [] t else lines_aux (b :: cur) t
  end.
Definition lines (t : text) : list text := lines_aux [] t.

Fixpoint drop_ws (l : text) : text :=
  match l with b :: t => if is_ws b then drop_ws t else l | [] => [] end.
Definition trim (l : text) : text := rev (drop_ws (rev (drop_ws l))).

(* split_whitespace *)
Fixpoint words_aux (cur : text) (l : text) : list text :=
  match l with
  | [] => match cur with [] => [] | _ => [rev cur] end
  | b :: t => if is_ws b then (match cur with [] => words_aux [] t | _ => rev cur :: words_aux [] t end)
              else words_aux (b :: cur) t
  end.
Definition words (l : text) : list text := words_aux [] l.

Definition HASH : cp := 35%N.

(* what one line is *)
Inductive lkind :=
| LSkip                       (* empty after trim, or first character '#' *)
| LIgn (c : cp)               (* one column of one character: exempt from NFKC *)
| LRule (k v : text)          (* two columns: replace k by v *)
| LBadChar                    (* one column of several characters: "... is not character" *)
| LBadCols.                   (* three or more columns: InvalidDataFormat(i, "") *)

Definition classify (raw : text) : lkind :=
  let l := trim raw in
  match l with
  | [] => LSkip
  | c :: _ =>
      if (c =? HASH)%N then LSkip
      else match words l with
           | [w] => match w with [x] => LIgn x | _ => LBadChar end
           | [k; v] => LRule k v
           | _ => LBadCols
           end
  end.

Inductive rerr := ENotChar | EDup | ECols.
(* Ok: exempt characters and rules in file order (the plugin keeps them in a HashSet / HashMap) *)
Inductive rresult := RdOk (ign : list cp) (tb : table) | RdErr (e : rerr) (line : nat).

Definition has_key (tb : table) (k : text) : bool := existsb (fun kv => text_eqb (fst kv) k) tb.

(* for (i, line) in reader.lines().enumerate() { ... } *)
Fixpoint read_lines (i : nat) (ign : list cp) (tb : table) (ls : list text) : rresult :=
  match ls with
  | [] => RdOk ign tb
  | raw :: rest =>
      match classify raw with
      | LSkip => read_lines (S i) ign tb rest
      | LIgn c => read_lines (S i) (ign ++ [c]) tb rest
      | LRule k v => if has_key tb k then RdErr EDup i else read_lines (S i) ign (tb ++ [(k, v)]) rest
      | LBadChar => RdErr ENotChar i
      | LBadCols => RdErr ECols i
      end
  end.

Definition read_rewrite_def (t : text) : rresult := read_lines 0 [] [] (lines t).

(* ---- declarative reading: the exempt set is the one-column lines, the table the two-column lines, in order ---- *)
Definition ign_of (ks : list lkind) : list cp := flat_map (fun k => match k with LIgn c => [c] | _ => [] end) ks.
Definition rules_of (ks : list lkind) : table := flat_map (fun k => match k with LRule a b => [(a, b)] | _ => [] end) ks.
Definition line_ok (k : lkind) : bool := match k with LBadChar | LBadCols => false | _ => true end.

(* ---- correspondence-check entry points ---- *)
Definition rerr_code (e : rerr) : N := match e with ENotChar => 1 | EDup => 2 | ECols => 3 end%N.

(* status recorded from the implementation: 0 = loaded, (code, line) = InvalidDataFormat(line, ..) of that kind *)
Definition check_rewrite_load (deftext : text) (status : N) (line : N) : bool :=
  match read_rewrite_def deftext with
  | RdOk _ tb => (status =? 0)%N && table_wf tb
  | RdErr e i => (status =? rerr_code e)%N && (N.of_nat i =? line)%N
  end.

(* the table and the exempt set are what the model reads from the TEXT of the file the plugin was given *)
Definition check_default_text (o : odata) (deftext : text) (t : text) (qc_text : bool) (out : option text) (offs : list N) : bool :=
  match read_rewrite_def deftext with
  | RdOk ign tb => check_default o tb ign t qc_text out offs
  | RdErr _ _ => false
  end.

Definition check_white_space (ws : list N) : bool :=
  nlist_eqb ws white_space_set && forallb is_ws ws.
