(* Model of sudachi/src/dic/lexicon/word_id_table.rs (reader) and of the writer side
   IndexBuilder::build_word_id_table / primitives::write_u32_array.  No proofs here. *)
From Coq Require Import List NArith Bool.
From SudachiVerif Require Generated.TrieBits.
From SudachiVerif Require Import Model.Trie.
Import ListNotations.
Open Scope N_scope.

(* u32::to_le_bytes *)
Definition le_bytes (x : N) : list N :=
  [x mod 256; (x / 256) mod 256; (x / 65536) mod 256; (x / 16777216) mod 256].

(* write_u32_array: Err when more than WID_MAX_GROUP ids; else `len as u8` then every id little endian *)
Definition encode_group (ids : list N) : option (list N) :=
  if N.of_nat (length ids) <=? Generated.TrieBits.WID_MAX_GROUP
  then Some ((N.of_nat (length ids) mod 256) :: flat_map le_bytes ids)
  else None.

(* build_word_id_table: groups in insertion order; entry.offset = result.len() before the group is written.
   Result: (table bytes, offset of every group) *)
Fixpoint encode_groups_from (acc : list N) (gs : list (list N)) : option (list N * list N) :=
  match gs with
  | [] => Some (acc, [])
  | g :: t =>
      match encode_group g with
      | None => None
      | Some bs =>
          match encode_groups_from (acc ++ bs) t with
          | None => None
          | Some (tbl, offs) => Some (tbl, N.of_nat (length acc) :: offs)
          end
      end
  end.
Definition encode_groups (gs : list (list N)) : option (list N * list N) := encode_groups_from [] gs.

(* WordIdIter: `remaining` unaligned little-endian u32 reads; None = read beyond the table (debug_assert / UB) *)
Fixpoint read_u32s (n : nat) (bs : list N) : option (list N) :=
  match n with
  | O => Some []
  | S n' =>
      match bs with
      | b0 :: b1 :: b2 :: b3 :: t => option_map (cons (le32 b0 b1 b2 b3)) (read_u32s n' t)
      | _ => None
      end
  end.

(* WordIdTable::entries(index): count byte at index, ids from index + 1 *)
Definition entries (tbl : list N) (off : N) : option (list N) :=
  match skipn (N.to_nat off) tbl with
  | cnt :: t => read_u32s (N.to_nat cnt) t
  | [] => None
  end.
