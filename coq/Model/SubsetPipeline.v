(* C11 — the stages of StatefulTokenizer::do_tokenize with the loaded subset as a parameter where the code has one:
     build_lattice                 no subset, no word info           (Model/Lattice.v)
     resolve_best_path             get_word_info_subset(id, subset)  (Model/Codec.v: lexset_get) -> ResultNodes
     path-rewrite plugins          read the ResultNodes              (builder G's Model/Rewrite.v)
     split_path(mode, subset)      reads the split lists             (builder I's Model/Split.v)
   Executable definitions only; no new model of any stage, only the glue between the existing ones. *)
From Coq Require Import List NArith ZArith Bool.
From SudachiVerif Require Import Model.Codec.
From SudachiVerif Require Model.Lattice Model.Rewrite Model.Split.
Import ListNotations.
Open Scope N_scope.

(* the Viterbi stage: the subset is not among the things it is given *)
Definition lattice_stage (subset : N) (conn : N -> N -> Z) (n : nat) (ns : list Lattice.node) : option (list Lattice.entry) :=
  Lattice.top_path conn (Lattice.insert_all conn (Lattice.reset n) ns).

(* a node of the best path with what resolve_best_path takes from the lattice and the input text (nothing of it comes from
   a word info): character and byte range, word id, whether that id is an OOV id, the text of the range (the surface an
   OOV node gets), the character classes of the range and of its first character *)
Record pnode := mkP {
  p_cb : nat; p_ce : nat; p_bb : nat; p_be : nat; p_wid : N; p_oov : bool; p_text : list N; p_cats : N; p_cat0 : N
}.

Section Pipeline.
(* LexiconSet::get_word_info_subset(id, subset) *)
Variable getinfo : N -> N -> option winfo.

Definition nonempty (v : fval) : N := match as_arr v with [] => 0 | _ => 1 end.
Definition extra_bits (i : winfo) : N :=
  nonempty (i F_a) + 2 * nonempty (i F_b) + 4 * nonempty (i F_ws) + 8 * nonempty (i F_syn).

Definition rnode_of_info (pn : pnode) (i : winfo) : Rewrite.node :=
  Rewrite.mkN (p_cb pn) (p_ce pn) (p_bb pn) (p_be pn)
              (as_text (i F_surface)) (as_text (i F_norm)) (as_text (i F_dicform)) (as_text (i F_reading))
              (extra_bits i) (as_num (i F_pos)) (p_oov pn) (p_cats pn) (p_cat0 pn).

(* WordInfoData { pos_id: word_id.word(), surface: the text of the range, ..Default } *)
Definition oov_info (pn : pnode) : winfo :=
  set_field F_surface (VText (p_text pn)) (set_field F_pos (VNum ((p_wid pn mod 268435456) mod 65536)) default_info).

Definition resolve_node (L : N) (pn : pnode) : option Rewrite.node :=
  if p_oov pn then Some (rnode_of_info pn (oov_info pn))
  else option_map (rnode_of_info pn) (getinfo L (p_wid pn)).

Fixpoint resolve (L : N) (path : list pnode) : option (list Rewrite.node) :=
  match path with
  | [] => Some []
  | pn :: t => match resolve_node L pn, resolve L t with
               | Some r, Some rs => Some (r :: rs)
               | _, _ => None
               end
  end.

(* resolve_best_path, then the plugin chain.  None = get_word_info_subset failed *)
Definition rewritten (L : N) (pls : list Rewrite.plugin) (path : list pnode) : option (option (Rewrite.res (list Rewrite.node))) :=
  option_map (Rewrite.run_plugins pls) (resolve L path).

(* split_path on a path no plugin touched: the ResultNodes keep range and word id of the lattice nodes *)
Definition snode_of_p (pn : pnode) : Split.node :=
  Split.mkNode (N.of_nat (p_cb pn)) (N.of_nat (p_ce pn)) (N.of_nat (p_bb pn)) (N.of_nat (p_be pn)) (p_wid pn).
Definition is_oov_id (w : N) : bool := w / 268435456 =? 15.
(* the split list of a word in the loaded subset (an OOV word info has none) and the head-word length of a unit *)
Definition units_of (which : fid) (L : N) (w : N) : list N :=
  if is_oov_id w then [] else match getinfo L w with Some i => as_arr (i which) | None => [] end.
Definition hw_of (L : N) (w : N) : N := match getinfo L w with Some i => as_num (i F_hwlen) | None => 0 end.
Definition split_stage (L : N) (t : list N) (m : Split.mode) (path : list pnode) : option (list Split.node) :=
  Split.tokenize_mode (hw_of L) t (units_of F_a L) (units_of F_b L) m (map snode_of_p path).
End Pipeline.

(* what the tokenizer loads for mode m when the user asks for s: Model/Codec.v set_mode / set_subset *)
Definition cmode_of (m : Split.mode) : mode := match m with Split.ModeA => ModeA | Split.ModeB => ModeB | Split.ModeC => ModeC end.
Definition loaded_for (s : N) (m0 m : Split.mode) (order : bool) : N :=
  t_subset (if order then set_subset s (set_mode (cmode_of m) (tok_create (cmode_of m0)))
            else set_mode (cmode_of m) (set_subset s (tok_create (cmode_of m0)))).

(* ------------------------------------------------------------------ the facts this glue was written for *)
From Coq Require Import String.
From SudachiVerif Require Generated.SubsetUse Generated.FieldOrder.
Module SU := Generated.SubsetUse.
Fixpoint slist_eqb (a b : list string) : bool :=
  match a, b with
  | [], [] => true
  | x :: a', y :: b' => String.eqb x y && slist_eqb a' b'
  | _, _ => false
  end.
Definition sincl (a b : list string) : bool := forallb (fun x => existsb (String.eqb x) b) a.
(* stage order lattice -> resolve -> rewrite -> split; the subset is used only by the configuration calls, by
   resolve_best_path, by the split_path call and by the hand-over of results; the lattice stage mentions neither the
   subset nor a word info; JoinNumeric reads pos_id and normalized_form (which falls back to the surface), JoinKatakanaOov
   no word-info accessor at all; the concat functions copy the listed WordInfoData fields *)
Definition subset_use_ok : bool :=
  slist_eqb SU.stage_order ["build_lattice"; "resolve_best_path"; "plugin_rewrite"; "split_path"]%string
  && sincl SU.subset_users ["create"; "set_mode"; "set_subset"; "do_tokenize"; "resolve_best_path"; "swap_result"; "into_morpheme_list"]%string
  && slist_eqb SU.lattice_stage_mentions []
  && sincl SU.numeric_reads ["normalized_form"; "pos_id"]%string
  && slist_eqb SU.katakana_reads []
  && sincl SU.concat_nodes_fields ["dictionary_form"; "head_word_length"; "normalized_form"; "pos_id"; "reading_form"; "surface"]%string
  && sincl SU.concat_oov_nodes_fields ["head_word_length"; "surface"]%string
  && sincl SU.plugin_node_methods ["begin"; "char_range"; "end"; "is_oov"; "num_codepts"; "word_info"]%string
  && existsb (fun p => String.eqb (fst p) "normalized_form" && String.eqb (snd p) "surface") Generated.FieldOrder.accessor_fallbacks.
