(* Vocabulary of the generated fact files Guards.v / ConnIndex.v: range guards (`if x OP rhs { return Err }`),
   integer types, index expressions and their evaluation.  No proofs here. *)
From Coq Require Import List ZArith Bool.
Import ListNotations.
Open Scope Z_scope.

Inductive cmp := CLt | CLe | CGt | CGe | CEq | CNe.
Inductive dim := NumLeft | NumRight.
(* ODimMax d k: `<dimension>.max(k)` *)
Inductive operand := OConst (z : Z) | ODim (d : dim) | ODimMax (d : dim) (k : Z).
(* how the tested value is converted before the comparison: `x`, `x as usize` *)
Inductive cast := CastNone | CastUsize.
(* `if (cast x) cmp rhs { return Err }` *)
Record guard := mkG { g_cast : cast; g_cmp : cmp; g_rhs : operand }.

Inductive ity := I16 | I32 | I64 | U16 | U32.

(* a node's own connection ids *)
Inductive idkind := KLeftId | KRightId.

(* index expressions over the parameters of ConnectionMatrix::index / ConnBuffer::write_elem *)
Inductive iexp := ILeft | IRight | INumLeft | INumRight | IConst (z : Z) | IAdd (a b : iexp) | IMul (a b : iexp).

Definition cmp_eval (c : cmp) (a b : Z) : bool :=
  match c with
  | CLt => a <? b | CLe => a <=? b | CGt => a >? b | CGe => a >=? b | CEq => a =? b | CNe => negb (a =? b)
  end.

Definition cast_eval (k : cast) (x : Z) : Z :=
  match k with CastNone => x | CastUsize => x mod 18446744073709551616 end.

Definition dim_val (d : dim) (nl nr : Z) : Z := match d with NumLeft => nl | NumRight => nr end.
Definition operand_eval (o : operand) (nl nr : Z) : Z :=
  match o with OConst z => z | ODim d => dim_val d nl nr | ODimMax d k => Z.max (dim_val d nl nr) k end.

Definition fires (g : guard) (nl nr x : Z) : bool :=
  cmp_eval (g_cmp g) (cast_eval (g_cast g) x) (operand_eval (g_rhs g) nl nr).

(* the value passes every guard *)
Definition accepted (gs : list guard) (nl nr x : Z) : bool :=
  negb (existsb (fun g => fires g nl nr x) gs).

Definition ity_min (t : ity) : Z :=
  match t with I16 => -32768 | I32 => -2147483648 | I64 => -9223372036854775808 | U16 => 0 | U32 => 0 end.
Definition ity_max (t : ity) : Z :=
  match t with I16 => 32767 | I32 => 2147483647 | I64 => 9223372036854775807 | U16 => 65535 | U32 => 4294967295 end.
Definition in_ity (t : ity) (x : Z) : bool := (ity_min t <=? x) && (x <=? ity_max t).

(* `x as u16`, `x as i16` *)
Definition as_u16 (x : Z) : Z := x mod 65536.
Definition as_i16 (x : Z) : Z := let m := x mod 65536 in if m <? 32768 then m else m - 65536.

Fixpoint iexp_eval (e : iexp) (l r nl nr : Z) : Z :=
  match e with
  | ILeft => l | IRight => r | INumLeft => nl | INumRight => nr | IConst z => z
  | IAdd a b => iexp_eval a l r nl nr + iexp_eval b l r nl nr
  | IMul a b => iexp_eval a l r nl nr * iexp_eval b l r nl nr
  end.

Definition dim_eqb (a b : dim) : bool := match a, b with NumLeft, NumLeft | NumRight, NumRight => true | _, _ => false end.
Definition cmp_eqb (a b : cmp) : bool :=
  match a, b with CLt, CLt | CLe, CLe | CGt, CGt | CGe, CGe | CEq, CEq | CNe, CNe => true | _, _ => false end.
Definition idkind_eqb (a b : idkind) : bool := match a, b with KLeftId, KLeftId | KRightId, KRightId => true | _, _ => false end.
Fixpoint iexp_eqb (a b : iexp) : bool :=
  match a, b with
  | ILeft, ILeft | IRight, IRight | INumLeft, INumLeft | INumRight, INumRight => true
  | IConst x, IConst y => x =? y
  | IAdd a1 a2, IAdd b1 b2 | IMul a1 a2, IMul b1 b2 => iexp_eqb a1 b1 && iexp_eqb a2 b2
  | _, _ => false
  end.

(* ---- decidable side conditions on generated guards (their meaning is proved in Proofs/GuardProofs.v) ---- *)

(* the guard rejects every value >= the dimension d, provided d >= 1 *)
Definition rejects_all_ge (g : guard) (d : dim) : bool :=
  match g_cmp g, g_rhs g with
  | CGe, ODim d' => dim_eqb d d'
  | CGe, ODimMax d' k => dim_eqb d d' && (k <=? 1)
  | _, _ => false
  end.

(* the guard rejects every negative value (of an i64) when dimensions are below 2^63 *)
Definition rejects_all_neg (g : guard) (d : dim) : bool :=
  match g_cast g, g_cmp g, g_rhs g with
  | CastNone, CLt, OConst c => 0 <=? c
  | CastNone, CLe, OConst c => -1 <=? c
  | CastUsize, CGe, ODim d' => dim_eqb d d'
  | CastUsize, CGt, ODim d' => dim_eqb d d'
  | CastUsize, CGe, ODimMax d' k => dim_eqb d d' && (k <=? 1)
  | _, _, _ => false
  end.

(* the guard list confines accepted values to 0 <= x < d *)
Definition covers (gs : list guard) (d : dim) : bool :=
  existsb (fun g => rejects_all_ge g d) gs && existsb (fun g => rejects_all_neg g d) gs.

(* the same without the `.max(k)` form: sound for every dimension >= 0 *)
Definition plain_rhs (g : guard) : bool := match g_rhs g with ODimMax _ _ => false | _ => true end.
Definition covers_strict (gs : list guard) (d : dim) : bool :=
  existsb (fun g => rejects_all_ge g d && plain_rhs g) gs && existsb (fun g => rejects_all_neg g d) gs.

(* the guard rejects every value below lo / above hi *)
Definition rejects_below (g : guard) (lo : Z) : bool :=
  match g_cast g, g_cmp g, g_rhs g with
  | CastNone, CLt, OConst c => lo <=? c
  | CastNone, CLe, OConst c => lo - 1 <=? c
  | _, _, _ => false
  end.
Definition rejects_above (g : guard) (hi : Z) : bool :=
  match g_cast g, g_cmp g, g_rhs g with
  | CastNone, CGt, OConst c => c <=? hi
  | CastNone, CGe, OConst c => c <=? hi + 1
  | _, _, _ => false
  end.
Definition confines (gs : list guard) (lo hi : Z) : bool :=
  existsb (fun g => rejects_below g lo) gs && existsb (fun g => rejects_above g hi) gs.

(* index expression is (a commutative variant of) right * num_left + left *)
Definition index_shape_ok (e : iexp) : bool :=
  existsb (iexp_eqb e)
    [ IAdd (IMul IRight INumLeft) ILeft; IAdd (IMul INumLeft IRight) ILeft;
      IAdd ILeft (IMul IRight INumLeft); IAdd ILeft (IMul INumLeft IRight) ].
