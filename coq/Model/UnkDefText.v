(* C20, text layer — model of the two text readers of MeCabOovPlugin (plugin/oov/mecab_oov/mod.rs):
     read_character_property : the category-definition lines `NAME invoke group length` of char.def
     read_oov                : unk.def lines `category,left,right,cost,pos1,..,pos6`
   and of MeCabOovPlugin::set_up on the two texts, composed with the parameter checks of Model/Params.v.
   Text = list of Unicode scalar values (N).  Mirrored by small readers here and stated as trusted-and-tested: BufRead::lines,
   str::trim / split_whitespace (Unicode White_Space), str::split(char), <int>::from_str (decimal), bitflags::parser::from_str
   (names, `|`, `0x` hex).  Shapes of the two readers (skip rules, separators, column counts and their comparison, column ->
   field, literals, types, POS slice) come from Generated/UnkDefFacts.v.  Executable definitions only. *)
From Coq Require Import List NArith ZArith Bool Arith String.
From SudachiVerif Require Import Model.Harness Model.GuardLang Model.Params.
From SudachiVerif Require Model.CharDefText Model.Oov.
From SudachiVerif Require Generated.UnkDefFacts Generated.Guards Generated.CategoryFacts.
Import ListNotations.
Open Scope list_scope.
Open Scope N_scope.

Module UF := Generated.UnkDefFacts.
Module CD := Model.CharDefText.

Definition text := list N.

(* ------------------------------------------------------------------ std / bitflags text primitives *)

(* char::is_whitespace = Unicode White_Space *)
Definition is_ws (c : N) : bool :=
  ((9 <=? c) && (c <=? 13)) || (c =? 32) || (c =? 133) || (c =? 160) || (c =? 5760)
  || ((8192 <=? c) && (c <=? 8202)) || (c =? 8232) || (c =? 8233) || (c =? 8239) || (c =? 8287) || (c =? 12288).

(* BufRead::lines: pieces between "\n"; no piece for the empty rest after a final "\n".  (The "\r" of "\r\n" that lines() also
   removes is white space and falls to the trim() both readers apply.) *)
Fixpoint lines_aux (cur : list N) (l : text) : list text :=
  match l with
  | [] => match cur with [] => [] | _ => [rev cur] end
  | c :: t => if c =? 10 then rev cur :: lines_aux [] t else lines_aux (c :: cur) t
  end.
Definition lines (t : text) : list text := lines_aux [] t.

Fixpoint drop_ws (l : text) : text := match l with c :: t => if is_ws c then drop_ws t else l | [] => [] end.
Definition trim (l : text) : text := rev (drop_ws (rev (drop_ws l))).

(* str::split_whitespace *)
Fixpoint words_aux (cur : list N) (l : text) : list text :=
  match l with
  | [] => match cur with [] => [] | _ => [rev cur] end
  | c :: t => if is_ws c then (match cur with [] => words_aux [] t | _ => rev cur :: words_aux [] t end)
              else words_aux (c :: cur) t
  end.
Definition words (l : text) : list text := words_aux [] l.

(* str::split(sep): always at least one piece *)
Fixpoint split_aux (sep : N) (cur : list N) (l : text) : list text :=
  match l with
  | [] => [rev cur]
  | c :: t => if c =? sep then rev cur :: split_aux sep [] t else split_aux sep (c :: cur) t
  end.
Definition split_on (sep : N) (l : text) : list text := split_aux sep [] l.

Definition text_eqb : text -> text -> bool := list_eqb N.eqb.
Definition starts_with (p l : text) : bool := text_eqb (firstn (List.length p) l) p.

(* <int>::from_str for the integer type t: optional '+', '-' only for signed types, at least one ASCII digit, value inside
   the type *)
Fixpoint dec_acc (acc : N) (l : text) : option N :=
  match l with
  | [] => Some acc
  | c :: t => if (48 <=? c) && (c <=? 57) then dec_acc (acc * 10 + (c - 48)) t else None
  end.
Definition parse_int (t : ity) (s : text) : option Z :=
  match s with
  | [] => None
  | c :: rest =>
      let signed := (ity_min t <? 0)%Z in
      let '(neg, ds) := if c =? 43 then (false, rest) else if signed && (c =? 45) then (true, rest) else (false, s) in
      match ds with
      | [] => None
      | _ => match dec_acc 0 ds with
             | Some v => let z := if neg then (- Z.of_N v)%Z else Z.of_N v in if in_ity t z then Some z else None
             | None => None
             end
      end
  end.

(* bitflags::parser::from_str::<CategoryType>: blank -> empty set; otherwise the union of the `|`-separated flags, each
   trimmed and either `0x<hex u32>` (bits kept as they are) or a declared name *)
Definition parse_flag (tok : text) : option N :=
  let f := trim tok in
  match f with
  | [] => None
  | _ => if starts_with CD.ZERO_X f then CD.from_hex_u32 (skipn 2 f) else CD.lookup_class f
  end.
Fixpoint parse_flags (toks : list text) (acc : N) : option N :=
  match toks with
  | [] => Some acc
  | t :: r => match parse_flag t with Some b => parse_flags r (N.lor acc b) | None => None end
  end.
Definition parse_category (s : text) : option N :=
  match trim s with
  | [] => Some 0
  | _ => parse_flags (split_on 124 s) 0
  end.

Definition col (cols : list text) (i : nat) : text := nth i cols [].
Definition too_few (g : guard) (cols : list text) : bool := fires g 0%Z 0%Z (Z.of_nat (List.length cols)).

(* ------------------------------------------------------------------ read_character_property *)

Record catinfo := mkCat { ci_cat : N; ci_invoke : bool; ci_group : bool; ci_length : Z }.

(* kinds of error values: InvalidFormat(i), InvalidCategoryType(i, name), MultipleTypeDefinition(i, name), ParseIntError *)
Inductive cp_err := CpTooFewColumns | CpBadCategory | CpDuplicate | CpBadLength.

(* a line before the checks that need the categories read so far: skipped, an error, or (category, invoke, group, length column) *)
Inductive cp_line := CLSkip | CLErr (e : cp_err) | CLRow (cat : N) (invoke group : bool) (len : text).

Definition charprop_line (raw : text) : cp_line :=
  let line := trim raw in
  match line with
  | [] => CLSkip
  | c :: _ =>
      if (c =? UF.charprop_comment) || starts_with UF.charprop_range_prefix line then CLSkip
      else
        let cols := words line in
        if too_few UF.charprop_cols_guard cols then CLErr CpTooFewColumns
        else match parse_category (col cols 0) with
             | None => CLErr CpBadCategory
             | Some cat => CLRow cat (text_eqb (col cols UF.charprop_invoke_col) UF.charprop_true_literal)
                                 (text_eqb (col cols UF.charprop_group_col) UF.charprop_true_literal)
                                 (col cols UF.charprop_length_col)
             end
  end.

Inductive cp_result := CPOk (cats : list catinfo) | CPErr (line : N) (e : cp_err).

(* the loop: i = index of the line in the file; acc = definitions so far, newest first *)
Fixpoint charprop_lines (i : N) (ls : list text) (acc : list catinfo) : cp_result :=
  match ls with
  | [] => CPOk (rev acc)
  | l :: t =>
      match charprop_line l with
      | CLSkip => charprop_lines (N.succ i) t acc
      | CLErr e => CPErr i e
      | CLRow cat inv grp len =>
          if existsb (fun ci => ci_cat ci =? cat) acc then CPErr i CpDuplicate
          else match parse_int UF.charprop_length_ty len with
               | None => CPErr i CpBadLength
               | Some n => charprop_lines (N.succ i) t (mkCat cat inv grp n :: acc)
               end
      end
  end.

Definition read_character_property (t : text) : cp_result := charprop_lines 0 (lines t) [].

(* ------------------------------------------------------------------ read_oov: the text part *)

(* an OOV template as written: category, the three numbers, the POS columns *)
Record unk_tpl := mkTpl { u_cat : N; u_left : Z; u_right : Z; u_cost : Z; u_pos : list text }.

(* InvalidDataFormat(i, line) / InvalidCharacterCategoryType / InvalidDataFormat(i, "undefined") / ParseIntError (column) *)
Inductive unk_err := UTooFewColumns | UBadCategory | UUndefinedCategory | UBadNumber (column : nat).

Inductive unk_lres := ULSkip | ULErr (e : unk_err) | ULTpl (t : unk_tpl).

Definition unk_line (cats : list N) (raw : text) : unk_lres :=
  let line := trim raw in
  match line with
  | [] => ULSkip
  | c :: _ =>
      if c =? UF.unk_comment then ULSkip
      else
        let cols := split_on UF.unk_separator line in
        if too_few UF.unk_cols_guard cols then ULErr UTooFewColumns
        else match parse_category (col cols 0) with
             | None => ULErr UBadCategory
             | Some cat =>
                 if negb (existsb (N.eqb cat) cats) then ULErr UUndefinedCategory
                 else match parse_int Guards.unk_left_id_ty (col cols 1) with
                      | None => ULErr (UBadNumber 1)
                      | Some l =>
                      match parse_int Guards.unk_right_id_ty (col cols 2) with
                      | None => ULErr (UBadNumber 2)
                      | Some r =>
                      match parse_int Guards.unk_cost_ty (col cols 3) with
                      | None => ULErr (UBadNumber 3)
                      | Some c =>
                          ULTpl (mkTpl cat l r c (firstn (UF.unk_pos_to - UF.unk_pos_from) (skipn UF.unk_pos_from cols)))
                      end end end
             end
  end.

Inductive unk_result := UOk (ts : list unk_tpl) | UErr (line : N) (e : unk_err).

Fixpoint unk_lines (cats : list N) (i : N) (ls : list text) (acc : list unk_tpl) : unk_result :=
  match ls with
  | [] => UOk (rev acc)
  | l :: t =>
      match unk_line cats l with
      | ULSkip => unk_lines cats (N.succ i) t acc
      | ULErr e => UErr i e
      | ULTpl u => unk_lines cats (N.succ i) t (u :: acc)
      end
  end.

(* the text layer of read_oov alone (no grammar): the templates of the file in order *)
Definition read_oov_text (cats : list N) (t : text) : unk_result := unk_lines cats 0 (lines t) [].

(* oov_list: the templates of one category, in file order *)
Definition templates_of (cat : N) (ts : list unk_tpl) : list unk_tpl := filter (fun u => u_cat u =? cat) ts.

(* ------------------------------------------------------------------ POS columns -> the abstract POS key of Model/Params.v *)

(* an injective numbering of lists of strings: digits (code point + 1) in base 1114114, every string closed by the digit 1114113 *)
Definition KEY_BASE : N := 1114114.
Definition KEY_SEP : N := 1114113.
Definition key_digits (ss : list text) : list N := flat_map (fun s => map N.succ s ++ [KEY_SEP]) ss.
Fixpoint key_num (ds : list N) : N := match ds with [] => 0 | d :: t => d + KEY_BASE * key_num t end.
Definition pos_key (ss : list text) : N := key_num (key_digits ss).

Definition posreq_of (ss : list text) : posreq := (Nat.eqb (List.length ss) UF.POS_DEPTH, pos_key ss).

(* the record the parameter checks of Model/Params.v take, now produced from the text *)
Definition to_mecab_line (u : unk_tpl) : Z * Z * Z * posreq := (u_left u, u_right u, u_cost u, posreq_of (u_pos u)).

(* ------------------------------------------------------------------ MeCabOovPlugin::set_up on the two texts *)

(* error values of set_up by kind (and line where the error carries one) *)
Inductive setup_err :=
| ECharProp (line : N) (e : cp_err)      (* read_character_property *)
| EUnkText (line : N) (e : unk_err)      (* read_oov, text layer *)
| EUnkPos (line : N)                     (* handle_user_pos: InvalidPartOfSpeech *)
| EUnkRange (line : N).                  (* the left_id / right_id range checks *)

Inductive setup_result :=
| SetupOk (cats : list catinfo) (ts : list (unk_tpl * node)) (tbl : list N)
| SetupErr (e : setup_err)
| SetupPanic.

Section WithFacts.
Variable F : pfacts.

(* read_oov as it runs: per line the text layer, then handle_user_pos and the range checks (Params.mecab_line) *)
Fixpoint oov_lines (g : gram) (cats : list N) (allow : bool) (i : N) (ls : list text) (tbl : list N)
         (acc : list (unk_tpl * node)) : list (unk_tpl * node) * list N + setup_err + unit :=
  match ls with
  | [] => inl (inl (rev acc, tbl))
  | l :: t =>
      match unk_line cats l with
      | ULSkip => oov_lines g cats allow (N.succ i) t tbl acc
      | ULErr e => inl (inr (EUnkText i e))
      | ULTpl u =>
          match mecab_line F g tbl allow (to_mecab_line u) with
          | Ok (n, tbl') => oov_lines g cats allow (N.succ i) t tbl' ((u, n) :: acc)
          | Err => match handle_user_pos F tbl (posreq_of (u_pos u)) allow with
                   | Ok _ => inl (inr (EUnkRange i))
                   | _ => inl (inr (EUnkPos i))
                   end
          | Panic => inr tt
          end
      end
  end.

Definition mecab_setup_text (g : gram) (tbl : list N) (allow : bool) (chardef unkdef : text) : setup_result :=
  match read_character_property chardef with
  | CPErr i e => SetupErr (ECharProp i e)
  | CPOk cats =>
      match oov_lines g (map ci_cat cats) allow 0 (lines unkdef) tbl [] with
      | inl (inl (ts, tbl')) => SetupOk cats ts tbl'
      | inl (inr e) => SetupErr e
      | inr _ => SetupPanic
      end
  end.

End WithFacts.

Definition mecab_setup := mecab_setup_text gen_facts.

(* ------------------------------------------------------------------ correspondence entry point *)

(* the plugin as Model/Oov.v (C13) takes it: category infos + templates grouped by category in order of first appearance *)
Definition oovdef_of (n : node) : Oov.oovdef :=
  let '(l, r, c, p) := n in Oov.mkOov (Z.to_N l) (Z.to_N r) c p.
Fixpoint group_cats (ts : list (unk_tpl * node)) (seen : list N) : list N :=
  match ts with
  | [] => rev seen
  | (u, _) :: t => if existsb (N.eqb (u_cat u)) seen then group_cats t seen else group_cats t (u_cat u :: seen)
  end.
Definition LENGTH_CLAMP : Z := 1000.   (* no longer needed: Model/Oov.v keeps the length in N *)
Definition to_oov_model (cats : list catinfo) (ts : list (unk_tpl * node)) : Oov.mecab :=
  Oov.mkMecab
    (map (fun ci => Oov.mkCI (ci_cat ci) (ci_invoke ci) (ci_group ci) (Z.to_N (ci_length ci))) cats)
    (map (fun c => (c, map (fun p => oovdef_of (snd p)) (filter (fun p => u_cat (fst p) =? c) ts))) (group_cats ts [])).

(* error kind codes shared with the harness:
   1 unk too few columns (line)   2 bad category text (InvalidCharacterCategoryType)   3 undefined category (line)
   4 ParseIntError (either file)  5 InvalidPartOfSpeech   6 id outside the matrix
   7 char.def InvalidFormat (line)  8 char.def InvalidCategoryType (line)  9 char.def MultipleTypeDefinition (line) *)
Definition err_code (e : setup_err) : N * option N :=
  match e with
  | ECharProp i CpTooFewColumns => (7, Some i)
  | ECharProp i CpBadCategory => (8, Some i)
  | ECharProp i CpDuplicate => (9, Some i)
  | ECharProp _ CpBadLength => (4, None)
  | EUnkText i UTooFewColumns => (1, Some i)
  | EUnkText _ UBadCategory => (2, None)
  | EUnkText i UUndefinedCategory => (3, Some i)
  | EUnkText _ (UBadNumber _) => (4, None)
  | EUnkPos _ => (5, None)
  | EUnkRange _ => (6, None)
  end.

(* one probe: classes of the probe text's characters (observed), offset, CreatedWords carrier, the nodes the plugin produced *)
Definition probe := (list N * nat * N * list Oov.node)%type.

Definition check_probe (m : Oov.mecab) (p : probe) : bool :=
  let '(cs, off, other, got) := p in
  match Oov.mecab_provide m cs (Oov.continuity cs) off other with
  | Oov.ROk want => list_eqb Oov.node_eqb got want
  | _ => false
  end.

(* impl_status: the whole dictionary load with a baseline SimpleOov provider (valid) and the MeCab provider under test;
   impl_kind / impl_line: classification of the error value; probes: candidates of the loaded plugin *)
Definition check_mecab_text (g : gram) (allow : bool) (chardef unkdef : text)
           (impl_status : status) (impl_kind : N) (impl_line : option N) (probes : list probe) : bool :=
  match mecab_setup g (pos g) allow chardef unkdef with
  | SetupOk cats ts _ =>
      status_eqb impl_status SOk
      && forallb (check_probe (to_oov_model cats ts)) probes
      (* property predicate on the accepted templates *)
      && forallb (fun p => let u := fst p in left_id_ok g (u_left u) && right_id_ok g (u_right u) && cost_ok (u_cost u)) ts
  | SetupErr e =>
      status_eqb impl_status SErr && (fst (err_code e) =? impl_kind)
      && match snd (err_code e), impl_line with Some a, Some b => a =? b | _, _ => true end
  | SetupPanic => false
  end.

(* userPOS possibly not mentioned in the MeCab provider's settings (see Params.check_load_m) *)
Definition check_mecab_text_m (g : gram) (m : option bool) (chardef unkdef : text)
           (impl_status : status) (impl_kind : N) (impl_line : option N) (probes : list probe) : bool :=
  check_mecab_text g (eff_mode m) chardef unkdef impl_status impl_kind impl_line probes
  && (if status_eqb impl_status SOk
      then match mecab_setup g (pos g) (explicit_mode m) chardef unkdef with SetupOk _ _ _ => true | _ => false end
      else true).
