(* The command-line tool's analysis loop with its REUSED MorphemeList (sudachi-cli/src/main.rs: one `analyzer.analyze(line)` per
   input line; sudachi-cli/src/analysis.rs: AnalyzeNonSplitted / AnalyzeSplitted).  The state carried from line to line is what the
   reused list holds.  Which steps are guaranteed to run before the list is printed is read from Generated/CliLoopFacts.v.
   Executable definitions only. *)
From Coq Require Import List NArith Bool Arith String.
From SudachiVerif Require Import Model.Harness.
From SudachiVerif Require Model.Cli.
From SudachiVerif Require Generated.CliLoopFacts.
Import ListNotations.

Definition ltext := list N.

(* the steps AnalyzeNonSplitted::analyze has to run, in this order, before every write *)
Definition required_steps : list string := ["reset_push"; "do_tokenize"; "collect"]%string.

Definition steps_eqb (a b : list string) : bool := list_eqb String.eqb a b.

(* every write of the list is preceded by a complete analysis of the current line, nothing else is written, and the sentence-splitting
   variant only iterates the plain one *)
Definition loop_facts_ok_of (writes : list (list string)) (others : nat) (deleg : bool) : bool :=
  negb (match writes with [] => true | _ => false end) &&
  forallb (fun w => steps_eqb w required_steps) writes && Nat.eqb others 0 && deleg.
Definition loop_facts_ok : bool :=
  loop_facts_ok_of Generated.CliLoopFacts.nonsplit_writes Generated.CliLoopFacts.nonsplit_other_writes
                   Generated.CliLoopFacts.splitted_delegates.

Section Loop.
  (* what a list holds: the analysis result it was last given (C10: a function of the text only, for the tokenizer's fixed mode/request) *)
  Variable res : Type.
  Variable analyse : ltext -> res.          (* reset + push_str + do_tokenize + collect_results on the reused tokenizer and list *)
  Variable render : res -> list N.         (* SudachiOutput::write of the list *)
  Variable sentences : ltext -> list ltext.  (* SentenceSplitter::split *)
  (* when the source does NOT guarantee the analysis before a write: the unknown condition under which it is skipped *)
  Variable skipped : ltext -> bool.
  Variable facts_ok : bool.

  (* AnalyzeNonSplitted::analyze: (list before, ltext) -> (list after, bytes written).
     collect_results REPLACES the content of the list (C10 swap_result); a skipped analysis leaves what the list held. *)
  Definition analyze_one (held : res) (t : ltext) : res * list N :=
    let held' := if facts_ok then analyse t else if skipped t then held else analyse t in
    (held', render held').

  Fixpoint analyze_all (held : res) (ts : list ltext) : res * list N :=
    match ts with
    | [] => (held, [])
    | t :: rest =>
        let '(h1, o1) := analyze_one held t in
        let '(h2, o2) := analyze_all h1 rest in
        (h2, o1 ++ o2)
    end.

  (* Analysis::analyze for one line: the whole line, or (sentence-splitting mode) each sentence of it through the same inner analyser *)
  Definition line_units (split : bool) (line : ltext) : list ltext := if split then sentences line else [line].
  Definition analyze_line (split : bool) (held : res) (line : ltext) : res * list N :=
    analyze_all held (line_units split line).

  (* main's read_line loop as a fold over the lines with the reused list as state *)
  Fixpoint run_lines (split : bool) (held : res) (lines : list ltext) : res * list N :=
    match lines with
    | [] => (held, [])
    | l :: rest =>
        let '(h1, o1) := analyze_line split held l in
        let '(h2, o2) := run_lines split h1 rest in
        (h2, o1 ++ o2)
    end.
  Definition run_file (split : bool) (held : res) (file : list N) : list N :=
    snd (run_lines split held (Cli.cli_texts file)).

  (* specification: what one line prints, independently of everything before it *)
  Definition output_of_line (split : bool) (line : ltext) : list N :=
    List.concat (map (fun u => render (analyse u)) (line_units split line)).
End Loop.

(* ---- correspondence entry point: the surfaces the tool printed for a file, line by line, against the fold (wakati output) ---- *)
Definition check_cli_loop (file : list N) (per_line : list (list (list N))) (printed : list N) : bool :=
  let tbl := combine (Cli.cli_texts file) per_line in
  let analyse t := match find (fun kv => Cli.bytes_eqb (fst kv) t) tbl with Some kv => snd kv | None => [] end in
  Nat.eqb (List.length per_line) (List.length (Cli.cli_texts file)) &&
  Cli.bytes_eqb (run_file (list (list N)) analyse Cli.wakati (fun t => [t]) (fun _ => false) loop_facts_ok false [] file) printed.
