(* Specification vocabulary of C16 (Props only; no proofs, nothing executable that the shards use).
   The theorems of Properties/C16.v are stated with these definitions. *)
From Coq Require Import List NArith ZArith Bool Arith.
From SudachiVerif Require Import Model.Sentence.
Import ListNotations.

(* ---------- partition ---------- *)
(* rs, read in order, tile `data` starting at byte offset pos: every range starts where the previous one ended,
   carries a non-empty slice, ends blen(slice) bytes later, and the slices concatenate to data *)
Fixpoint tiles (pos : nat) (data : text) (rs : list (nat * nat * text)) : Prop :=
  match rs with
  | [] => data = []
  | (b, e, sl) :: tl =>
      b = pos /\ sl <> [] /\ e = pos + blen sl /\ exists rest, data = sl ++ rest /\ tiles e rest tl
  end.

(* a reported (start, end, slice) is a non-empty range of whole characters of data and the slice is the text in it *)
Definition range_of (data : text) (x : nat * nat * text) : Prop :=
  let '(b, e, sl) := x in
  exists k1 k2, k1 < k2 /\ k2 <= length data /\
                b = blen (firstn k1 data) /\ e = blen (firstn k2 data) /\ b < e /\
                sl = firstn (k2 - k1) (skipn k1 data).

(* starts at 0, each range starts at the end of the previous one, the last one ends at |data| bytes *)
Fixpoint chain (pos fin : nat) (rs : list (nat * nat * text)) : Prop :=
  match rs with
  | [] => pos = fin
  | (b, e, _) :: tl => b = pos /\ chain e fin tl
  end.

(* a detector the iterator can work with: on non-empty text it answers a negative value, or the byte length of a
   non-empty prefix of whole characters *)
Definition good_det (det : text -> Z) : Prop :=
  forall t, t <> [] ->
    (det t < 0)%Z \/ exists k, 1 <= k /\ k <= length t /\ det t = Z.of_nat (blen (firstn k t)).

(* how the iterator produced rs from data: each element but possibly the last comes from a positive answer of the
   detector on the remaining text; a negative answer takes everything that is left and ends the iteration *)
Fixpoint steps (det : text -> Z) (data : text) (rs : list (nat * nat * text)) : Prop :=
  match rs with
  | [] => data = []
  | (_, _, sl) :: tl =>
      data <> [] /\
      (((det data < 0)%Z /\ sl = data /\ tl = [])
       \/ ((0 <= det data)%Z /\ det data = Z.of_nat (blen sl) /\ exists rest, data = sl ++ rest /\ steps det rest tl))
  end.

(* ---------- terminators ---------- *)
(* full stop, question / exclamation mark, ellipsis ... ; period; run of middle dots; repeated line-break tag *)
Inductive is_terminator : text -> Prop :=
| T_period c : is_period c = true -> is_terminator [c]
| T_dot c : is_dot c = true -> is_terminator [c]
| T_cdots n : F.CDOTS_MIN <= n -> 1 <= n -> is_terminator (repeat F.CDOT n)
| T_br ts : F.BR_MIN <= length ts -> Forall (fun w => In w F.BR_TAGS) ts -> concat ts <> [] -> is_terminator (concat ts).

(* closing bracket, comma or further terminator character *)
Definition trailer (c : N) : Prop := is_trailer c = true.

Definition ends_with_terminator (t : text) : Prop :=
  exists pre term tail, t = pre ++ term ++ tail /\ is_terminator term /\ Forall trailer tail.

(* ---------- dictionary words across a break ---------- *)
(* the lexicon oracle reports a word of l characters starting at character j of input that crosses the break after
   character k, or ends exactly there and has more than one character *)
Definition word_across (lookup : text -> list nat) (input : text) (k j l : nat) : Prop :=
  j < k /\ In l (lookup (skipn j input)) /\ (k < j + l \/ (j + l = k /\ 1 < l)).

(* ... and starts inside the look-back window of the checker *)
Definition in_lookback (input : text) (k j : nat) : Prop :=
  blen (firstn k input) - N.to_nat F.LOOKUP_BYTE_LENGTH <= blen (firstn j input).

(* two oracles that agree on every word of more than one character *)
Definition agree_multichar (lk1 lk2 : text -> list nat) : Prop :=
  forall t l, 1 < l -> (In l (lk1 t) <-> In l (lk2 t)).
