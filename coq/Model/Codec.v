(* Model of the binary word-info codec of sudachi.rs:
     writer  sudachi/src/dic/build/primitives.rs (Utf16Writer::{write_len,write,write_empty_if_equal}, write_u32_array),
             sudachi/src/dic/build/lexicon.rs   (RawLexiconEntry::{write_params,write_word_info}, LexiconWriter::write)
     reader  sudachi/src/dic/read/u16str.rs, read/mod.rs, read/word_info.rs (WordInfoParser, macro parse_field!),
             sudachi/src/dic/lexicon/word_infos.rs (WordInfos::get_word_info, WordInfo accessors),
             sudachi/src/dic/lexicon_set.rs (get_word_info_subset fix-ups), sudachi/src/dic/subset.rs (normalize),
             sudachi/src/analysis/stateful_tokenizer.rs (set_mode / set_subset).
   Executable definitions only.  Field orders, flag bits, closure rules and thresholds are the generated ones
   (Generated/FieldOrder.v).  Bytes, UTF-16 units and code points are N; a failing parser / a panic is None. *)
From Coq Require Import List NArith ZArith Bool String.
From SudachiVerif Require Generated.FieldOrder.
Import ListNotations.
Open Scope N_scope.

Module FO := Generated.FieldOrder.

Definition bytes := list N.
Definition text := list N.   (* Unicode scalar values *)

(* ------------------------------------------------------------------ little-endian integers *)
Definition le16 (n : N) : bytes := [n mod 256; (n / 256) mod 256].
Definition le32 (n : N) : bytes := [n mod 256; (n / 256) mod 256; (n / 65536) mod 256; (n / 16777216) mod 256].

Definition read_le16 (bs : bytes) : option (N * bytes) :=
  match bs with
  | b0 :: b1 :: r => Some (b0 + 256 * b1, r)
  | _ => None
  end.
Definition read_le32 (bs : bytes) : option (N * bytes) :=
  match bs with
  | b0 :: b1 :: b2 :: b3 :: r => Some (b0 + 256 * b1 + 65536 * b2 + 16777216 * b3, r)
  | _ => None
  end.

(* two's complement views *)
Definition i16_bits (z : Z) : N := Z.to_N (z mod 65536).
Definition to_i16 (n : N) : Z := if n <? 32768 then Z.of_N n else (Z.of_N n - 65536)%Z.
Definition to_i32 (n : N) : Z := if n <? 2147483648 then Z.of_N n else (Z.of_N n - 4294967296)%Z.

(* ------------------------------------------------------------------ length prefix *)
(* Utf16Writer::write_len: Err above i16::MAX; one byte below 127; else [(len >> 8) | 0x80, len & 0xff] *)
Definition write_len (n : N) : option bytes :=
  if FO.len_max <? n then None
  else if n <? FO.short_below then Some [n]
  else Some [n / 256 + 128; n mod 256].

(* string_length_parser: second byte iff first >= 128; ((b0 & 0x7f) << 8) | b1 *)
Definition read_len (bs : bytes) : option (N * bytes) :=
  match bs with
  | [] => None
  | b0 :: r =>
      if FO.long_from <=? b0 then
        match r with
        | [] => None
        | b1 :: r' => Some ((b0 mod 128) * 256 + b1, r')
        end
      else Some (b0, r)
  end.

(* ------------------------------------------------------------------ UTF-16 *)
Definition is_scalar (c : N) : bool := (c <? 55296) || ((57343 <? c) && (c <? 1114112)).

(* char::encode_utf16 *)
Definition units_of_cp (c : N) : list N :=
  if c <? 65536 then [c] else [55296 + (c - 65536) / 1024; 56320 + (c - 65536) mod 1024].
Definition utf16_units (s : text) : list N := flat_map units_of_cp s.
Definition units_bytes (us : list N) : bytes := flat_map le16 us.

(* str::len(): UTF-8 bytes *)
Definition utf8_width (c : N) : N := if c <? 128 then 1 else if c <? 2048 then 2 else if c <? 65536 then 3 else 4.
Definition utf8_len (s : text) : N := fold_right (fun c a => utf8_width c + a) 0 s.

(* char::decode_utf16, any error makes the whole string fail (SudachiNomError::Utf16String) *)
Fixpoint decode_units (us : list N) : option text :=
  match us with
  | [] => Some []
  | u :: t =>
      if (u <? 55296) || (57343 <? u) then option_map (cons u) (decode_units t)
      else if 56320 <=? u then None
      else match t with
           | l :: t' =>
               if (56320 <=? l) && (l <=? 57343)
               then option_map (cons (65536 + (u - 55296) * 1024 + (l - 56320))) (decode_units t')
               else None
           | [] => None
           end
  end.

(* `length` little-endian u16 code units (U16CodeUnits over utf16_string_data) *)
Fixpoint read_units (n : nat) (bs : bytes) : option (list N * bytes) :=
  match n with
  | O => Some ([], bs)
  | S k => match bs with
           | lo :: hi :: r => match read_units k r with
                              | Some (us, r') => Some ((lo + 256 * hi) :: us, r')
                              | None => None
                              end
           | _ => None
           end
  end.

(* Utf16Writer::write *)
Definition write_string (s : text) : option bytes :=
  if FO.utf8_max <? utf8_len s then None
  else let us := utf16_units s in
       match write_len (N.of_nat (List.length us)) with
       | None => None
       | Some p => Some (p ++ units_bytes us)
       end.

Definition text_eqb (a b : text) : bool :=
  (fix go a b := match a, b with
                 | [], [] => true
                 | x :: a', y :: b' => (x =? y) && go a' b'
                 | _, _ => false
                 end) a b.

(* write_empty_if_equal *)
Definition write_string_or_empty (s other : text) : option bytes :=
  if text_eqb s other then write_string [] else write_string s.

(* utf16_string_parser / skip_u16_string *)
Definition read_string (bs : bytes) : option (text * bytes) :=
  match read_len bs with
  | None => None
  | Some (n, r) =>
      match read_units (N.to_nat n) r with
      | None => None
      | Some (us, r') => match decode_units us with
                         | Some s => Some (s, r')
                         | None => None
                         end
      end
  end.
Definition skip_string (bs : bytes) : option bytes :=
  match read_len bs with
  | None => None
  | Some (n, r) => match read_units (N.to_nat n) r with
                   | None => None
                   | Some (_, r') => Some r'
                   end
  end.

(* ------------------------------------------------------------------ u32 arrays *)
Definition write_u32_array (xs : list N) : option bytes :=
  if FO.arr_max <? N.of_nat (List.length xs) then None
  else Some (N.of_nat (List.length xs) :: flat_map le32 xs).

Fixpoint read_u32s (n : nat) (bs : bytes) : option (list N * bytes) :=
  match n with
  | O => Some ([], bs)
  | S k => match read_le32 bs with
           | Some (x, r) => match read_u32s k r with
                            | Some (xs, r') => Some (x :: xs, r')
                            | None => None
                            end
           | None => None
           end
  end.
Definition read_u32_array (bs : bytes) : option (list N * bytes) :=
  match bs with
  | [] => None
  | n :: r => read_u32s (N.to_nat n) r
  end.
(* skip_wid_array / skip_u32_array: &rest[length*4..] (out of range = panic = None) *)
Definition skip_u32_array (bs : bytes) : option bytes :=
  match bs with
  | [] => None
  | n :: r => if N.of_nat (List.length r) <? 4 * n then None else Some (skipn (N.to_nat (4 * n)) r)
  end.

(* ------------------------------------------------------------------ entries (RawLexiconEntry after resolution) *)
Record entry := mkEntry {
  e_headword : text;        (* headword() *)
  e_surface_len : N;        (* surface.len(): UTF-8 bytes of the index form *)
  e_pos : N;
  e_norm : text;            (* norm_form() *)
  e_dic_form : N;           (* raw u32; 0xFFFFFFFF = none *)
  e_reading : text;         (* reading() *)
  e_splits_a : list N;
  e_splits_b : list N;
  e_word_structure : list N;
  e_synonyms : list N;
  e_left : Z; e_right : Z; e_cost : Z
}.

Definition src_text (e : entry) (name : string) : option text :=
  if String.eqb name "headword" then Some (e_headword e)
  else if String.eqb name "norm_form" then Some (e_norm e)
  else if String.eqb name "reading" then Some (e_reading e)
  else None.
Definition src_num (e : entry) (name : string) : option N :=
  if String.eqb name "surface.len" then Some (e_surface_len e)
  else if String.eqb name "pos" then Some (e_pos e)
  else if String.eqb name "dic_form" then Some (e_dic_form e)
  else None.
Definition src_arr (e : entry) (name : string) : option (list N) :=
  if String.eqb name "splits_a" then Some (e_splits_a e)
  else if String.eqb name "splits_b" then Some (e_splits_b e)
  else if String.eqb name "word_structure" then Some (e_word_structure e)
  else if String.eqb name "synonym_groups" then Some (e_synonyms e)
  else None.

Definition obind {A B} (a : option A) (f : A -> option B) : option B :=
  match a with Some x => f x | None => None end.

(* one statement of write_word_info *)
Definition write_field (e : entry) (w : string * string * string) : option bytes :=
  let '(op, src, other) := w in
  if String.eqb op "write" then obind (src_text e src) write_string
  else if String.eqb op "write_empty_if_equal" then
    obind (src_text e src) (fun s => obind (src_text e other) (fun o => write_string_or_empty s o))
  else if String.eqb op "write_len" then obind (src_num e src) write_len
  else if String.eqb op "le_u16" then obind (src_num e src) (fun n => Some (le16 n))
  else if String.eqb op "le_u32" then obind (src_num e src) (fun n => Some (le32 n))
  else if String.eqb op "write_u32_array" then obind (src_arr e src) write_u32_array
  else None.

Fixpoint write_fields (ws : list (string * string * string)) (e : entry) : option bytes :=
  match ws with
  | [] => Some []
  | w :: ws' => match write_field e w, write_fields ws' e with
                | Some a, Some b => Some (a ++ b)
                | _, _ => None
                end
  end.

Definition write_word_info (e : entry) : option bytes := write_fields FO.writer_fields e.

(* the field order the proofs were written for; Properties/C05.v obliges the generated one to be this *)
Definition expected_writer : list (string * string * string) :=
  [ ("write", "headword", ""); ("write_len", "surface.len", ""); ("le_u16", "pos", "");
    ("write_empty_if_equal", "norm_form", "headword"); ("le_u32", "dic_form", "");
    ("write_empty_if_equal", "reading", "headword");
    ("write_u32_array", "splits_a", ""); ("write_u32_array", "splits_b", "");
    ("write_u32_array", "word_structure", ""); ("write_u32_array", "synonym_groups", "") ]%string.

(* write_params *)
Definition write_params (e : entry) : bytes :=
  le16 (i16_bits (e_left e)) ++ le16 (i16_bits (e_right e)) ++ le16 (i16_bits (e_cost e)).

(* ------------------------------------------------------------------ WordInfoData and the subset parser *)
Inductive fid := F_surface | F_hwlen | F_pos | F_norm | F_dfwi | F_dicform | F_reading | F_a | F_b | F_ws | F_syn.
Inductive fval := VText (t : text) | VNum (n : N) | VInt (z : Z) | VArr (a : list N).

Definition fid_eqb (a b : fid) : bool :=
  match a, b with
  | F_surface, F_surface | F_hwlen, F_hwlen | F_pos, F_pos | F_norm, F_norm | F_dfwi, F_dfwi | F_dicform, F_dicform
  | F_reading, F_reading | F_a, F_a | F_b, F_b | F_ws, F_ws | F_syn, F_syn => true
  | _, _ => false
  end.

Definition winfo := fid -> fval.
(* #[derive(Default)] *)
Definition default_info : winfo := fun f =>
  match f with
  | F_surface | F_norm | F_dicform | F_reading => VText []
  | F_hwlen | F_pos => VNum 0
  | F_dfwi => VInt 0%Z
  | F_a | F_b | F_ws | F_syn => VArr []
  end.
Definition set_field (f : fid) (v : fval) (i : winfo) : winfo := fun g => if fid_eqb g f then v else i g.

Definition as_text (v : fval) : text := match v with VText t => t | _ => [] end.
Definition as_num (v : fval) : N := match v with VNum n => n | _ => 0 end.
Definition as_int (v : fval) : Z := match v with VInt z => z | _ => 0%Z end.
Definition as_arr (v : fval) : list N := match v with VArr a => a | _ => [] end.

Definition fid_of_name (s : string) : option fid :=
  if String.eqb s "surface" then Some F_surface
  else if String.eqb s "head_word_length" then Some F_hwlen
  else if String.eqb s "pos_id" then Some F_pos
  else if String.eqb s "normalized_form" then Some F_norm
  else if String.eqb s "dictionary_form_word_id" then Some F_dfwi
  else if String.eqb s "reading_form" then Some F_reading
  else if String.eqb s "a_unit_split" then Some F_a
  else if String.eqb s "b_unit_split" then Some F_b
  else if String.eqb s "word_structure" then Some F_ws
  else if String.eqb s "synonym_group_ids" then Some F_syn
  else None.

Definition parse_fn (name : string) (bs : bytes) : option (fval * bytes) :=
  if String.eqb name "utf16_string_parser" then option_map (fun p => (VText (fst p), snd p)) (read_string bs)
  else if String.eqb name "string_length_parser" then option_map (fun p => (VNum (fst p), snd p)) (read_len bs)
  else if String.eqb name "le_u16" then option_map (fun p => (VNum (fst p), snd p)) (read_le16 bs)
  else if String.eqb name "le_i32" then option_map (fun p => (VInt (to_i32 (fst p)), snd p)) (read_le32 bs)
  else if String.eqb name "u32_wid_array_parser" then option_map (fun p => (VArr (fst p), snd p)) (read_u32_array bs)
  else if String.eqb name "u32_array_parser" then option_map (fun p => (VArr (fst p), snd p)) (read_u32_array bs)
  else None.
Definition skip_fn (name : string) (bs : bytes) : option bytes :=
  if String.eqb name "skip_u16_string" then skip_string bs
  else if String.eqb name "skip_wid_array" then skip_u32_array bs
  else if String.eqb name "skip_u32_array" then skip_u32_array bs
  else None.

Fixpoint assoc {A} (k : string) (l : list (string * A)) : option A :=
  match l with
  | [] => None
  | (k', v) :: t => if String.eqb k k' then Some v else assoc k t
  end.
Definition bit_of (flag : string) : option N := assoc flag FO.subset_bits.

(* a reader field resolved against the flag table: target, bit, parser, optional skipper (None = light field) *)
Record rfield := mkRF { rf_fid : fid; rf_bit : N; rf_parse : bytes -> option (fval * bytes); rf_skip : option (bytes -> option bytes) }.

Definition resolve_rfield (bits : list (string * N)) (r : string * string * string * string) : option rfield :=
  let '(name, flag, tfn, ffn) := r in
  match fid_of_name name, assoc flag bits with
  | Some f, Some b => Some (mkRF f b (parse_fn tfn) (if String.eqb ffn "" then None else Some (skip_fn ffn)))
  | _, _ => None
  end.
Fixpoint resolve_rfields (bits : list (string * N)) (rs : list (string * string * string * string)) : option (list rfield) :=
  match rs with
  | [] => Some []
  | r :: rs' => match resolve_rfield bits r, resolve_rfields bits rs' with
                | Some x, Some xs => Some (x :: xs)
                | _, _ => None
                end
  end.

(* the expansion of the parse_field! sequence *)
Fixpoint parse_fields (rs : list rfield) (flds : N) (info : winfo) (bs : bytes) : option winfo :=
  match rs with
  | [] => Some info
  | r :: rs' =>
      if flds =? 0 then Some info
      else match rf_skip r with
           | Some skip =>
               if N.testbit flds (rf_bit r) then
                 match rf_parse r bs with
                 | Some (v, next) => parse_fields rs' (N.clearbit flds (rf_bit r)) (set_field (rf_fid r) v info) next
                 | None => None
                 end
               else match skip bs with
                    | Some next => parse_fields rs' flds info next
                    | None => None
                    end
           | None =>
               match rf_parse r bs with
               | Some (v, next) => parse_fields rs' (N.clearbit flds (rf_bit r)) (set_field (rf_fid r) v info) next
               | None => None
               end
           end
  end.

Definition reader : option (list rfield) := resolve_rfields FO.subset_bits FO.reader_fields.

(* WordInfoParser::subset(flds).parse(bytes) *)
Definition parse (flds : N) (bs : bytes) : option winfo :=
  match reader with
  | Some rs => parse_fields rs flds default_info bs
  | None => None
  end.

Definition expected_reader : list (string * string * string * string) :=
  [ ("surface", "SURFACE", "utf16_string_parser", "skip_u16_string");
    ("head_word_length", "HEAD_WORD_LENGTH", "string_length_parser", "");
    ("pos_id", "POS_ID", "le_u16", "");
    ("normalized_form", "NORMALIZED_FORM", "utf16_string_parser", "skip_u16_string");
    ("dictionary_form_word_id", "DIC_FORM_WORD_ID", "le_i32", "");
    ("reading_form", "READING_FORM", "utf16_string_parser", "skip_u16_string");
    ("a_unit_split", "SPLIT_A", "u32_wid_array_parser", "skip_wid_array");
    ("b_unit_split", "SPLIT_B", "u32_wid_array_parser", "skip_wid_array");
    ("word_structure", "WORD_STRUCTURE", "u32_wid_array_parser", "skip_wid_array");
    ("synonym_group_ids", "SYNONYM_GROUP_ID", "u32_array_parser", "skip_u32_array") ]%string.
Definition expected_bits : list (string * N) :=
  [ ("SURFACE", 0); ("HEAD_WORD_LENGTH", 1); ("POS_ID", 2); ("NORMALIZED_FORM", 3); ("DIC_FORM_WORD_ID", 4);
    ("READING_FORM", 5); ("SPLIT_A", 6); ("SPLIT_B", 7); ("WORD_STRUCTURE", 8); ("SYNONYM_GROUP_ID", 9) ]%string.

(* InfoSubset bits of the targets *)
Definition bit_of_fid (f : fid) : N :=
  match f with
  | F_surface => 0 | F_hwlen => 1 | F_pos => 2 | F_norm => 3 | F_dfwi => 4 | F_dicform => 4
  | F_reading => 5 | F_a => 6 | F_b => 7 | F_ws => 8 | F_syn => 9
  end.
Definition ALL : N := 1023.
Definition SURFACE_ONLY : N := 1.
Definition SYN_BIT : N := 9.

(* ------------------------------------------------------------------ InfoSubset::normalize *)
Definition mask_of (bits : list (string * N)) (names : list string) : N :=
  fold_left (fun m n => match assoc n bits with Some b => N.lor m (N.shiftl 1 b) | None => m end) names 0.
Definition normalize_with (bits : list (string * N)) (rules : list (list string * string)) (s : N) : N :=
  fold_left (fun s r => if N.land s (mask_of bits (fst r)) =? 0 then s else N.lor s (mask_of bits [snd r])) rules s.
Definition normalize (s : N) : N := normalize_with FO.subset_bits FO.normalize_rules s.

(* ------------------------------------------------------------------ WordInfos::get_word_info *)
(* lexicon = for each word id the bytes from its word-info offset on *)
Definition lexicon := list bytes.
(* bytes[index..] beyond the table is a panic / garbage: None.  (The guard keeps N.to_nat away from raw ids with a
   dictionary bit, 2^28 and more, when the model is run.) *)
Definition lex_get (lx : lexicon) (w : N) : option bytes :=
  if w <? N.of_nat (List.length lx) then nth_error lx (N.to_nat w) else None.

Definition get_word_info (lx : lexicon) (has_syn : bool) (wid : N) (subset : N) : option winfo :=
  let subset := if has_syn then subset else N.clearbit subset SYN_BIT in
  match lex_get lx wid with
  | None => None
  | Some bs =>
      match parse subset bs with
      | None => None
      | Some wi =>
          let dfwi := as_int (wi F_dfwi) in
          if (0 <=? dfwi)%Z && negb (dfwi =? Z.of_N wid)%Z then
            match lex_get lx (Z.to_N dfwi) with
            | None => None
            | Some bs2 => match parse SURFACE_ONLY bs2 with
                          | None => None
                          | Some inner => Some (set_field F_dicform (inner F_surface) wi)
                          end
            end
          else Some wi
      end
  end.

(* LexiconSet::get_word_info_subset on top of it: POS rebasing and re-stamping of references of user dictionaries *)
Definition restamp (dict_id : N) (ids : list N) : list N :=
  map (fun id => if 0 <? id / 268435456 then dict_id * 268435456 + id mod 268435456 else id) ids.
Definition lexset_fix (dict_id num_system_pos pos_offset subset : N) (wi : winfo) : winfo :=
  let wi := if N.testbit subset 2 && (0 <? dict_id) && (num_system_pos <=? as_num (wi F_pos))
            then set_field F_pos (VNum ((as_num (wi F_pos) - num_system_pos + pos_offset) mod 65536)) wi else wi in
  let wi := if N.testbit subset 6 then set_field F_a (VArr (restamp dict_id (as_arr (wi F_a)))) wi else wi in
  let wi := if N.testbit subset 7 then set_field F_b (VArr (restamp dict_id (as_arr (wi F_b)))) wi else wi in
  if N.testbit subset 8 then set_field F_ws (VArr (restamp dict_id (as_arr (wi F_ws)))) wi else wi.
Definition lexset_get (lx : lexicon) (has_syn : bool) (dict_id num_system_pos pos_offset wid subset : N) : option winfo :=
  option_map (lexset_fix dict_id num_system_pos pos_offset subset) (get_word_info lx has_syn wid subset).

(* ------------------------------------------------------------------ accessors of WordInfo *)
Inductive acc := A_surface | A_hwlen | A_pos | A_norm | A_dfwi | A_dicform | A_reading | A_a | A_b | A_ws | A_syn.
Definition or_surface (i : winfo) (t : text) : text := match t with [] => as_text (i F_surface) | _ => t end.
Definition accessor (a : acc) (i : winfo) : fval :=
  match a with
  | A_surface => VText (as_text (i F_surface))
  | A_hwlen => VNum (as_num (i F_hwlen))
  | A_pos => VNum (as_num (i F_pos))
  | A_norm => VText (or_surface i (as_text (i F_norm)))
  | A_dfwi => VInt (as_int (i F_dfwi))
  | A_dicform => VText (or_surface i (as_text (i F_dicform)))
  | A_reading => VText (or_surface i (as_text (i F_reading)))
  | A_a => VArr (as_arr (i F_a))
  | A_b => VArr (as_arr (i F_b))
  | A_ws => VArr (as_arr (i F_ws))
  | A_syn => VArr (as_arr (i F_syn))
  end.
(* the flag that requests an accessor, and the flags its value depends on *)
Definition acc_flag (a : acc) : N :=
  match a with
  | A_surface => 0 | A_hwlen => 1 | A_pos => 2 | A_norm => 3 | A_dfwi => 4 | A_dicform => 4
  | A_reading => 5 | A_a => 6 | A_b => 7 | A_ws => 8 | A_syn => 9
  end.
Definition acc_deps (a : acc) : list N :=
  match a with
  | A_norm => [3; 0] | A_dicform => [4; 0] | A_reading => [5; 0]
  | _ => [acc_flag a]
  end.
Definition all_acc : list acc := [A_surface; A_hwlen; A_pos; A_norm; A_dfwi; A_dicform; A_reading; A_a; A_b; A_ws; A_syn].

(* ------------------------------------------------------------------ StatefulTokenizer::{set_mode, set_subset} *)
Inductive mode := ModeA | ModeB | ModeC.
Definition mode_bits (m : mode) : N := match m with ModeA => 64 | ModeB => 128 | ModeC => 0 end.
Record tokcfg := mkTok { t_mode : mode; t_subset : N }.
Definition tok_create (m : mode) : tokcfg := mkTok m ALL.
Definition set_mode (m : mode) (t : tokcfg) : tokcfg := mkTok m (N.lor (t_subset t) (mode_bits m)).
Definition set_subset (s : N) (t : tokcfg) : tokcfg :=
  let ms := mode_bits (t_mode t) in mkTok (t_mode t) (N.lor (normalize (N.lor s ms)) ms).

(* ------------------------------------------------------------------ the words section (LexiconWriter::write) *)
Fixpoint write_infos (es : list entry) : option (list bytes) :=
  match es with
  | [] => Some []
  | e :: es' => match write_word_info e, write_infos es' with
                | Some a, Some b => Some (a :: b)
                | _, _ => None
                end
  end.
Fixpoint offsets_from (base : N) (infos : list bytes) : list N :=
  match infos with
  | [] => []
  | i :: t => base :: offsets_from (base + N.of_nat (List.length i)) t
  end.
(* offset = position of the section in the file *)
Definition write_words_section (offset : N) (es : list entry) : option bytes :=
  match write_infos es with
  | None => None
  | Some infos =>
      let n := N.of_nat (List.length es) in
      let base := offset + 10 * n + 4 in
      Some (le32 n ++ flat_map write_params es ++ flat_map (fun o => le32 (o mod 4294967296)) (offsets_from base infos) ++ List.concat infos)
  end.

(* ------------------------------------------------------------------ equality tests used by the case files *)
Fixpoint nlist_eqb (a b : list N) : bool :=
  match a, b with
  | [], [] => true
  | x :: a', y :: b' => (x =? y) && nlist_eqb a' b'
  | _, _ => false
  end.
Definition fval_eqb (a b : fval) : bool :=
  match a, b with
  | VText x, VText y => nlist_eqb x y
  | VNum x, VNum y => x =? y
  | VInt x, VInt y => (x =? y)%Z
  | VArr x, VArr y => nlist_eqb x y
  | _, _ => false
  end.
Definition all_fids : list fid := [F_surface; F_hwlen; F_pos; F_norm; F_dfwi; F_dicform; F_reading; F_a; F_b; F_ws; F_syn].
Definition winfo_eqb (a b : winfo) : bool := forallb (fun f => fval_eqb (a f) (b f)) all_fids.
Definition obytes_eqb (a : option bytes) (b : bytes) : bool := match a with Some x => nlist_eqb x b | None => false end.

(* WordParams::get_params on the bytes of the params array *)
Definition read_params (bs : bytes) : option (Z * Z * Z) :=
  match bs with
  | b0 :: b1 :: b2 :: b3 :: b4 :: b5 :: _ => Some (to_i16 (b0 + 256 * b1), to_i16 (b2 + 256 * b3), to_i16 (b4 + 256 * b5))
  | _ => None
  end.

(* what C05 demands of a loaded entry, in terms of the declared one ("" in a form column = same as the headword) *)
Definition or_headword (e : entry) (t : text) : text := match t with [] => e_headword e | _ => t end.
Definition entry_ok (e : entry) : bool :=
  forallb is_scalar (e_headword e) && forallb is_scalar (e_norm e) && forallb is_scalar (e_reading e)
  && (e_pos e <? 65536) && (e_dic_form e <? 4294967296)
  && forallb (fun x => x <? 4294967296) (e_splits_a e) && forallb (fun x => x <? 4294967296) (e_splits_b e)
  && forallb (fun x => x <? 4294967296) (e_word_structure e) && forallb (fun x => x <? 4294967296) (e_synonyms e).

(* ------------------------------------------------------------------ the words section inside the file *)
(* Lexicon::parse / WordParams / WordInfos work on the whole file with absolute positions.  `off` = position of the
   words section (u32 count, 6 bytes of params per word, u32 offset per word, word infos). *)
Fixpoint nrange (k : nat) (from : N) : list N := match k with O => [] | S k' => from :: nrange k' (N.succ from) end.
Definition file_count (file : bytes) (off : N) : N :=
  match read_le32 (skipn (N.to_nat off) file) with Some (n, _) => n | None => 0 end.
(* WordInfos::word_id_to_offset: the u32 at bytes[off + 4 + 6 n + 4 wid ..]; parse_word_info parses &bytes[index..]
   (an index past the end panics; here: nothing to parse) *)
Definition file_word_bytes (file : bytes) (off n wid : N) : bytes :=
  match read_le32 (skipn (N.to_nat (off + 4 + 6 * n + 4 * wid)) file) with
  | Some (o, _) => skipn (N.to_nat o) file
  | None => []
  end.
Definition lexicon_of_file (file : bytes) (off : N) : lexicon :=
  let n := file_count file off in map (file_word_bytes file off n) (nrange (N.to_nat n) 0).
(* WordParams::get_params *)
Definition file_params (file : bytes) (off wid : N) : option (Z * Z * Z) :=
  read_params (skipn (N.to_nat (off + 4 + 6 * wid)) file).

(* ------------------------------------------------------------------ UTF-8 *)
(* str::as_bytes: the bytes of a text (the keys of the index trie are the UTF-8 bytes of the index form) *)
Definition utf8_of_cp (c : N) : bytes :=
  if c <? 128 then [c]
  else if c <? 2048 then [192 + c / 64; 128 + c mod 64]
  else if c <? 65536 then [224 + c / 4096; 128 + (c / 64) mod 64; 128 + c mod 64]
  else [240 + c / 262144; 128 + (c / 4096) mod 64; 128 + (c / 64) mod 64; 128 + c mod 64].
Definition utf8_bytes (s : text) : bytes := flat_map utf8_of_cp s.
