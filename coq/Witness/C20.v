(* C20 — non-vacuity examples, and refutation witnesses for the guards of the tree as it was pinned
   (`>` instead of `>=`, comparison with the other dimension, no check of inhibit pairs). *)
From Coq Require Import List ZArith NArith Bool.
From SudachiVerif Require Import Model.GuardLang Model.Params.
Import ListNotations.
Open Scope Z_scope.

(* ---- non-vacuity: a non-square grammar and a configuration using all four plugin kinds is accepted by the current code *)
Definition ex_g : gram := mkGram 3 2 [0%N; 1%N; 2%N].
Definition ex_cfg : config :=
  mkCfg [[(2, 1); (0, 0)]; []]
        [Simple 1 2 (-32768) (true, 1%N) false; Regex 0 0 32767 (true, 7%N) true;
         Mecab [(1, 2, 5, (true, 7%N)); (0, 1, -3, (true, 9%N))] true].

Example ex_wf : wf_gram ex_g.
Proof. unfold wf_gram, ex_g; cbn. repeat split; discriminate. Qed.

Example ex_loads : exists L, load false ex_g ex_cfg = Ok L /\ l_pos L = [0; 1; 2; 7; 9]%N
                              /\ l_edits L = [(0, 32767); (5, 32767)].
Proof. eexists. vm_compute. repeat split. Qed.

Example ex_boundary_rejected :
  map (fun o => match load true ex_g (mkCfg [] [o]) with Ok _ => 1 | Err => 0 | Panic => 2 end)
      [Simple 2 0 0 (true, 0%N) false; Simple 1 3 0 (true, 0%N) false; Simple (-1) 0 0 (true, 0%N) false;
       Simple 0 0 32768 (true, 0%N) false; Simple 0 0 0 (true, 5%N) false; Simple 0 0 0 (true, 5%N) true;
       Simple 0 0 0 (false, 0%N) true; Simple 65536 0 0 (true, 0%N) false; Mecab [(1, 2, 0, (true, 0%N))] false;
       Mecab [(1, 2, 0, (true, 0%N)); (2, 2, 0, (true, 0%N))] false; Mecab [(0, 0, 32768, (true, 0%N))] false]
  = [0; 0; 0; 0; 0; 1; 0; 0; 1; 0; 0].
Proof. vm_compute. reflexivity. Qed.

Example ex_inhibit_rejected :
  map (fun ps => match load true ex_g (mkCfg [ps] [Simple 0 0 0 (true, 0%N) false]) with Ok _ => 1 | Err => 0 | Panic => 2 end)
      [[(2, 1)]; [(3, 0)]; [(0, 2)]; [(-1, 0)]; [(0, 0); (32768, 0)]] = [1; 0; 0; 0; 0].
Proof. vm_compute. reflexivity. Qed.

(* ---- the pinned tree: its guards, written out *)
Definition pinned_facts : pfacts :=
  mkFacts [mkG CastNone CLt (OConst 0); mkG CastUsize CGt (ODim NumLeft)]
          [mkG CastNone CLt (OConst 0); mkG CastUsize CGt (ODim NumRight)]
          [mkG CastNone CLt (OConst (-32768)); mkG CastNone CGt (OConst 32767)]
          I64 I16 [mkG CastUsize CGt (ODim NumLeft)] [mkG CastUsize CGt (ODim NumRight)]
          I16 [] [] 32767
          (IAdd (IMul IRight INumLeft) ILeft) true true true KRightId KLeftId (mkG CastNone CGt (OConst 65535)).

Example pinned_guards_fail_obligation : facts_ok pinned_facts = false.
Proof. vm_compute. reflexivity. Qed.

Definition g10 : gram := mkGram 10 10 [0%N].

(* defect 1: leftId = 10 is accepted on a 10x10 matrix (`>` where `>=` was meant) *)
Example accepted_config_is_valid_refuted_pinned_gt :
  exists cfg L, load_with pinned_facts true g10 cfg = Ok L /\ spec_accepts g10 cfg = false.
Proof. exists (mkCfg [] [Simple 10 0 0 (true, 0%N) false]). eexists. vm_compute. split; reflexivity. Qed.

Example accepted_config_is_valid_refuted_pinned_unk :
  exists cfg L, load_with pinned_facts true g10 cfg = Ok L /\ spec_accepts g10 cfg = false.
Proof. exists (mkCfg [] [Mecab [(0, 10, 0, (true, 0%N))] false]). eexists. vm_compute. split; reflexivity. Qed.

(* defect 2: inhibitPair [10,0] on 10x10: debug build panics while loading, release build silently sets cell (0,1) *)
Example load_never_panics_refuted_pinned_inhibit :
  load_with pinned_facts true g10 (mkCfg [[(10, 0)]] [Simple 0 0 0 (true, 0%N) false]) = Panic.
Proof. vm_compute. reflexivity. Qed.

Example inhibit_edits_named_cells_refuted_pinned_release :
  exists L, load_with pinned_facts false g10 (mkCfg [[(10, 0)]] [Simple 0 0 0 (true, 0%N) false]) = Ok L
            /\ cell_after pinned_facts g10 init_cost (l_edits L) 0 1 = 32767
            /\ cell_spec 32767 init_cost [(10, 0)] 0 1 = init_cost 0 1 /\ init_cost 0 1 <> 32767.
Proof. eexists. vm_compute. repeat split. discriminate. Qed.

(* negative members wrap through `as u16`: [-1,0] stores at index 65535 (a panic on small matrices, another cell on big ones) *)
Example inhibit_negative_member_refuted_pinned :
  load_with pinned_facts false g10 (mkCfg [[(-1, 0)]] [Simple 0 0 0 (true, 0%N) false]) = Panic
  /\ exists L, load_with pinned_facts false (mkGram 32767 3 [0%N]) (mkCfg [[(-1, 0)]] [Simple 0 0 0 (true, 0%N) false]) = Ok L
               /\ l_edits L = [(65535, 32767)].
Proof. split; [vm_compute; reflexivity|]. eexists. vm_compute. split; reflexivity. Qed.

(* defect 6 (load side): on a 3x2 matrix the pinned guards accept leftId = 2 (compared with num_left = 3) although a
   node's left_id selects a row of which there are num_right = 2 *)
Example accepted_config_is_valid_refuted_pinned_nonsquare :
  exists cfg L, load_with pinned_facts true (mkGram 3 2 [0%N]) cfg = Ok L /\ spec_accepts (mkGram 3 2 [0%N]) cfg = false.
Proof. exists (mkCfg [] [Simple 2 1 0 (true, 0%N) false]). eexists. vm_compute. split; reflexivity. Qed.
