(* C20 — non-vacuity examples, and refutation witnesses for the guards of the tree as it was pinned
   (`>` instead of `>=`, comparison with the other dimension, no check of inhibit pairs). *)
From Coq Require Import List ZArith NArith Bool.
From SudachiVerif Require Import Model.GuardLang Model.Params.
Import ListNotations.
Open Scope Z_scope.

(* ---- non-vacuity: a non-square grammar and a configuration using all four plugin kinds is accepted by the current code *)
Definition ex_g : gram := mkGram 3 2 [0%N; 1%N; 2%N].
Definition ex_cfg : config :=
  mkCfg [[(2, 1); (0, 0)]; []]
        [Simple 1 2 (-32768) (true, 1%N) false; Regex 0 0 32767 (true, 7%N) true;
         Mecab [(1, 2, 5, (true, 7%N)); (0, 1, -3, (true, 9%N))] true].

Example ex_wf : wf_gram ex_g.
Proof. unfold wf_gram, ex_g; cbn. repeat split; discriminate. Qed.

Example ex_loads : exists L, load false ex_g ex_cfg = Ok L /\ l_pos L = [0; 1; 2; 7; 9]%N
                              /\ l_edits L = [(0, 32767); (5, 32767)].
Proof. eexists. vm_compute. repeat split. Qed.

Example ex_boundary_rejected :
  map (fun o => match load true ex_g (mkCfg [] [o]) with Ok _ => 1 | Err => 0 | Panic => 2 end)
      [Simple 2 0 0 (true, 0%N) false; Simple 1 3 0 (true, 0%N) false; Simple (-1) 0 0 (true, 0%N) false;
       Simple 0 0 32768 (true, 0%N) false; Simple 0 0 0 (true, 5%N) false; Simple 0 0 0 (true, 5%N) true;
       Simple 0 0 0 (false, 0%N) true; Simple 65536 0 0 (true, 0%N) false; Mecab [(1, 2, 0, (true, 0%N))] false;
       Mecab [(1, 2, 0, (true, 0%N)); (2, 2, 0, (true, 0%N))] false; Mecab [(0, 0, 32768, (true, 0%N))] false]
  = [0; 0; 0; 0; 0; 1; 0; 0; 1; 0; 0].
Proof. vm_compute. reflexivity. Qed.

Example ex_inhibit_rejected :
  map (fun ps => match load true ex_g (mkCfg [ps] [Simple 0 0 0 (true, 0%N) false]) with Ok _ => 1 | Err => 0 | Panic => 2 end)
      [[(2, 1)]; [(3, 0)]; [(0, 2)]; [(-1, 0)]; [(0, 0); (32768, 0)]] = [1; 0; 0; 0; 0].
Proof. vm_compute. reflexivity. Qed.

(* ---- the pinned tree: its guards, written out *)
Definition pinned_facts : pfacts :=
  mkFacts [mkG CastNone CLt (OConst 0); mkG CastUsize CGt (ODim NumLeft)]
          [mkG CastNone CLt (OConst 0); mkG CastUsize CGt (ODim NumRight)]
          [mkG CastNone CLt (OConst (-32768)); mkG CastNone CGt (OConst 32767)]
          I64 I16 [mkG CastUsize CGt (ODim NumLeft)] [mkG CastUsize CGt (ODim NumRight)]
          I16 [] [] 32767
          (IAdd (IMul IRight INumLeft) ILeft) true true true KRightId KLeftId (mkG CastNone CGt (OConst 65535)).

Example pinned_guards_fail_obligation : facts_ok pinned_facts = false.
Proof. vm_compute. reflexivity. Qed.

Definition g10 : gram := mkGram 10 10 [0%N].

(* defect 1: leftId = 10 is accepted on a 10x10 matrix (`>` where `>=` was meant) *)
Example accepted_config_is_valid_refuted_pinned_gt :
  exists cfg L, load_with pinned_facts true g10 cfg = Ok L /\ spec_accepts g10 cfg = false.
Proof. exists (mkCfg [] [Simple 10 0 0 (true, 0%N) false]). eexists. vm_compute. split; reflexivity. Qed.

Example accepted_config_is_valid_refuted_pinned_unk :
  exists cfg L, load_with pinned_facts true g10 cfg = Ok L /\ spec_accepts g10 cfg = false.
Proof. exists (mkCfg [] [Mecab [(0, 10, 0, (true, 0%N))] false]). eexists. vm_compute. split; reflexivity. Qed.

(* defect 2: inhibitPair [10,0] on 10x10: debug build panics while loading, release build silently sets cell (0,1) *)
Example load_never_panics_refuted_pinned_inhibit :
  load_with pinned_facts true g10 (mkCfg [[(10, 0)]] [Simple 0 0 0 (true, 0%N) false]) = Panic.
Proof. vm_compute. reflexivity. Qed.

Example inhibit_edits_named_cells_refuted_pinned_release :
  exists L, load_with pinned_facts false g10 (mkCfg [[(10, 0)]] [Simple 0 0 0 (true, 0%N) false]) = Ok L
            /\ cell_after pinned_facts g10 init_cost (l_edits L) 0 1 = 32767
            /\ cell_spec 32767 init_cost [(10, 0)] 0 1 = init_cost 0 1 /\ init_cost 0 1 <> 32767.
Proof. eexists. vm_compute. repeat split. discriminate. Qed.

(* negative members wrap through `as u16`: [-1,0] stores at index 65535 (a panic on small matrices, another cell on big ones) *)
Example inhibit_negative_member_refuted_pinned :
  load_with pinned_facts false g10 (mkCfg [[(-1, 0)]] [Simple 0 0 0 (true, 0%N) false]) = Panic
  /\ exists L, load_with pinned_facts false (mkGram 32767 3 [0%N]) (mkCfg [[(-1, 0)]] [Simple 0 0 0 (true, 0%N) false]) = Ok L
               /\ l_edits L = [(65535, 32767)].
Proof. split; [vm_compute; reflexivity|]. eexists. vm_compute. split; reflexivity. Qed.

(* defect 6 (load side): on a 3x2 matrix the pinned guards accept leftId = 2 (compared with num_left = 3) although a
   node's left_id selects a row of which there are num_right = 2 *)
Example accepted_config_is_valid_refuted_pinned_nonsquare :
  exists cfg L, load_with pinned_facts true (mkGram 3 2 [0%N]) cfg = Ok L /\ spec_accepts (mkGram 3 2 [0%N]) cfg = false.
Proof. exists (mkCfg [] [Simple 2 1 0 (true, 0%N) false]). eexists. vm_compute. split; reflexivity. Qed.

(* ======================================================================================================================
   Text layer *)
From Coq Require Import String.
From SudachiVerif Require Import Model.UnkDefText Model.CharDefText.
Open Scope string_scope.

Definition T (s : string) : text := bytes_of s.   (* ASCII *)
Definition LF : string := String (Ascii.ascii_of_nat 10) EmptyString.
Definition CR : string := String (Ascii.ascii_of_nat 13) EmptyString.
Definition TAB : string := String (Ascii.ascii_of_nat 9) EmptyString.

Definition ex_chardef : text :=
  T ("# categories" ++ LF ++ "DEFAULT 0 1 0  # mandatory" ++ CR ++ LF ++ LF ++ "0x0030..0x0039 NUMERIC" ++ LF
     ++ "  ALPHA" ++ TAB ++ "1 1  2 " ++ LF ++ "NUMERIC|KANJI yes 01 +3").
Definition ex_unkdef : text :=
  T ("#comment" ++ LF ++ "ALPHA,1,2,-5,a,b,c,d,e,f" ++ CR ++ LF ++ " DEFAULT,+0,0,32767,a,b,c,d,e,f,extra " ++ LF ++ LF
     ++ "KANJI | NUMERIC,0,1,7,p,q,r,s,t,u" ++ LF ++ "ALPHA,0,0,0,a,b,c,d,e,f").

(* non-vacuity of C20_charprop_text_spec / C20_unk_text_spec: comments, blank and range lines skipped, CRLF and padding
   tolerated, composite category, flags other than "1" read as false, '+' accepted *)
Example ex_charprop_reads :
  read_character_property ex_chardef = CPOk [mkCat 1 false true 0; mkCat 32 true true 2; mkCat 20 false false 3].
Proof. vm_compute. reflexivity. Qed.

Example ex_unk_reads :
  read_oov_text [1; 32; 20]%N ex_unkdef
  = UOk [mkTpl 32 1 2 (-5) (map T ["a"; "b"; "c"; "d"; "e"; "f"]); mkTpl 1 0 0 32767 (map T ["a"; "b"; "c"; "d"; "e"; "f"]);
         mkTpl 20 0 1 7 (map T ["p"; "q"; "r"; "s"; "t"; "u"]); mkTpl 32 0 0 0 (map T ["a"; "b"; "c"; "d"; "e"; "f"])]
  /\ templates_of 32 [mkTpl 32 1 2 (-5) []; mkTpl 1 0 0 32767 []; mkTpl 32 0 0 0 []] = [mkTpl 32 1 2 (-5) []; mkTpl 32 0 0 0 []].
Proof. vm_compute. split; reflexivity. Qed.

(* the enumerated error kinds, each with its line *)
Example ex_charprop_errors :
  map (fun s => read_character_property (T s))
      ["DEFAULT 0 1"; "DEFAULT 0 1 0" ++ LF ++ "alpha 1 1 0"; "ALPHA 1 1 0" ++ LF ++ "# c" ++ LF ++ "ALPHA 0 0 1"; "DEFAULT 0 1 -1";
       "DEFAULT 0 1 4294967296"; "DEFAULT 0 1 4294967295"; "ALPHA| 1 1 0"]
  = [CPErr 0 CpTooFewColumns; CPErr 1 CpBadCategory; CPErr 2 CpDuplicate; CPErr 0 CpBadLength; CPErr 0 CpBadLength;
     CPOk [mkCat 1 false true 4294967295]; CPErr 0 CpBadCategory].
Proof. vm_compute. reflexivity. Qed.

Example ex_unk_errors :
  map (fun s => match read_oov_text [1; 32]%N (T s) with UOk ts => (0%N, 99%nat) | UErr i e =>
                  (i, match e with UTooFewColumns => 0 | UBadCategory => 1 | UUndefinedCategory => 2 | UBadNumber k => (10 + k) end)%nat end)
      ["ALPHA,1,1,1,a,b,c,d,e"; "ALPHA,1,1,1,a,b,c,d,e,f" ++ LF ++ "alpha,1,1,1,a,b,c,d,e,f"; "KANJI,1,1,1,a,b,c,d,e,f";
       ",1,1,1,a,b,c,d,e,f"; "ALPHA, 1,1,1,a,b,c,d,e,f"; "ALPHA,1,32768,1,a,b,c,d,e,f"; "ALPHA,1,1,-32769,a,b,c,d,e,f";
       "ALPHA,-1,1,1,a,b,c,d,e,f"; "0x20,1,1,1,a,b,c,d,e,f"]
  = [(0%N, 0); (1%N, 1); (0%N, 2); (0%N, 2); (0%N, 11); (0%N, 12); (0%N, 13); (0%N, 99); (0%N, 99)]%nat.
Proof. vm_compute. reflexivity. Qed.

(* the composed set-up on a 3x2 grammar: boundary ids accepted, the dimension itself rejected as a range error of its line,
   an absent POS rejected under forbid and registered under allow *)
Definition kp (s : list string) : N := pos_key (map T s).
Definition ex_tg : gram := mkGram 3 2 [kp ["a"; "b"; "c"; "d"; "e"; "f"]].
Example ex_setup :
  map (fun ua => match mecab_setup ex_tg (pos ex_tg) (snd ua) (T "DEFAULT 0 1 0") (T (fst ua)) with
                 | SetupOk _ ts tbl => (0%N, N.of_nat (List.length ts), N.of_nat (List.length tbl))
                 | SetupErr e => (fst (err_code e), match snd (err_code e) with Some i => i | None => 77%N end, 0%N)
                 | SetupPanic => (99%N, 0%N, 0%N)
                 end)
      [("DEFAULT,1,2,0,a,b,c,d,e,f", false); ("DEFAULT,2,0,0,a,b,c,d,e,f", false); ("DEFAULT,0,3,0,a,b,c,d,e,f", false);
       ("DEFAULT,0,0,0,a,b,c,d,e,g", false); ("DEFAULT,0,0,0,a,b,c,d,e,g" ++ LF ++ "DEFAULT,0,0,0,a,b,c,d,e,g", true);
       ("DEFAULT,0,0,0,a,b,c,d,e,f" ++ LF ++ "DEFAULT,0,x,0,a,b,c,d,e,f", false)]
  = [(0, 1, 1); (6, 77, 0); (6, 77, 0); (5, 77, 0); (0, 2, 2); (4, 77, 0)]%N.
Proof. vm_compute. reflexivity. Qed.
