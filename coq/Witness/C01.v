(* Non-vacuity for C01: on the reachable state of Witness/C08.v ("aéあ😀" rewritten to "ééx😀😀" by three batches) a path
   with an empty range, a range covering a deleted prefix and a range that is empty in the original partitions the input. *)
From Coq Require Import List NArith Arith.
From SudachiVerif Require Witness.C01Pipeline.
From SudachiVerif Require Witness.C01EndToEnd.   (* non-vacuity of C01_tokenizer_end_to_end *)   (* non-vacuity of the end-to-end pipeline theorem *)
From SudachiVerif Require Witness.C01Rows.       (* non-vacuity of C01_tokenizer_end_to_end_from_rows / _machine *)
From SudachiVerif Require Import Model.Buffer Proofs.BufferProofs Properties.C01 Witness.C08.
Import ListNotations.
Open Scope nat_scope.

(* "éé" | "" | "x" | "😀" | "😀" over the rewritten text *)
Definition ex_path : list (nat * nat) := [(0, 4); (4, 4); (4, 5); (5, 9); (9, 13)].

Example ex_path_ok : path_ok_b (cur ex_s3) ex_path = true.
Proof. vm_compute. reflexivity. Qed.

(* "aé" | "" | "あ" | "😀" | "" in the original *)
Example ex_ranges : map (map_range (m2o ex_s3)) ex_path = [(0, 3); (3, 3); (3, 6); (6, 10); (10, 10)].
Proof. vm_compute. reflexivity. Qed.

Example ex_partition :
  partition_b ex_o (map (map_range (m2o ex_s3)) ex_path) = true /\
  concat (map (byte_slice ex_o) (map (map_range (m2o ex_s3)) ex_path)) = ex_o.
Proof.
  destruct (C01_surfaces_partition ex_o ex_s3 ex_path ex_wf ex_reach ex_path_ok) as (H1 & H2 & _). split; assumption.
Qed.

(* a path that cuts inside a character, or leaves a gap, is not accepted by the hypothesis *)
Example ex_bad_paths : path_ok_b (cur ex_s3) [(0, 1); (1, 13)] = false /\ path_ok_b (cur ex_s3) [(0, 4); (5, 13)] = false.
Proof. vm_compute. split; reflexivity. Qed.
