From Coq Require Import List NArith Bool.
From SudachiVerif Require Import Model.Cli.
Import ListNotations.
Open Scope N_scope.

(* "a\n" "\n" "b\r\n" "\r\n" "c" : blank lines, CRLF, no final newline *)
Definition ex_lines : list (list N * nat) := [([97], 1%nat); ([], 1%nat); ([98], 2%nat); ([], 2%nat); ([99], 0%nat)].
Example ex_lines_ok : lines_ok ex_lines = true.
Proof. vm_compute. reflexivity. Qed.
Example ex_texts : cli_texts (file_of ex_lines) = [[97]; []; [98]; []; [99]].
Proof. vm_compute. reflexivity. Qed.
(* the pinned tree's guards (`len > 1`) left the terminator of blank lines: refuted model variant *)
Example old_guards_refuted : map (strip_eol_gen 1 1) (split_lines (file_of ex_lines)) <> map fst ex_lines.
Proof. vm_compute. discriminate. Qed.
Example ex_wakati : wakati [[97]; [98; 99]] = [97; 32; 98; 99; 10] /\ wakati [] = [10].
Proof. vm_compute. split; reflexivity. Qed.

(* ---- column output ---- *)
From Coq Require Import ZArith String.
From SudachiVerif Require Import Model.CliColumns.
Definition bs (s : string) : list N := bytes_of_string s.
Definition ex_m1 : morph := {| m_surface := bs "ab"; m_pos := [bs "N"; bs "*"; bs "x"]; m_norm := bs "AB"; m_dict := bs "ab";
                               m_reading := bs "ei"; m_dicid := 0%Z; m_syn := [1; 20]; m_oov := false |}.
Definition ex_m2 : morph := {| m_surface := bs "?"; m_pos := [bs "S"]; m_norm := bs "?"; m_dict := bs "?";
                               m_reading := []; m_dicid := (-1)%Z; m_syn := []; m_oov := true |}.
Example ex_clean : forallb clean [ex_m1; ex_m2] = true.
Proof. vm_compute. reflexivity. Qed.
Example ex_simple_basic : simple false [ex_m1; ex_m2] = bs "ab" ++ [9] ++ bs "N,*,x" ++ [9] ++ bs "AB" ++ [10] ++
                                                       bs "?" ++ [9] ++ bs "S" ++ [9] ++ bs "?" ++ [10] ++ bs "EOS" ++ [10].
Proof. vm_compute. reflexivity. Qed.
Example ex_simple_all : simple true [ex_m2] =
  bs "?" ++ [9] ++ bs "S" ++ [9] ++ bs "?" ++ [9] ++ bs "?" ++ [9] ++ [9] ++ bs "-1" ++ [9] ++ bs "[]" ++ [9] ++ bs "(OOV)" ++ [10]
  ++ bs "EOS" ++ [10].
Proof. vm_compute. reflexivity. Qed.
Example ex_debug_list : debug_list [1; 20; 300] = bs "[1, 20, 300]".
Proof. vm_compute. reflexivity. Qed.
Example ex_check_simple : check_simple true [ex_m1; ex_m2] (simple true [ex_m1; ex_m2]) = true.
Proof. vm_compute. reflexivity. Qed.
(* the hypothesis `clean` is needed: a surface containing a tab shifts the columns *)
Example unclean_columns_shift :
  let m := {| m_surface := [97; 9; 98]; m_pos := [bs "S"]; m_norm := [97]; m_dict := []; m_reading := []; m_dicid := 0%Z;
              m_syn := []; m_oov := false |} in
  split_on TAB (line false m) <> fields false m.
Proof. vm_compute. discriminate. Qed.
