From Coq Require Import List NArith Bool.
From SudachiVerif Require Import Model.Cli.
Import ListNotations.
Open Scope N_scope.

(* "a\n" "\n" "b\r\n" "\r\n" "c" : blank lines, CRLF, no final newline *)
Definition ex_lines : list (list N * nat) := [([97], 1%nat); ([], 1%nat); ([98], 2%nat); ([], 2%nat); ([99], 0%nat)].
Example ex_lines_ok : lines_ok ex_lines = true.
Proof. vm_compute. reflexivity. Qed.
Example ex_texts : cli_texts (file_of ex_lines) = [[97]; []; [98]; []; [99]].
Proof. vm_compute. reflexivity. Qed.
(* the pinned tree's guards (`len > 1`) left the terminator of blank lines: refuted model variant *)
Example old_guards_refuted : map (strip_eol_gen 1 1) (split_lines (file_of ex_lines)) <> map fst ex_lines.
Proof. vm_compute. discriminate. Qed.
Example ex_wakati : wakati [[97]; [98; 99]] = [97; 32; 98; 99; 10] /\ wakati [] = [10].
Proof. vm_compute. split; reflexivity. Qed.

(* ---- column output ---- *)
From Coq Require Import ZArith String.
From SudachiVerif Require Import Model.CliColumns.
Definition bs (s : string) : list N := bytes_of_string s.
Definition ex_m1 : morph := {| m_surface := bs "ab"; m_pos := [bs "N"; bs "*"; bs "x"]; m_norm := bs "AB"; m_dict := bs "ab";
                               m_reading := bs "ei"; m_dicid := 0%Z; m_syn := [1; 20]; m_oov := false |}.
Definition ex_m2 : morph := {| m_surface := bs "?"; m_pos := [bs "S"]; m_norm := bs "?"; m_dict := bs "?";
                               m_reading := []; m_dicid := (-1)%Z; m_syn := []; m_oov := true |}.
Example ex_clean : forallb clean [ex_m1; ex_m2] = true.
Proof. vm_compute. reflexivity. Qed.
Example ex_simple_basic : simple false [ex_m1; ex_m2] = bs "ab" ++ [9] ++ bs "N,*,x" ++ [9] ++ bs "AB" ++ [10] ++
                                                       bs "?" ++ [9] ++ bs "S" ++ [9] ++ bs "?" ++ [10] ++ bs "EOS" ++ [10].
Proof. vm_compute. reflexivity. Qed.
Example ex_simple_all : simple true [ex_m2] =
  bs "?" ++ [9] ++ bs "S" ++ [9] ++ bs "?" ++ [9] ++ bs "?" ++ [9] ++ [9] ++ bs "-1" ++ [9] ++ bs "[]" ++ [9] ++ bs "(OOV)" ++ [10]
  ++ bs "EOS" ++ [10].
Proof. vm_compute. reflexivity. Qed.
Example ex_debug_list : debug_list [1; 20; 300] = bs "[1, 20, 300]".
Proof. vm_compute. reflexivity. Qed.
Example ex_check_simple : check_simple true [ex_m1; ex_m2] (simple true [ex_m1; ex_m2]) = true.
Proof. vm_compute. reflexivity. Qed.
(* the hypothesis `clean` is needed: a surface containing a tab shifts the columns *)
Example unclean_columns_shift :
  let m := {| m_surface := [97; 9; 98]; m_pos := [bs "S"]; m_norm := [97]; m_dict := []; m_reading := []; m_dicid := 0%Z;
              m_syn := []; m_oov := false |} in
  split_on TAB (line false m) <> fields false m.
Proof. vm_compute. discriminate. Qed.

(* ---- Python glue (Model/PyProjection.v) ------------------------------------------------------------------------------ *)
From SudachiVerif Require Import Model.Codec Model.PyProjection Proofs.PyProjectionProofs.

(* POS table: 0 = 名詞,普通名詞,一般,*,*,*   1 = 動詞,非自立可能,*,*,五段-カ行,連用形-促音便 ; morphemes 京都 (noun) and 行っ (verb) *)
Definition ex_pl : list (list text) :=
  [ [[21517; 35422]; [26222; 36890; 21517; 35422]; [19968; 33324]; [42]; [42]; [42]];
    [[21205; 35422]; [38750; 33258; 31435; 21487; 33021]; [42]; [42]; [20116; 27573; 45; 12459; 34892]; [36899; 29992; 24418; 45; 20419; 38899; 20415]] ].
Definition ex_noun : pym := mkPym [20140; 37117] 0 [20140; 37117] [12461; 12519; 12454; 12488] [20140; 37117].
Definition ex_verb : pym := mkPym [34892; 12387] 1 [34892; 12367] [12452; 12483] [34892; 12367].

Example ex_projections :
  map (fun k => (project ex_pl k ex_noun, project ex_pl k ex_verb)) all_kinds =
  [ (Some [20140; 37117], Some [34892; 12387]);                  (* surface *)
    (Some [20140; 37117], Some [34892; 12367]);                  (* normalized: 行っ -> 行く *)
    (Some [12461; 12519; 12454; 12488], Some [12452; 12483]);    (* reading *)
    (Some [20140; 37117], Some [34892; 12367]);                  (* dictionary *)
    (Some [20140; 37117], Some [34892; 12387]);                  (* dictionary_and_surface: the verb keeps its surface *)
    (Some [20140; 37117], Some [34892; 12387]);                  (* normalized_and_surface *)
    (Some [20140; 37117], Some [34892; 12387]) ].                (* normalized_nouns: the verb has a conjugation form *)
Proof. vm_compute. reflexivity. Qed.

Example ex_names :
  kind_of_name "normalized_nouns" = Some PNormalizedNouns /\ kind_of_name "Normalized" = None /\ kind_of_name "" = None.
Proof. vm_compute. repeat split. Qed.

Example ex_fields :
  parse_field_subset (Some ["pos"; "split_a"]%string) = Some 68 /\ parse_field_subset (Some ["pos"; "surfaces"]%string) = None /\
  parse_field_subset None = Some 1023 /\ parse_field_subset (Some []) = Some 0 /\
  loaded_subset 0 (Some PNormalizedNouns) = 9.      (* fields=set(), projection normalized_nouns: NORMALIZED_FORM | SURFACE *)
Proof. vm_compute. repeat split. Qed.

(* the hypothesis of C19_pos_id_loaded_with_any_later_field is met by the subset of the last example: flag 3 *)
Example ex_later_field : N.testbit (loaded_subset 0 (Some PNormalizedNouns)) 3 = true /\ N.testbit (loaded_subset 0 (Some PNormalizedNouns)) 2 = false.
Proof. vm_compute. split; reflexivity. Qed.

(* ---- Dictionary.lookup: the hypotheses of C19_lookup_rows are met by a stack of three certified dictionaries, each of which
   holds the query "abc" AND its proper prefix "ab" (the array of Witness/C04.v as system, user 1 and user 2) ---- *)
From SudachiVerif Require Import Model.Trie Model.WordIdTable Model.LexSet Model.LookupAll.
From SudachiVerif Require Witness.C04.

Definition ex_lex : lexicon := mkLex Witness.C04.ex_trie Witness.C04.ex_table.
Definition ex_src : list row := [([97; 98], 1%Z); ([97; 98; 99], 1%Z); ([98], 2%Z)].
Example ex_lookup_certified : forallb (fun L => cert_lex L ex_src 4) [ex_lex; ex_lex; ex_lex] = true.
Proof. vm_compute. reflexivity. Qed.
(* the walk: user 2's "ab", "abc"; user 1's "ab" (SHORTER than the entry before it), "abc"; the system's "ab", "abc" *)
Example ex_lookup_walk : lookup_set [ex_lex; ex_lex; ex_lex] [97; 98; 99] 0
  = Some [(536870912, 2); (536870913, 3); (268435456, 2); (268435457, 3); (0, 2); (1, 3)].
Proof. vm_compute. reflexivity. Qed.
(* all three "abc" are returned, last dictionary first -- and that is what the source rows say *)
Example ex_lookup_all : lookup_all [ex_lex; ex_lex; ex_lex] [97; 98; 99] = Some [536870913; 268435457; 1]
  /\ rows_answer [ex_src; ex_src; ex_src] [97; 98; 99] = [536870913; 268435457; 1]
  /\ lookup_all [ex_lex; ex_lex; ex_lex] [97] = Some [] /\ lookup_all [ex_lex; ex_lex; ex_lex] [] = Some [].
Proof. vm_compute. repeat split. Qed.

(* a loop that stops at the first shorter entry after a match (early exit) loses the dictionaries searched later: refuted variant *)
Fixpoint keep_until_shorter (n : N) (found : bool) (es : list (N * N)) : list N :=
  match es with
  | [] => []
  | (w, e) :: t => if negb (e =? n) then (if found then [] else keep_until_shorter n found t) else w :: keep_until_shorter n true t
  end.
Example ex_early_exit_refuted :
  option_map (keep_until_shorter 3 false) (lookup_set [ex_lex; ex_lex; ex_lex] [97; 98; 99] 0) = Some [536870913].
Proof. vm_compute. reflexivity. Qed.

(* ---- build / ubuild: the readings of Model/CliBuild.v accept today's steps and reject the two seeded shapes ---- *)
From SudachiVerif Require Import Model.CliBuild.
Example ex_build_steps :
  steps_ok true ["read_conn"; "read_lexicon"; "resolve"; "open_output"; "compile"; "flush_checked"; "report"]%string = true
  /\ steps_ok true ["read_conn"; "read_lexicon"; "resolve"; "open_output"; "compile"; "report"]%string = false
  /\ steps_ok false ["read_lexicon"; "resolve"; "open_output"; "compile"; "flush_unchecked"; "report"]%string = false
  /\ inputs_in_order "cmd.inputs.iter()" true 1 [] = true
  /\ inputs_in_order "cmd.inputs.iter()" true 2 ["sort"%string] = false
  /\ inputs_in_order "cmd.lexicon_files().iter()" true 1 ["dedup"; "sort"]%string = false.
Proof. vm_compute. repeat split. Qed.
