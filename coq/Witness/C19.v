From Coq Require Import List NArith Bool.
From SudachiVerif Require Import Model.Cli.
Import ListNotations.
Open Scope N_scope.

(* "a\n" "\n" "b\r\n" "\r\n" "c" : blank lines, CRLF, no final newline *)
Definition ex_lines : list (list N * nat) := [([97], 1%nat); ([], 1%nat); ([98], 2%nat); ([], 2%nat); ([99], 0%nat)].
Example ex_lines_ok : lines_ok ex_lines = true.
Proof. vm_compute. reflexivity. Qed.
Example ex_texts : cli_texts (file_of ex_lines) = [[97]; []; [98]; []; [99]].
Proof. vm_compute. reflexivity. Qed.
(* the pinned tree's guards (`len > 1`) left the terminator of blank lines: refuted model variant *)
Example old_guards_refuted : map (strip_eol_gen 1 1) (split_lines (file_of ex_lines)) <> map fst ex_lines.
Proof. vm_compute. discriminate. Qed.
Example ex_wakati : wakati [[97]; [98; 99]] = [97; 32; 98; 99; 10] /\ wakati [] = [10].
Proof. vm_compute. split; reflexivity. Qed.
