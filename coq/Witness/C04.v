(* Non-vacuity for C04: an array produced by yada for the keys "ab" (value 0), "abc" (5), "b" (10) meets the hypotheses;
   the enumerator returns exactly those keys, lookups behave as the theorems say, a NUL byte stops the traversal. *)
From Coq Require Import String List NArith ZArith.
From SudachiVerif Require Import Model.Trie Model.WordIdTable Model.LexSet.
Import ListNotations.
Open Scope N_scope.

Definition ex_trie : list N := u32s_of_bytes (hex_bytes "008001006180010062110000621d000000000080050000800a000080000000000000000000000000000000000000000000000000000000000000000000000000000000000000000000000000000000000000000000000000000000000000000000000000000000000000000000000000000000000000000000000000000000000000000000000000000000000000000000000000000000000000000000000000000000000000000000000000000000000000000000000000000000000000000000000000000000000000000000000000000000000000000000000000000000000000000000000000000000000000000000000000000000000000000000000000000000000000000000000000000000000000000000000000000000000000000000000000000000000000000000000000000000000000000000000000000000000000000000000000000000000000000000000000000000000000000000000000000000000000000000000000000000000000000000000000000000000000000000000000000000000000000000000000000000000000000000000000638901000000000000000000000000000000000000000000000000000000000000000000000000000000000000000000000000000000000000000000000000000000000000000000000000000000000000000000000000000000000000000000000000000000000000000000000000000000000000000000000000000000000000000000000000000000000000000000000000000000000000000000000000000000000000000000000000000000000000000000000000000000000000000000000000000000000000000000000000000000000000000000000000000000000000000000000000000000000000000000000000000000000000000000000000000000000000000000000000000000000000000000000000000000000000000000000000000000000000000000000000000000000000000000000000000000000000000000000000000000000000000000000000000000000000000000000000000000000000000000000000000000000000000000000000000000000000000000000000000000000000000000000000000000000000000000000000000000000000000000000000000000000000000000000000000000000000000000000000000000000000000000000000000000000000000000000000000000000000000000000000000000000000000000000000000000000000000000000000000000000000000000000000000000000000000000000000000000000000000000000000000000000000000000000000000000000000000000000000000000000000000000000000000000000000000000000000000000000000000000000000000000000000000000"%string).
Definition ex_table : list N := hex_bytes "010000000001010000000102000000"%string.

Example ex_certificate : keys_of ex_trie 4 = Some [([97; 98], 0); ([97; 98; 99], 5); ([98], 10)].
Proof. vm_compute. reflexivity. Qed.

(* "abcb": at offset 0 "ab" and "abc", at offset 1 "b", at 2 nothing, at 3 "b" *)
Example ex_traverse : map (traverse ex_trie [97; 98; 99; 98]) [0; 1; 2; 3; 4]%nat
                      = [[(0, 2); (5, 3)]; [(10, 2)]; []; [(10, 4)]; []].
Proof. vm_compute. reflexivity. Qed.

Example ex_in_bounds : traverse_opt ex_trie [97; 98; 99; 98] 0 = Some [(0, 2); (5, 3)].
Proof. vm_compute. reflexivity. Qed.

(* the defect repaired in the repository: with the NUL guard "a\0b" matches nothing at offset 0 ... *)
Example ex_nul_stops : traverse ex_trie [97; 0; 98] 0 = [].
Proof. vm_compute. reflexivity. Qed.

(* ... whereas the reader without the guard accepts the zero unit without leaving the node and reports "ab" with end 3
   (this is what the unrepaired code did on this very array) *)
Definition step_noguard (a : list N) (pos k : N) : option (N * bool) :=
  let p := N.lxor pos k in let u := get a p in
  if label u =? k then Some (N.lxor p (offset u), has_leaf u) else None.
Fixpoint run_noguard (a : list N) (pos : N) (rest : list N) (i : N) : list (N * N) :=
  match rest with
  | [] => []
  | k :: t => match step_noguard a pos k with
              | None => []
              | Some (p', leaf) => (if leaf then [(value (get a p'), i + 1)] else []) ++ run_noguard a p' t (i + 1)
              end
  end.
Example ex_nul_refuted_without_guard : run_noguard ex_trie (root ex_trie) [97; 0; 98] 0 = [(0, 3)].
Proof. vm_compute. reflexivity. Qed.

Example ex_table_groups : map (entries ex_table) [0; 5; 10] = [Some [0]; Some [1]; Some [2]].
Proof. vm_compute. reflexivity. Qed.

Example ex_roundtrip : match encode_groups [[0]; [1]; [2; 4294967295; 70000]] with
                       | Some (tbl, offs) => map (entries tbl) offs
                       | None => []
                       end = [Some [0]; Some [1]; Some [2; 4294967295; 70000]].
Proof. vm_compute. reflexivity. Qed.

(* two layers: the same array as system (0) and user (1) dictionary; user entries come first *)
Example ex_set : lookup_set [mkLex ex_trie ex_table; mkLex ex_trie ex_table] [97; 98; 99] 0
                 = Some [(268435456, 2); (268435457, 3); (0, 2); (1, 3)].
Proof. vm_compute. reflexivity. Qed.

Example ex_cert_lex : cert_lex (mkLex ex_trie ex_table)
                               [([97; 98], 1%Z); ([97; 98; 99], 1%Z); ([98], 2%Z)] 4 = true.
Proof. vm_compute. reflexivity. Qed.

(* a non-indexed row (left id -1) must not be in the index: the certificate fails when the CSV claims otherwise *)
Example ex_cert_lex_detects : cert_lex (mkLex ex_trie ex_table)
                               [([97; 98], 1%Z); ([97; 98; 99], (-1)%Z); ([98], 2%Z)] 4 = false.
Proof. vm_compute. reflexivity. Qed.

(* ---- IndexBuilder: scattered homographs, non-indexed rows in between, groups in order of first occurrence ---- *)
From SudachiVerif Require Import Model.IndexBuild.
Definition ex_rows : list row :=
  [([98], 1%Z); ([97], 2%Z); ([98], (-1)%Z); ([97; 98], 0%Z); ([98], 3%Z); ([97], (-1)%Z); ([97], 4%Z)].
Example ex_index_groups : index_groups ex_rows = [([98], [0; 4]); ([97], [1; 6]); ([97; 98], [3])].
Proof. vm_compute. reflexivity. Qed.
Example ex_index_table :
  index_table ex_rows = Some (hex_bytes "0200000000040000000201000000060000000103000000", [([98], 0); ([97], 9); ([97; 98], 18)]).
Proof. vm_compute. reflexivity. Qed.
(* what the seeded variants would produce on the same rows: ids counted over indexed rows only / overwritten homographs *)
Example ex_counted_over_indexed_differs :
  map (fun k => rows_with k ex_rows) [[98]; [97]; [97; 98]] = [[0; 4]; [1; 6]; [3]].
Proof. vm_compute. reflexivity. Qed.
(* whole UTF-8 strings, and a truncated one *)
Example ex_chars_ok : map chars_ok_b [hex_bytes "e3818261f0a0ae9f"; hex_bytes "e381"; hex_bytes "81"; []] = [true; false; false; true].
Proof. vm_compute. reflexivity. Qed.
Example ex_hexz : hexz_bytes "01z000302z0004"%string = [1; 0; 0; 0; 2; 0; 0; 0; 0].
Proof. vm_compute. reflexivity. Qed.
(* the two forms of a unit's offset: narrow (bits 10..30) and wide (bit 9 set: stored >> 8) *)
Example ex_offset_forms : map offset [3 * 1024; 3 * 1024 + 512; 512; 1024 + 256] = [3; 768; 0; 1].
Proof. vm_compute. reflexivity. Qed.
