(* C09 non-vacuity: a concrete text, dictionary view and C path meet the hypotheses of the theorems, with units of
   1-, 2-, 3- and 4-byte code points, a user word whose units are a user word and a system word, and a word with
   exactly one declared unit. *)
From Coq Require Import List NArith Bool Lia.
From SudachiVerif Require Import Model.Harness Model.Split Proofs.SplitProofs.
Import ListNotations.
Open Scope N_scope.

(* text: a é あ 𠮷 b   (1+2+3+4+1 bytes) *)
Definition ex_t : list N := [97; 233; 12354; 134071; 98].
Definition U (w : N) : N := mk_wid 1 w.
Definition D2 (w : N) : N := mk_wid 2 w.
(* system: 0 "a"  1 "é"  2 "あ𠮷"  3 "aéあ𠮷" A=[0;1;2] B=[4;2]  4 "aé" A=[0;1]
   user (loaded as dictionary 2; stored unit ids carry dictionary 1): U0 "あ"  U1 "𠮷"  U2 "あ𠮷b" A=[U0;U1;U3] B=[2(system);U3]  U3 "b" A=[U3] *)
Definition ex_d : list dentry :=
  [ (0, ([97], ([], [])));
    (1, ([233], ([], [])));
    (2, ([12354; 134071], ([], [])));
    (3, ([97; 233; 12354; 134071], ([0; 1; 2], [4; 2])));
    (4, ([97; 233], ([0; 1], [])));
    (D2 0, ([12354], ([], [])));
    (D2 1, ([134071], ([], [])));
    (D2 2, ([12354; 134071; 98], ([U 0; U 1; U 3], [2; U 3])));
    (D2 3, ([98], ([U 3], []))) ].

Definition ex_key := d_key ex_d.
Definition ex_hw := d_hw ex_d.
Definition ex_ua := d_units true ex_d.
Definition ex_ub := d_units false ex_d.

(* C path 1: the system compound 3 over chars 0..4, then "b" (user word 3, one declared unit) *)
Definition ex_path1 : list node := [mk_cnode ex_t 0 4 3; mk_cnode ex_t 4 5 (D2 3)].
(* C path 2: "aé" (4) then the user compound U2 over chars 2..5 *)
Definition ex_path2 : list node := [mk_cnode ex_t 0 2 4; mk_cnode ex_t 2 5 (D2 2)].

Example ex_hw_ok : forall u, In u (ex_ua 3) -> ex_hw u = blen (ex_key u).
Proof. intros u H. vm_compute in H. repeat (destruct H as [<-|H]; [vm_compute; reflexivity|]). contradiction. Qed.

Example ex_units_wf : units_wf ex_key ex_t (mk_cnode ex_t 0 4 3) (ex_ua 3).
Proof.
  exists [], [98]. vm_compute. repeat split; try reflexivity.
  intros u H. repeat (destruct H as [<-|H]; [discriminate|]). contradiction.
Qed.

Example ex_units_wf_user : units_wf ex_key ex_t (mk_cnode ex_t 2 5 (D2 2)) (ex_ua (D2 2)).
Proof.
  exists [97; 233], []. vm_compute. repeat split; try reflexivity.
  intros u H. repeat (destruct H as [<-|H]; [discriminate|]). contradiction.
Qed.

(* user -> user units are re-stamped to dictionary 2, the system unit of the B declaration is kept *)
Example ex_restamped : ex_ua (D2 2) = [D2 0; D2 1; D2 3] /\ ex_ub (D2 2) = [2; D2 3].
Proof. vm_compute. split; reflexivity. Qed.

Example ex_A1 :
  split_path ex_hw ex_t ex_ua ex_path1 =
  Some [mkNode 0 1 0 1 0; mkNode 1 2 1 3 1; mkNode 2 4 3 10 2; mkNode 4 5 10 11 (D2 3)].
Proof. vm_compute. reflexivity. Qed.

Example ex_B1 :
  split_path ex_hw ex_t ex_ub ex_path1 = Some [mkNode 0 2 0 3 4; mkNode 2 4 3 10 2; mkNode 4 5 10 11 (D2 3)].
Proof. vm_compute. reflexivity. Qed.

Example ex_A2 :
  split_path ex_hw ex_t ex_ua ex_path2 =
  Some [mkNode 0 1 0 1 0; mkNode 1 2 1 3 1; mkNode 2 3 3 6 (D2 0); mkNode 3 4 6 10 (D2 1); mkNode 4 5 10 11 (D2 3)].
Proof. vm_compute. reflexivity. Qed.

(* one declared unit: kept by split_path, but split_into answers true with the unit *)
Example ex_single :
  split_path ex_hw ex_t ex_ua [mk_cnode ex_t 4 5 (D2 3)] = Some [mk_cnode ex_t 4 5 (D2 3)] /\
  split_into ex_hw ex_t ex_ua (mk_cnode ex_t 4 5 (D2 3)) [] = Some (true, [mkNode 4 5 10 11 (D2 3)]).
Proof. vm_compute. split; reflexivity. Qed.

(* hypothesis of C09_split_path_eq_resplit holds for path 2 and both sides are a non-trivial value *)
Example ex_resplit : forall n, In n ex_path2 -> length (ex_ua (wid n)) <> 1%nat.
Proof. intros n H. repeat (destruct H as [<-|H]; [vm_compute; discriminate|]). contradiction. Qed.

(* an ill-formed declaration (unit longer than the rest of the text) makes ch_idx index out of range: the model says panic *)
Example ex_ill_formed_panics :
  split_node (fun _ => 40) ex_t (mk_cnode ex_t 0 4 3) [0; 1] = None.
Proof. vm_compute. reflexivity. Qed.

(* ---------------------------------------------------------------------------------------------------------------
   Composition with the codec model (Proofs/SplitDict.v): a concrete stack -- a system dictionary and a user dictionary
   whose compound declares an inline reference to a system word (found by its headword), a U-reference and an inline
   reference to an own word -- compiled by the codec model's writer and read back by its reader meets every hypothesis of
   C09_split_exact_from_source, and the conclusion is a non-trivial value. *)
From SudachiVerif Require Import Model.Codec Proofs.CodecProofs Proofs.CodecLexProofs Model.CodecResolve Model.SplitSource Proofs.SplitDict.
From Coq Require Import ZArith.

(* system: 0 "a" (headword "Ａ")   1 "b"   2 "ab" A = 0/1
   user:   0 "é"   1 "abé"  A = [ab,pos,reading (inline, system word 2) ; U0]   B = [0 ; 1 ; é,pos,reading (inline, own word 0)] *)
Definition w_sys : list rrow :=
  [ row [97] [65313] [1] 0 [] []; row [98] [98] [2] 0 [] []; row [97; 98] [97; 98] [3] 0 [uref 0; uref 1] [] ].
Definition w_usr : list rrow :=
  [ row [233] [233] [4] 0 [] [];
    row [97; 98; 233] [120] [5] 0 [uinl [97; 98] 0 [3]; uref (DIC + 0)] [uref 0; uref 1; uinl [233] 0 [4]] ].
Definition w_ds : srcs := [w_sys; w_usr].

Definition w_es0 : list entry := match resolve_rows false w_sys [] with Some es => es | None => [] end.
Definition w_es1 : list entry := match resolve_rows true w_usr w_es0 with Some es => es | None => [] end.
Definition w_prefix : bytes := [7; 7; 7].
Definition w_sec (es : list entry) : bytes := match write_words_section 3 es with Some s => s | None => [] end.
Definition w_cs : list compiled := [mkComp (w_prefix ++ w_sec w_es0) 3; mkComp (w_prefix ++ w_sec w_es1) 3].

Lemma w_wf : forall es, es = w_es0 \/ es = w_es1 -> lexicon_wf es.
Proof.
  intros es [-> | ->] e H; vm_compute in H;
    repeat (destruct H as [<-|H]; [vm_compute; repeat split; try reflexivity; discriminate|]); contradiction.
Qed.

Lemma w_compiles : forall user sys rows es,
  resolve_rows user rows sys = Some es -> write_words_section 3 es = Some (w_sec es) ->
  (N.of_nat (List.length (w_prefix ++ w_sec es)) <? 4294967296) = true -> lexicon_wf es ->
  compiles_to user sys rows es (mkComp (w_prefix ++ w_sec es) 3).
Proof.
  intros user sys rows es H1 H2 H3 H4. exists w_prefix, (w_sec es).
  split; [exact H1|]. split; [exact H2|]. split; [apply N.ltb_lt; exact H3|]. split; [exact H4|]. split; reflexivity.
Qed.

Example w_stack_compiled : stack_compiled w_ds w_cs.
Proof.
  exists w_sys, [w_usr], (mkComp (w_prefix ++ w_sec w_es0) 3), [mkComp (w_prefix ++ w_sec w_es1) 3], w_es0.
  split; [reflexivity|]. split; [reflexivity|]. split.
  - apply w_compiles; [vm_compute; reflexivity|vm_compute; reflexivity|vm_compute; reflexivity|apply w_wf; left; reflexivity].
  - constructor; [|constructor]. exists w_es1.
    apply w_compiles; [vm_compute; reflexivity|vm_compute; reflexivity|vm_compute; reflexivity|apply w_wf; right; reflexivity].
Qed.

Example w_srcs_ok : srcs_ok w_ds.
Proof.
  unfold srcs_ok, w_ds. repeat (apply Forall_cons || apply Forall_nil); (split; [|vm_compute; discriminate]);
    repeat (apply Forall_cons || apply Forall_nil); vm_compute; reflexivity.
Qed.

(* the author's condition holds for the user compound in both modes, and what is loaded is what the rows say *)
Example w_rows_units_ok : rows_units_ok w_ds true (DIC + 1) = true /\ rows_units_ok w_ds false (DIC + 1) = true.
Proof. vm_compute. split; reflexivity. Qed.

Example w_loaded :
  ld_units w_cs 1 (fun _ => 1) true (DIC + 1) = [2; DIC + 0] /\
  ld_units w_cs 1 (fun _ => 1) false (DIC + 1) = [0; 1; DIC + 0] /\
  src_units w_ds true (DIC + 1) = Some [2; DIC + 0] /\
  map (ld_hw w_cs 1 (fun _ => 1)) [0; 1; 2; DIC + 0; DIC + 1] = [1; 1; 2; 2; 4].
Proof. vm_compute. repeat split; reflexivity. Qed.

(* text "xabé": the C token of the user compound covers chars 1..4 / bytes 1..5 *)
Example w_covers : covers [120; 97; 98; 233] (mkNode 1 4 1 5 (DIC + 1)) (src_key w_ds (DIC + 1)).
Proof. exists [120], []. vm_compute. repeat split; reflexivity. Qed.

Example w_split_A :
  split_node (ld_hw w_cs 1 (fun _ => 1)) [120; 97; 98; 233] (mkNode 1 4 1 5 (DIC + 1)) [2; DIC + 0]
  = Some [mkNode 1 3 1 3 2; mkNode 3 4 3 5 (DIC + 0)].
Proof. vm_compute. reflexivity. Qed.

(* the correspondence predicate is live: it accepts what the implementation reports for this case and rejects a
   sub-token boundary moved by one byte *)
Example w_check_source_accepts :
  check_source w_ds [120; 97; 98; 233] [0; 1; 2; 3; 4; 5] [(1, 4, DIC + 1)] [([2; DIC + 0], [0; 1; DIC + 0])]
    [Some (true, [(2, (1, 3, (1, 3))); (DIC + 0, (3, 5, (3, 5)))])]
    [Some (true, [(0, (1, 2, (1, 2))); (1, (2, 3, (2, 3))); (DIC + 0, (3, 5, (3, 5)))])] = true.
Proof. vm_compute. reflexivity. Qed.
Example w_check_source_rejects :
  check_source w_ds [120; 97; 98; 233] [0; 1; 2; 3; 4; 5] [(1, 4, DIC + 1)] [([2; DIC + 0], [0; 1; DIC + 0])]
    [Some (true, [(2, (1, 2, (1, 2))); (DIC + 0, (2, 5, (2, 5)))])]
    [Some (true, [(0, (1, 2, (1, 2))); (1, (2, 3, (2, 3))); (DIC + 0, (3, 5, (3, 5)))])] = false.
Proof. vm_compute. reflexivity. Qed.

(* the provenance fact of split_into is needed: with the lexicon taken from the TARGET list's dictionary, the parts of the same
   token depend on which list they are written to (text "ab", token 5 declaring units 1 2; the source dictionary gives unit 1 a
   one-byte key, the other dictionary a two-byte key) *)
From SudachiVerif Require Model.SplitLists.
Lemma split_into_lexicon_of_target_interferes :
  let d1 := SplitLists.mkSDict (fun _ => 1%N) (fun w => if N.eqb w 5 then [1%N; 2%N] else []) (fun _ => []) in
  let d2 := SplitLists.mkSDict (fun _ => 2%N) (fun _ => []) (fun _ => []) in
  let src := SplitLists.mkMList d1 [97%N; 98%N] 0%N [Split.mkNode 0 2 0 2 5] in
  let r o := match SplitLists.split_into_lists_gen SplitLists.Out SplitLists.Self true Split.ModeA src 0 o with
             | Some (b, l) => Some (b, map Split.ne (SplitLists.ml_nodes l)) | None => None end in
  r (SplitLists.mkMList d1 [] 0%N []) <> r (SplitLists.mkMList d2 [] 0%N []).
Proof. vm_compute. discriminate. Qed.
