(* C09 non-vacuity: a concrete text, dictionary view and C path meet the hypotheses of the theorems, with units of
   1-, 2-, 3- and 4-byte code points, a user word whose units are a user word and a system word, and a word with
   exactly one declared unit. *)
From Coq Require Import List NArith Bool Lia.
From SudachiVerif Require Import Model.Harness Model.Split Proofs.SplitProofs.
Import ListNotations.
Open Scope N_scope.

(* text: a é あ 𠮷 b   (1+2+3+4+1 bytes) *)
Definition ex_t : list N := [97; 233; 12354; 134071; 98].
Definition U (w : N) : N := mk_wid 1 w.
Definition D2 (w : N) : N := mk_wid 2 w.
(* system: 0 "a"  1 "é"  2 "あ𠮷"  3 "aéあ𠮷" A=[0;1;2] B=[4;2]  4 "aé" A=[0;1]
   user (loaded as dictionary 2; stored unit ids carry dictionary 1): U0 "あ"  U1 "𠮷"  U2 "あ𠮷b" A=[U0;U1;U3] B=[2(system);U3]  U3 "b" A=[U3] *)
Definition ex_d : list dentry :=
  [ (0, ([97], ([], [])));
    (1, ([233], ([], [])));
    (2, ([12354; 134071], ([], [])));
    (3, ([97; 233; 12354; 134071], ([0; 1; 2], [4; 2])));
    (4, ([97; 233], ([0; 1], [])));
    (D2 0, ([12354], ([], [])));
    (D2 1, ([134071], ([], [])));
    (D2 2, ([12354; 134071; 98], ([U 0; U 1; U 3], [2; U 3])));
    (D2 3, ([98], ([U 3], []))) ].

Definition ex_key := d_key ex_d.
Definition ex_hw := d_hw ex_d.
Definition ex_ua := d_units true ex_d.
Definition ex_ub := d_units false ex_d.

(* C path 1: the system compound 3 over chars 0..4, then "b" (user word 3, one declared unit) *)
Definition ex_path1 : list node := [mk_cnode ex_t 0 4 3; mk_cnode ex_t 4 5 (D2 3)].
(* C path 2: "aé" (4) then the user compound U2 over chars 2..5 *)
Definition ex_path2 : list node := [mk_cnode ex_t 0 2 4; mk_cnode ex_t 2 5 (D2 2)].

Example ex_hw_ok : forall u, In u (ex_ua 3) -> ex_hw u = blen (ex_key u).
Proof. intros u H. vm_compute in H. repeat (destruct H as [<-|H]; [vm_compute; reflexivity|]). contradiction. Qed.

Example ex_units_wf : units_wf ex_key ex_t (mk_cnode ex_t 0 4 3) (ex_ua 3).
Proof.
  exists [], [98]. vm_compute. repeat split; try reflexivity.
  intros u H. repeat (destruct H as [<-|H]; [discriminate|]). contradiction.
Qed.

Example ex_units_wf_user : units_wf ex_key ex_t (mk_cnode ex_t 2 5 (D2 2)) (ex_ua (D2 2)).
Proof.
  exists [97; 233], []. vm_compute. repeat split; try reflexivity.
  intros u H. repeat (destruct H as [<-|H]; [discriminate|]). contradiction.
Qed.

(* user -> user units are re-stamped to dictionary 2, the system unit of the B declaration is kept *)
Example ex_restamped : ex_ua (D2 2) = [D2 0; D2 1; D2 3] /\ ex_ub (D2 2) = [2; D2 3].
Proof. vm_compute. split; reflexivity. Qed.

Example ex_A1 :
  split_path ex_hw ex_t ex_ua ex_path1 =
  Some [mkNode 0 1 0 1 0; mkNode 1 2 1 3 1; mkNode 2 4 3 10 2; mkNode 4 5 10 11 (D2 3)].
Proof. vm_compute. reflexivity. Qed.

Example ex_B1 :
  split_path ex_hw ex_t ex_ub ex_path1 = Some [mkNode 0 2 0 3 4; mkNode 2 4 3 10 2; mkNode 4 5 10 11 (D2 3)].
Proof. vm_compute. reflexivity. Qed.

Example ex_A2 :
  split_path ex_hw ex_t ex_ua ex_path2 =
  Some [mkNode 0 1 0 1 0; mkNode 1 2 1 3 1; mkNode 2 3 3 6 (D2 0); mkNode 3 4 6 10 (D2 1); mkNode 4 5 10 11 (D2 3)].
Proof. vm_compute. reflexivity. Qed.

(* one declared unit: kept by split_path, but split_into answers true with the unit *)
Example ex_single :
  split_path ex_hw ex_t ex_ua [mk_cnode ex_t 4 5 (D2 3)] = Some [mk_cnode ex_t 4 5 (D2 3)] /\
  split_into ex_hw ex_t ex_ua (mk_cnode ex_t 4 5 (D2 3)) [] = Some (true, [mkNode 4 5 10 11 (D2 3)]).
Proof. vm_compute. split; reflexivity. Qed.

(* hypothesis of C09_split_path_eq_resplit holds for path 2 and both sides are a non-trivial value *)
Example ex_resplit : forall n, In n ex_path2 -> length (ex_ua (wid n)) <> 1%nat.
Proof. intros n H. repeat (destruct H as [<-|H]; [vm_compute; discriminate|]). contradiction. Qed.

(* an ill-formed declaration (unit longer than the rest of the text) makes ch_idx index out of range: the model says panic *)
Example ex_ill_formed_panics :
  split_node (fun _ => 40) ex_t (mk_cnode ex_t 0 4 3) [0; 1] = None.
Proof. vm_compute. reflexivity. Qed.
