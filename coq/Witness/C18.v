From Coq Require Import List Arith NArith.
From SudachiVerif Require Import Model.Interleave.
Import ListNotations.

(* three threads, a shared table, an adversarial schedule *)
Definition ex_tbl : tbl := [(1, 11); (2, 22); (3, 33)]%N.
Definition ex_streams : list (list N) := [[1; 2; 3]; [3; 3]; [2]]%N.
Example ex_run :
  snd (run tbl (list N) N tstep ex_tbl ex_streams [1; 0; 2; 0; 1; 0]%nat) =
  [(1%nat, 33%N); (0%nat, 11%N); (2%nat, 22%N); (0%nat, 22%N); (1%nat, 33%N); (0%nat, 33%N)].
Proof. vm_compute. reflexivity. Qed.
Example ex_check : check_interleave ex_tbl ex_streams
  [(1%nat, 33%N); (0%nat, 11%N); (2%nat, 22%N); (0%nat, 22%N); (1%nat, 33%N); (0%nat, 33%N)] = true.
Proof. vm_compute. reflexivity. Qed.

(* the premise matters: if a step may write the shared value, thread outputs depend on the schedule *)
Definition wstep (d : N) (s : N) : N * N * N := (N.succ d, s, d).   (* new shared value, new state, output *)
Fixpoint wrun (d : N) (sched : list nat) : list (nat * N) :=
  match sched with [] => [] | t :: r => let '(d', _, o) := wstep d 0%N in (t, o) :: wrun d' r end.
Example writing_shared_state_interferes :
  map snd (filter (fun p => Nat.eqb (fst p) 0) (wrun 0%N [0; 1]%nat)) <>
  map snd (filter (fun p => Nat.eqb (fst p) 0) (wrun 0%N [1; 0]%nat)).
Proof. vm_compute. discriminate. Qed.

(* the same with the general writer protocol of Model/Interleave.v: a step that bumps the shared value is not read_only, and
   two schedules with the same per-thread counts give thread 0 different outputs (C18_read_only_... needs its premise) *)
Definition bump (d : N) (s : N) : N * (N * N) := (N.succ d, (s, d)).
Example bump_not_read_only : ~ read_only N N N bump.
Proof. intro H. specialize (H 0%N 0%N). discriminate H. Qed.
Example bump_interferes_refuted :
  outputs_of N 0 (snd (snd (runw N N N bump 0%N [0%N; 0%N] [0; 1]%nat))) <>
  outputs_of N 0 (snd (snd (runw N N N bump 0%N [0%N; 0%N] [1; 0]%nat))).
Proof. vm_compute. discriminate. Qed.
(* and the premises of C18_accepted_run_is_sequential_per_thread are met by the example run above *)
Example ex_check_counts : count_occ Nat.eq_dec (map fst
  [(1%nat, 33%N); (0%nat, 11%N); (2%nat, 22%N); (0%nat, 22%N); (1%nat, 33%N); (0%nat, 33%N)]) 0 <= length [1; 2; 3]%N.
Proof. vm_compute. repeat constructor. Qed.
