(* Non-vacuity for C14: a concrete path on which both plugins merge, within fuel, and the grouping is non-trivial. *)
From Coq Require Import List NArith ZArith Bool.
From SudachiVerif Require Import Model.Numeric Model.Rewrite Proofs.RewriteProofs.
Import ListNotations.
Open Scope N_scope.

(* 京都 | 1 | , | 0 | 0 | 0 | ア | イウ(OOV) | に   -- classes: KANJI=4, NUMERIC=16, SYMBOL=8, KATAKANA=128, HIRAGANA=64 *)
Definition w (b e : nat) (s : list N) (p : N) (o : bool) (c : N) : node := mkN b e b e s [] [] [] 0 p o c c.
Definition ex_path : list node :=
  [ w 0 2 [20140; 37117] 3 false 4; w 2 3 [49] 7 false 16; w 3 4 [44] 15 false 8; w 4 5 [48] 7 false 16;
    w 5 6 [48] 7 false 16; w 6 7 [48] 7 false 16; w 7 8 [12450] 4 false 128; w 8 10 [12452; 12454] 4 true 128;
    w 10 11 [12395] 2 false 64 ].
Definition ex_plugins : list plugin := [PNumeric true 7; PKatakana 3 4].

Example ex_runs :
  option_map (fun r => match r with Ok q => map (fun n => (N.of_nat (nb n), N.of_nat (ne n), surf n, norm n, pos n)) q | _ => [] end)
             (run_plugins ex_plugins ex_path)
  = Some [ (0, 2, [20140; 37117], [], 3); (2, 7, [49; 44; 48; 48; 48], [49; 48; 48; 48], 7);
           (7, 10, [12450; 12452; 12454], [12450; 12452; 12454], 4); (10, 11, [12395], [], 2) ].
Proof. vm_compute. reflexivity. Qed.

Example ex_property_holds :
  match run_plugins ex_plugins ex_path with
  | Some (Ok q) => check_rewrite ex_plugins ex_path q
  | _ => false
  end = true.
Proof. vm_compute. reflexivity. Qed.

(* the hypothesis of C14_rewrite_is_grouping is met with a result different from the input *)
Example ex_nontrivial : exists q, run_plugins ex_plugins ex_path = Some (Ok q) /\ length q = 4%nat /\ length ex_path = 9%nat.
Proof. eexists. split; [vm_compute; reflexivity | split; reflexivity]. Qed.

(* a malformed numeral is never joined as a whole: 1 | , | 2 | 3 stays as it is (bad group size) ... *)
Example ex_malformed_pieces :
  option_map (fun r => match r with Ok q => map (fun n => (N.of_nat (nb n), N.of_nat (ne n))) q | _ => [] end)
             (run_plugins [PNumeric true 7]
                [w 0 1 [49] 7 false 16; w 1 2 [44] 15 false 8; w 2 3 [50] 7 false 16; w 3 4 [51] 7 false 16])
  = Some [(0, 1); (1, 2); (2, 3); (3, 4)].
Proof. vm_compute. reflexivity. Qed.

(* ... and with a trailing separator only the prefix before it is joined: 1 | , | 0 | 0 | 0 | ,  ->  "1,000" "," *)
Example ex_trailing_separator :
  option_map (fun r => match r with Ok q => map (fun n => (N.of_nat (nb n), N.of_nat (ne n), norm n)) q | _ => [] end)
             (run_plugins [PNumeric true 7]
                [w 0 1 [49] 7 false 16; w 1 2 [44] 15 false 8; w 2 3 [48] 7 false 16; w 3 4 [48] 7 false 16;
                 w 4 5 [48] 7 false 16; w 5 6 [44] 15 false 8])
  = Some [(0, 5, [49; 48; 48; 48]); (5, 6, [])].
Proof. vm_compute. reflexivity. Qed.
