(* Witnesses for C16: non-vacuity of the hypotheses, the repaired defect in the model, the refuted full statement. *)
From Coq Require Import List NArith ZArith Bool Arith Lia.
From SudachiVerif Require Import Model.Sentence Model.SentenceSpec Proofs.SentenceProofs Properties.C16.
Import ListNotations.

(* "京都に行った。東京に行った。" *)
Definition kyoto : text := [20140; 37117; 12395; 34892; 12387; 12383; 12290; 26481; 20140; 12395; 34892; 12387; 12383; 12290]%N.
(* lexicon { "。" } and { "。", "京都", "に" } *)
Definition lex_maru : list text := [ [12290]%N ].
Definition lex_maru_kyoto : list text := [ [12290]%N; [20140; 37117]%N; [12395]%N ].

(* the reproduced defect, in the model that follows the repaired code: the one-character entry does not suppress the break *)
Example ex_single_char_entry_splits :
  res_ranges (split 4096 (Some (lookup_lex lex_maru)) kyoto) = Some [(0, 21); (21, 42)].
Proof. vm_compute. reflexivity. Qed.

(* a concrete split with two sentences meets the hypotheses of C16_break_only_after_terminator (non-vacuity) *)
Example ex_two_sentences :
  exists x y, split 4096 (Some (lookup_lex lex_maru_kyoto)) kyoto = Done ([] ++ x :: y :: []) /\ 1 <= 4096.
Proof. eexists. eexists. split; [vm_compute; reflexivity|lia]. Qed.

(* the model detector on non-empty text: one positive and one negative answer (non-vacuity of good_det's two cases) *)
Example ex_positive : get_eos 4096 None kyoto = 21%Z.
Proof. vm_compute. reflexivity. Qed.
Example ex_negative : get_eos 4096 None [12354; 12356; 12358; 12360; 12362]%N = (-15)%Z.
Proof. vm_compute. reflexivity. Qed.

(* window: with limit 3 the first terminator of "あいうえおか。き。" is outside the window, the answer is negative and the
   iterator takes the rest of the text (DESIGN section 6) *)
Example ex_window :
  res_ranges (split 3 None [12354; 12356; 12358; 12360; 12362; 12363; 12290; 12365; 12290]%N) = Some [(0, 27)].
Proof. vm_compute. reflexivity. Qed.
(* ... while with limit 7 it is inside and ends the sentence *)
Example ex_window7 :
  res_ranges (split 7 None [12354; 12356; 12358; 12360; 12362; 12363; 12290; 12365; 12290]%N) = Some [(0, 21); (21, 27)].
Proof. vm_compute. reflexivity. Qed.

(* brackets, quoting particle, decimal point, itemisation *)
Example ex_bracket : res_ranges (split 4096 None [12354; 65288; 12356; 12358; 12290; 12360; 65289; 12362]%N) = Some [(0, 24)].
Proof. vm_compute. reflexivity. Qed.
Example ex_quote : res_ranges (split 4096 None [12354; 12356; 12358; 63; 12391; 12377; 12290]%N) = Some [(0, 19)].
Proof. vm_compute. reflexivity. Qed.
Example ex_decimal : get_eos 4096 None [51; 46; 49; 52; 49]%N = (-5)%Z.
Proof. vm_compute. reflexivity. Qed.

(* a multi-character word ending with the terminator does suppress the break: "モーニング娘。の歌。次" *)
Example ex_musume :
  res_ranges (split 4096 (Some (lookup_lex [ [12514; 12540; 12491; 12531; 12464; 23064; 12290]%N; [12290]%N ])) [12514; 12540; 12491; 12531; 12464; 23064; 12290; 12398; 27468; 12290; 27425]%N) = Some [(0, 30); (30, 33)].
Proof. vm_compute. reflexivity. Qed.

(* lexicons that differ only in one-character entries agree on multi-character words (hypothesis of
   C16_single_char_entry_never_suppresses is satisfiable) *)
Example ex_agree : agree_multichar (lookup_lex lex_maru_kyoto) (lookup_lex [ [20140; 37117]%N ]).
Proof.
  intros t l Hl. unfold lookup_lex, lex_maru_kyoto. cbn [filter map].
  destruct (starts_with _ t) eqn:E1; destruct (starts_with [20140; 37117]%N t) eqn:E2; destruct (starts_with [12395]%N t) eqn:E3;
    cbn [map In length]; split; intros H; repeat (destruct H as [H|H]; try lia); auto.
Qed.

(* obligations hold on the generated facts (they are closed in Properties/C16.v); here: they are not vacuous *)
Example ex_classes_nonempty : is_period 12290 = true /\ is_open 65288 = true /\ is_close 65289 = true /\ is_prohibited 65289 = true.
Proof. vm_compute. auto. Qed.

(* ---- refuted: the full statement of "no break inside a multi-character dictionary word" ---- *)
(* the 12-character entry "あいうえおかきくけこさ。" starts 36 bytes before the break, outside the 30-byte look-back *)
Definition long_word : text := [12354; 12356; 12358; 12360; 12362; 12363; 12365; 12367; 12369; 12371; 12373; 12290]%N.
Definition long_text : text := long_word ++ [12356]%N.

Theorem C16_no_break_inside_word_refuted : ~ C16_no_break_inside_word_full.
Proof.
  intros H.
  destruct (H 4096 (lookup_lex [long_word]) long_text) as [k [K1 [K2 [K3 K4]]]].
  - discriminate.
  - lia.
  - vm_compute. discriminate.
  - assert (E : get_eos 4096 (Some (lookup_lex [long_word])) long_text = 36%Z) by (vm_compute; reflexivity).
    assert (L : length long_text = 13) by reflexivity.
    rewrite E in K3. rewrite L in K2.
    assert (k = 12).
    { assert (E12 : blen (firstn 12 long_text) = 36) by (vm_compute; reflexivity).
      assert (Hb : blen (firstn k long_text) = blen (firstn 12 long_text)) by lia.
      pose proof (prefix_blen_inj (firstn k long_text) (firstn 12 long_text) (skipn k long_text) (skipn 12 long_text)) as Hinj.
      rewrite !firstn_skipn in Hinj. specialize (Hinj eq_refl Hb).
      apply (f_equal (@length N)) in Hinj. rewrite !firstn_length, L in Hinj. lia. }
    subst k. apply (K4 0 12). unfold word_across. split; [lia|]. split; [vm_compute; auto|]. right. lia.
Qed.
Print Assumptions C16_no_break_inside_word_refuted.

(* ---- the generic regex matcher on the regenerated patterns computes what the engines do on the pinned examples ---- *)
From SudachiVerif Require Import Model.SentenceRegex.
From SudachiVerif Require Generated.SentenceRegexFacts.
Module RXW := Generated.SentenceRegexFacts.

(* SPACES on "あ い う" (get_eos_with_limit: -8 bytes = 4 characters) and on "あい\n\n う" *)
Example ex_re_spaces : re_find RXW.SPACES_RE [12354; 32; 12356; 32; 12358]%N = Some (0, 4).
Proof. vm_compute. reflexivity. Qed.
Example ex_re_spaces_lf : re_find RXW.SPACES_RE [10; 12354; 12356; 10; 10; 32; 12358]%N = Some (1, 6).
Proof. vm_compute. reflexivity. Qed.
(* SENTENCE_BREAKER: "1.." matches only the second dot (look-behind), "・・・。!" is one match, "<br><BR><br>" too, "<br>" is none *)
Example ex_re_breaker_dots : re_find_iter_ends RXW.SENTENCE_BREAKER_RE 0 None 0 [49; 46; 46]%N = [3].
Proof. vm_compute. reflexivity. Qed.
Example ex_re_breaker_cdots : re_find_iter_ends RXW.SENTENCE_BREAKER_RE 0 None 0 [12354; 12539; 12539; 12539; 12290; 33; 12356; 12539; 12539]%N = [6].
Proof. vm_compute. reflexivity. Qed.
Example ex_re_breaker_br :
  re_find_iter_ends RXW.SENTENCE_BREAKER_RE 0 None 0 [60; 98; 114; 62; 60; 66; 82; 62; 60; 98; 114; 62; 120; 60; 98; 114; 62]%N = [12].
Proof. vm_compute. reflexivity. Qed.
(* QUOTE_MARKER at "?です", PROHIBITED_BOS on "）、。あ", EOS_ITEMIZE_HEADER on "あ1." *)
Example ex_re_quote : re_match_at RXW.QUOTE_MARKER_RE None [63; 12391; 12377]%N = Some 3.
Proof. vm_compute. reflexivity. Qed.
Example ex_re_prohibited : re_find RXW.PROHIBITED_BOS_RE [65289; 12289; 12290; 12354]%N = Some (0, 3).
Proof. vm_compute. reflexivity. Qed.
Example ex_re_eos_itemize : re_is_match RXW.EOS_ITEMIZE_HEADER_RE [12354; 49; 46]%N = true.
Proof. vm_compute. reflexivity. Qed.
