(* C07 — non-vacuity: concrete non-trivial states meet the hypotheses of the theorems; the two defects that were
   repaired in the code (`fixed:` lines of KNOWN_FINDINGS.txt) shown on the model variants that describe the old code. *)
From Coq Require Import List NArith Bool Lia.
From SudachiVerif Require Import Model.Harness Model.Normalize Proofs.NormalizeProofs.
Import ListNotations.
Local Open Scope N_scope.

(* a small Unicode oracle: 'A' -> 'a', full-width 'Ａ' (U+FF21) -> 'ａ' (U+FF41) -> NFKC 'a'; title-case 'ǅ' (U+01C5) -> 'ǆ' (U+01C6) -> NFKC "dž" *)
Definition ex_o : odata :=
  mkO [(65, [97]); (65313, [65345]); (453, [454])]
      [([65345], [97]); ([65313], [65]); ([454], [100; 382]); ([453], [68; 382])]
      [65313; 65345; 453; 454]
      [65; 65313].

Definition ex_tb : table := [([97], [120]); ([97; 98], [121])].      (* a -> x, ab -> y *)
Definition ex_ign : cp -> bool := mem_n [].

Example ex_table_wf : table_wf ex_tb = true.
Proof. vm_compute. reflexivity. Qed.

Ltac closed_case := solve [vm_compute; intros; repeat split; intros; try reflexivity; try discriminate; try congruence].
Ltac cases_on c :=
  destruct (N.eq_dec c 65) as [->|?]; [closed_case|];
  destruct (N.eq_dec c 65313) as [->|?]; [closed_case|];
  destruct (N.eq_dec c 65345) as [->|?]; [closed_case|];
  destruct (N.eq_dec c 453) as [->|?]; [closed_case|];
  destruct (N.eq_dec c 454) as [->|?]; [closed_case|].

Lemma ex_other : forall c, c <> 65 -> c <> 65313 -> c <> 65345 -> c <> 453 -> c <> 454 ->
  o_lower ex_o c = [c] /\ o_nfkc ex_o [c] = [c] /\ o_qc ex_o c = true.
Proof.
  intros c H1 H2 H3 H4 H5. unfold o_lower, o_nfkc, o_qc, ex_o. cbn [od_lower od_nfkc od_qcno assoc_n assoc_t mem_n existsb].
  unfold text_eqb. cbn [list_eqb].
  rewrite !(proj2 (N.eqb_neq _ _)) by congruence. cbn [andb orb negb]. auto.
Qed.

(* the oracle laws assumed by the theorems hold for this oracle *)
Example ex_law_qc : forall c, o_qc ex_o c = true -> o_nfkc ex_o (o_lower ex_o c) = o_lower ex_o c.
Proof.
  intros c. cases_on c. destruct (ex_other c) as (Hl & Hn & _); auto. intros _. rewrite Hl. exact Hn.
Qed.

Example ex_law_head : forall c,
  head_law c (o_lower ex_o c) /\ head_law c (o_nfkc ex_o [c]) /\ head_law c (o_nfkc ex_o (o_lower ex_o c)).
Proof.
  intros c. cases_on c.
  destruct (ex_other c) as (Hl & Hn & _); auto. assert (G : forall r : text, r = [c] -> head_law c r) by (intros r ->; cbn; auto).
  repeat split; apply G; [exact Hl | exact Hn | transitivity (o_nfkc ex_o [c]); [f_equal; exact Hl | exact Hn]].
Qed.

(* "abcＡ": the key ab (longest at 0) is replaced, c kept, Ａ lower-cased and NFKC-normalised; general path *)
Example ex_slow : default_rewrite (o_lower ex_o) (o_nfkc ex_o) (o_qc ex_o) (o_upper ex_o) ex_tb ex_ign false [97; 98; 99; 65313]
                  = Some [121; 99; 97].
Proof. vm_compute. reflexivity. Qed.
(* "abc": optimised path, same span rewritten the same way *)
Example ex_fast : default_rewrite (o_lower ex_o) (o_nfkc ex_o) (o_qc ex_o) (o_upper ex_o) ex_tb ex_ign true [97; 98; 99]
                  = Some [121; 99]
                  /\ takes_slow (o_lower ex_o) (o_upper ex_o) true [97; 98; 99] = false.
Proof. vm_compute. split; reflexivity. Qed.
(* cut points of "abcＡab": 0, 2 (behind the key), 3, 4, 6 — not 1 or 5 (inside a key) *)
Example ex_cut : map (cut_point ex_tb [97; 98; 99; 65313; 97; 98]) [0; 1; 2; 3; 4; 5; 6]%nat
                 = [true; false; true; true; true; false; true].
Proof. vm_compute. reflexivity. Qed.
Example ex_separator : in_no_key ex_tb 99.
Proof. intros k v H. cbn in H. destruct H as [H|[H|[]]]; inversion H; subst; cbn; intuition discriminate. Qed.
(* title-case letter: lower-cased, then NFKC *)
Example ex_titlecase : normalize_spec (o_lower ex_o) (o_nfkc ex_o) [] ex_ign [453] = [100; 382]
  /\ default_rewrite (o_lower ex_o) (o_nfkc ex_o) (o_qc ex_o) (o_upper ex_o) [] ex_ign false [453] = Some [100; 382].
Proof. vm_compute. split; reflexivity. Qed.

(* ---- the repaired defects, on model variants describing the old code ---- *)
(* `.earliest(true)`: the anchored search of the general path reported the shortest key *)
Definition slow_act_earliest (o : odata) (tb : table) (t : text) : action :=
  match shortest_match tb t with
  | Some (n, v) => Some (0%nat, n, v)
  | None => match t with
            | c :: _ => match norm_edit (o_lower o) (o_nfkc o) (o_qc o) (o_upper o) ex_ign c with Some r => Some (0%nat, 1%nat, r) | None => None end
            | [] => None
            end
  end.
Example earliest_variant_refuted :
  apply_edits [97; 98; 99; 65313] (scan_edits (slow_act_earliest ex_o ex_tb) 0 0 [97; 98; 99; 65313]) = Some [120; 98; 99; 97]
  /\ normalize_spec (o_lower ex_o) (o_nfkc ex_o) ex_tb ex_ign [97; 98; 99; 65313] = [121; 99; 97].
Proof. vm_compute. split; reflexivity. Qed.
(* `is_uppercase()` as guard: a title-case letter went through NFKC only — "ǅ" became "Dž" *)
Example uppercase_guard_variant_refuted :
  norm_edit_of 453 (o_nfkc ex_o [453]) = Some [68; 382] /\ o_upper ex_o 453 = false
  /\ spec_char (o_lower ex_o) (o_nfkc ex_o) ex_ign 453 = [100; 382].
Proof. vm_compute. repeat split; reflexivity. Qed.

(* ---- prolonged sound marks: "ゴーーール〜" with marks {ー,〜}: the run of three becomes one symbol, the single mark stays ---- *)
Example ex_psm :
  apply_edits [12468; 12540; 12540; 12540; 12523; 12316] (psm_edits (mem_n [12540; 12316]) [12540] [12468; 12540; 12540; 12540; 12523; 12316])
  = Some [12468; 12540; 12523; 12316]
  /\ psm_edits (mem_n [12540; 12316]) [12540] [12468; 12540; 12540; 12540; 12523; 12316] = [mkE 1 4 [12540]].
Proof. vm_compute. split; reflexivity. Qed.

(* ---- yomigana: "徳島（とくしま）に" — kanji 島, brackets （ ）, four readings, max 4 ---- *)
Definition ex_K := in_ranges [(19968, 40959)].
Definition ex_R := in_ranges [(12353, 12447); (12449, 12543)].
Example ex_yomi :
  yomi_edits ex_K ex_R (mem_n [40; 65288]) (mem_n [41; 65289]) 4 [24499; 23798; 65288; 12392; 12367; 12375; 12414; 65289; 12395]
  = [mkE 2 8 []]
  /\ apply_edits [24499; 23798; 65288; 12392; 12367; 12375; 12414; 65289; 12395]
       (yomi_edits ex_K ex_R (mem_n [40; 65288]) (mem_n [41; 65289]) 4 [24499; 23798; 65288; 12392; 12367; 12375; 12414; 65289; 12395])
     = Some [24499; 23798; 12395]
  /\ scan_cut (yomi_act ex_K ex_R (mem_n [40; 65288]) (mem_n [41; 65289]) 4) 0 [24499; 23798; 65288; 12392; 12367; 12375; 12414; 65289; 12395] 1 = true.
Proof. vm_compute. repeat split; reflexivity. Qed.
(* too long a reading (max 3) is left alone *)
Example ex_yomi_too_long :
  yomi_edits ex_K ex_R (mem_n [40; 65288]) (mem_n [41; 65289]) 3 [24499; 23798; 65288; 12392; 12367; 12375; 12414; 65289; 12395] = [].
Proof. vm_compute. reflexivity. Qed.

(* ---- C07 composed with C08/C01: the hypotheses of the stack theorems are satisfiable, on a non-trivial stack ----
   Default (table a->x, ab->y, oracle ex_o, general path) -> ProlongedSoundMark {ー} -> IgnoreYomigana (（ ） max 4), and the
   same three in another order, on  "abＡーー徳（と）c"  *)
From Coq Require Import ZArith.
From SudachiVerif Require Model.Buffer Proofs.PipelineFull.
From SudachiVerif Require Import Proofs.NormalizeBuffer.
Local Open Scope N_scope.

Definition st_default : plugin :=
  P_default (o_lower ex_o) (o_nfkc ex_o) (o_qc ex_o) (o_upper ex_o) ex_tb ex_ign (fun _ => false).
Definition st_psm : plugin := P_psm (mem_n [12540]) [12540].
Definition st_yomi : plugin := P_yomi ex_K ex_R (mem_n [40; 65288]) (mem_n [41; 65289]) 4.
Definition st_t0 : text := [97; 98; 65313; 12540; 12540; 24499; 65288; 12392; 65289; 99].

Example ex_st_default_wf : plugin_wf st_default.
Proof.
  cbn [plugin_wf st_default]. split; [exact ex_table_wf|]. split; [exact ex_law_qc|]. split; [exact ex_law_head|].
  intros t H. discriminate H.
Qed.

Example ex_stack_wf : Forall plugin_wf [st_default; st_psm; st_yomi] /\ Forall plugin_wf [st_yomi; st_default; st_psm; st_default].
Proof.
  split.
  - apply Forall_cons; [exact ex_st_default_wf|]. apply Forall_cons; [exact I|]. apply Forall_cons; [exact I|]. apply Forall_nil.
  - apply Forall_cons; [exact I|]. apply Forall_cons; [exact ex_st_default_wf|]. apply Forall_cons; [exact I|].
    apply Forall_cons; [exact ex_st_default_wf|]. apply Forall_nil.
Qed.

(* the composition of the specifications: "yaー徳c" — key ab replaced, Ａ lower-cased + NFKC, mark run collapsed, reading removed *)
Example ex_stack_spec : stack_spec [st_default; st_psm; st_yomi] st_t0 = [121; 97; 12540; 24499; 99]
                        /\ stack_spec [st_yomi; st_default; st_psm; st_default] st_t0 = [121; 120; 12540; 24499; 99].   (* the second Default pass meets the key a *)
Proof. vm_compute. split; reflexivity. Qed.

Example ex_stack_nonempty : stack_nonempty [st_default; st_psm; st_yomi] st_t0.
Proof. cbn [stack_nonempty]. repeat split; try (intros _; vm_compute; discriminate). Qed.

Example ex_stack_fits : stack_fits Buffer.the_cfg [st_default; st_psm; st_yomi] st_t0.
Proof. cbn [stack_fits]. repeat split; vm_compute; discriminate. Qed.

(* the model buffer really runs the stack: start_build, three commits of translated edits, text = enc of the composition *)
Example ex_stack_runs :
  match Buffer.start_build Buffer.the_cfg (enc st_t0) with
  | Buffer.Ok s0 =>
      match Buffer.commit Buffer.the_cfg s0 (tr_edits st_t0 (plugin_edits st_default st_t0)) with
      | Buffer.Ok s1 =>
          let t1 := plugin_spec st_default st_t0 in
          match Buffer.commit Buffer.the_cfg s1 (tr_edits t1 (plugin_edits st_psm t1)) with
          | Buffer.Ok s2 =>
              let t2 := plugin_spec st_psm t1 in
              match Buffer.commit Buffer.the_cfg s2 (tr_edits t2 (plugin_edits st_yomi t2)) with
              | Buffer.Ok s3 => Buffer.cur s3 = enc [121; 97; 12540; 24499; 99]
                                /\ Buffer.m2o s3 = [0; 2; 5; 11; 11; 11; 12; 13; 23; 24]%nat
              | _ => False
              end
          | _ => False
          end
      | _ => False
      end
  | _ => False
  end.
Proof. vm_compute. split; reflexivity. Qed.

(* ---- rewrite.def text: comment, blank line, exempt line, rules separated by tab / several spaces / ideographic space,
   a value that starts with '#', a key that contains '#', CR LF line ends ---- *)
From SudachiVerif Require Import Model.RewriteDefText.
Definition ex_def : text :=
  (* "# c\r\n\r\n Ⅲ \r\n♯\t#\r\na#b   x\r\nab　y # z"  -> last line has four columns *)
  [35; 32; 99; 13; 10;  13; 10;  32; 8546; 32; 13; 10;  9839; 9; 35; 13; 10;  97; 35; 98; 32; 32; 32; 120; 13; 10].
Example ex_def_read : read_rewrite_def ex_def = RdOk [8546] [([9839], [35]); ([97; 35; 98], [120])].
Proof. vm_compute. reflexivity. Qed.
Example ex_def_errors :
  read_rewrite_def (ex_def ++ [97; 98; 12288; 121; 32; 35; 32; 122]) = RdErr ECols 5
  /\ read_rewrite_def (ex_def ++ [9839; 32; 120]) = RdErr EDup 5
  /\ read_rewrite_def (ex_def ++ [97; 98; 10]) = RdErr ENotChar 5.
Proof. vm_compute. repeat split; reflexivity. Qed.
