(* C13: non-vacuity examples for the hypotheses of the theorems, and the witness that the pinned tree's backward pass
   (repaired by the `fix:` commit recorded in KNOWN_FINDINGS.txt) did not compute the left-to-right specification. *)
From Coq Require Import List NArith ZArith Lia String.
From SudachiVerif Require Generated.CategoryFacts.
From SudachiVerif Require Import Model.Oov Proofs.OovContinuity.
Import ListNotations.
Open Scope N_scope.

Module CF := Generated.CategoryFacts.

(* "e" + U+0301 + "京":  ALPHA ; ALL|NOOOVBOW ; KANJI *)
Definition ex_text : list N := [CF.ALPHA; N.lor CF.ALL CF.NOOOVBOW; CF.KANJI].

Example backward_pass_refuted : continuity_bwd ex_text <> continuity_spec ex_text.
Proof. vm_compute. discriminate. Qed.
Example backward_pass_values : continuity_bwd ex_text = [1; 2; 1]%nat /\ continuity_spec ex_text = [2; 1; 1]%nat.
Proof. vm_compute. split; reflexivity. Qed.
Example forward_pass_values : continuity ex_text = [2; 1; 1]%nat.
Proof. vm_compute. reflexivity. Qed.

Example ex_seg : Seg ex_text [2; 1]%nat.
Proof.
  change ex_text with (CF.ALPHA :: [N.lor CF.ALL CF.NOOOVBOW] ++ [CF.KANJI]).
  apply (Seg_cons CF.ALPHA [N.lor CF.ALL CF.NOOOVBOW] [CF.KANJI] [1%nat]).
  - right. vm_compute. discriminate.
  - right. vm_compute. reflexivity.
  - apply (Seg_cons CF.KANJI [] [] []); [left; reflexivity|left; reflexivity|constructor].
Qed.

(* hypotheses of C13_base_not_separated_from_marks are met by the base character and its mark *)
Example ex_mark_hyp : nth_error ex_text 0 = Some CF.ALPHA /\ nth_error ex_text 1 = Some (N.lor CF.ALL CF.NOOOVBOW)
                      /\ CF.ALPHA <> 0 /\ N.land CF.ALPHA (N.lor CF.ALL CF.NOOOVBOW) = CF.ALPHA.
Proof. vm_compute. repeat split; try reflexivity. discriminate. Qed.

(* a MeCab definition: ALPHA always invoked, grouped, lengths 1..2, two unknown-word definitions; KANJI on demand *)
Definition ex_mecab : mecab :=
  mkMecab [mkCI CF.ALPHA true true 2; mkCI CF.KANJI false false 3; mkCI CF.DEFAULT false true 0; mkCI CF.HIRAGANA true false 4294967295]
          [(CF.ALPHA, [mkOov 1 1 100%Z 0; mkOov 2 3 (-5)%Z 1]); (CF.KANJI, [mkOov 0 0 7%Z 2])].
Definition ex_text2 : list N := [CF.ALPHA; CF.ALPHA; N.lor CF.ALL CF.NOOOVBOW; CF.ALPHA; CF.KANJI; CF.KANJI].

Example ex_mecab_run :
  mecab_provide ex_mecab ex_text2 (continuity ex_text2) 0 5 =
  ROk [mkNode 0 4 1 1 100%Z 0; mkNode 0 4 2 3 (-5)%Z 1;
       mkNode 0 1 1 1 100%Z 0; mkNode 0 1 2 3 (-5)%Z 1; mkNode 0 2 1 1 100%Z 0; mkNode 0 2 2 3 (-5)%Z 1].
Proof. vm_compute. reflexivity. Qed.
(* (the run reaches the end of the text and the class allows longer candidates: before the `fix:` of the clamped-distance
   loop the full-run candidate 4..6 was produced once more for length 3) *)
Example ex_mecab_on_demand :
  mecab_provide ex_mecab ex_text2 (continuity ex_text2) 4 0 = ROk [mkNode 4 5 0 0 7%Z 2; mkNode 4 6 0 0 7%Z 2]
  /\ mecab_provide ex_mecab ex_text2 (continuity ex_text2) 4 1 = ROk [].
Proof. vm_compute. split; reflexivity. Qed.
(* a class whose char.def header allows candidates of up to 4294967295 characters: still one candidate per length of the run *)
Example ex_mecab_huge_length :
  mecab_provide (mkMecab [mkCI CF.KANJI true false 4294967295] [(CF.KANJI, [mkOov 0 0 7%Z 2])]) ex_text2 (continuity ex_text2) 4 0
  = ROk [mkNode 4 5 0 0 7%Z 2; mkNode 4 6 0 0 7%Z 2].
Proof. vm_compute. reflexivity. Qed.
Example ex_prescribed_same : same_node_set [mkNode 4 5 0 0 7%Z 2; mkNode 4 6 0 0 7%Z 2] (prescribed ex_mecab ex_text2 4 0) = true.
Proof. vm_compute. reflexivity. Qed.

(* CreatedWords: exact below 64, Maybe from 64 up *)
Example ex_created :
  exists cw, cw_add_all 0 [1; 5; 70]%nat = Some cw
    /\ cw_has_word cw 5 = Some HYes /\ cw_has_word cw 6 = Some HNo
    /\ cw_has_word cw 64 = Some HMaybe /\ cw_has_word cw 63 = Some HNo /\ cw_has_word cw 0 = None.
Proof. eexists. vm_compute. repeat split; reflexivity. Qed.

(* sequencing: at the combining mark (gated class) the providers are skipped and the fallback (last) provider answers;
   at the base character the MeCab provider answers and the fallback stays silent *)
Definition ex_simple : oovdef := mkOov 3 3 6000%Z 0.
Definition ex_provs : list provider := [PMecab ex_mecab; PSimple ex_simple].
Example ex_fallback_fires :
  normal_pass (mk_ctx ex_text2) ex_provs 2 [] = ROk (0, [])
  /\ position_step (mk_ctx ex_text2) ex_provs 2 [] = ROk [mkNode 2 4 3 3 6000%Z 0].
Proof. vm_compute. split; reflexivity. Qed.
Example ex_fallback_silent :
  exists cw buf, normal_pass (mk_ctx ex_text2) ex_provs 0 [] = ROk (cw, buf) /\ buf <> []
                 /\ position_step (mk_ctx ex_text2) ex_provs 0 [] = ROk buf.
Proof. eexists. eexists. vm_compute. repeat split; try reflexivity. discriminate. Qed.
Example ex_lattice_ok :
  exists r, build_lattice (mk_ctx ex_text2) ex_provs [[]; []; []; []; []; []] = ROk r /\ List.length r = 6%nat.
Proof. eexists. vm_compute. split; reflexivity. Qed.
(* with the MeCab provider last, a class without definition stops the analysis *)
Example ex_disconnect :
  build_lattice (mk_ctx [CF.HIRAGANA]) [PMecab ex_mecab] [[]] = RErr.
Proof. vm_compute. reflexivity. Qed.

(* Regex provider: a 3-character match at offset 1 of a relaxed pattern; suppressed when a word of length 3 exists *)
Definition ex_regex : regexp := mkRegex (mkOov 1 2 (-30)%Z 4) None false false [None; Some (true, 3%nat); None; None; None; None].
Example ex_regex_run :
  regex_provide ex_regex (continuity ex_text2) 1 1 [dict_node 1 2] = ROk [mkNode 1 4 1 2 (-30)%Z 4]
  /\ regex_provide ex_regex (continuity ex_text2) 1 4 [dict_node 1 4] = ROk [].
Proof. vm_compute. split; reflexivity. Qed.
(* an empty match is not a word (before fix d4b32a6 it tripped the assertion of CreatedWords::single) *)
Example ex_regex_empty_match_ignored :
  regex_provide (mkRegex (mkOov 1 2 0%Z 4) None false false [Some (true, 0%nat)]) [1%nat] 0 0 [] = ROk [].
Proof. vm_compute. reflexivity. Qed.

(* permissible word starts: ZWJ (NOOOVBOW2) forbids itself and the next character *)
Example ex_bow : can_bow [CF.ALPHA; N.lor CF.ALL CF.NOOOVBOW2; CF.KANJI; CF.KANJI; N.lor CF.ALL CF.NOOOVBOW; CF.ALPHA; CF.ALPHA]
                 = [true; false; false; true; false; false; false].
Proof. vm_compute. reflexivity. Qed.

(* ---- well-formed candidates, the lattice adapter, OOV morphemes (non-vacuity of the hypotheses) ---- *)
From SudachiVerif Require Proofs.OovWf Proofs.OovLattice Model.BuildLattice.

(* the regex oracle hypothesis is met by ex_regex on the 6-character text: its only match (offset 1, 3 characters) ends
   within the window *)
Example ex_oracle_ok : Proofs.OovWf.regex_oracle_ok ex_regex 6.
Proof.
  intros off at0 mlen H. destruct off as [|[|[|[|[|[|off]]]]]]; cbn in H; try discriminate.
  - injection H as <- <-. cbn. lia.
  - destruct off; discriminate.
Qed.

Definition ex_provs3 : list provider := [PMecab ex_mecab; PRegex ex_regex; PSimple ex_simple].
Example ex_total_hyps :
  fallback_of ex_provs3 = Some (PSimple ex_simple)
  /\ forallb (fun p => match normal_pass (mk_ctx ex_text2) ex_provs3 p [] with ROk _ => true | _ => false end) (seq 0 6) = true.
Proof. vm_compute. split; reflexivity. Qed.

(* the lattice of the provider model over that text gets connected (unit connection costs) *)
Example ex_build_connected :
  exists L e, Model.BuildLattice.build (fun _ _ => 1%Z) (Proofs.OovLattice.oov_offered ex_text2 ex_provs3 (fun _ => []))
                                       Proofs.OovLattice.no_fallback 6 = Some (L, e).
Proof. eexists. eexists. vm_compute. reflexivity. Qed.

(* an OOV node with part of speech 7 over characters 1..3 of a text whose normalised form differs from the original *)
Example ex_oov_morpheme :
  oov_morpheme [65; 66; 67; 68] [97; 98; 99; 100] (wid_oov 7) 1 3
  = mkMV true (-1)%Z 7 [66; 67] [98; 99] [98; 99] [98; 99]
  /\ wid_oov 7 = 4026531847 /\ dictionary_id (wid_new 2 5) = 2%Z.
Proof. vm_compute. repeat split; reflexivity. Qed.

(* ---- buffer-level OOV morpheme, providers that cannot fail, best-path provenance (non-vacuity) ---- *)
From SudachiVerif Require Model.Buffer Model.OovBuffer Proofs.OovTotal Proofs.OovBestPath.

(* "㍿" (3 bytes) normalised to "株式会社" (12 bytes, 4 characters): every byte of the normalised text maps to offset 0 of the
   original, the end to 3.  One OOV node over all four characters: the surface is the ORIGINAL 3 bytes, the forms are the
   NORMALISED 12 bytes *)
Definition ex_orig : list N := [227; 141; 191].
Definition ex_cur : list N := [230; 160; 170; 229; 188; 143; 228; 188; 154; 231; 164; 190].
Definition ex_buf : Model.Buffer.buf := Model.Buffer.mkBuf ex_orig ex_cur [0; 0; 0; 0; 0; 0; 0; 0; 0; 0; 0; 0; 3]%nat.
Example ex_oov_morpheme_buf :
  Model.OovBuffer.oov_morpheme_buf ex_buf (wid_oov 7) (Model.Buffer.mkRN 0 4 0 12)
  = Some (mkMV true (-1)%Z 7 ex_orig ex_cur ex_cur ex_cur).
Proof. vm_compute. reflexivity. Qed.
(* a node over the characters 1..3 only: forms = the 6 normalised bytes of 式会; its surface is the empty original range 0..0
   (both ends map to offset 0: the case the identity of character indices could not express) *)
Example ex_oov_morpheme_buf_inner :
  Model.OovBuffer.oov_morpheme_buf ex_buf (wid_oov 7) (Model.Buffer.mkRN 1 3 3 9)
  = Some (mkMV true (-1)%Z 7 [] [229; 188; 143; 228; 188; 154] [229; 188; 143; 228; 188; 154] [229; 188; 143; 228; 188; 154]).
Proof. vm_compute. reflexivity. Qed.

(* the provider list of the earlier examples cannot fail: no debug-mode regex, the oracle answers for all six offsets *)
Example ex_providers_total :
  forall p, In p ex_provs3 -> Proofs.OovTotal.provider_total p 6 /\ Proofs.OovWf.provider_oracle_ok p 6.
Proof.
  intros p [<-|[<-|[<-|[]]]]; cbn; auto. split; [split; reflexivity|exact ex_oracle_ok].
Qed.
(* ... while a debug-mode regex whose pattern matches later than the offset does return the error *)
Example ex_regex_debug_error :
  regex_provide (mkRegex (mkOov 1 2 0%Z 4) None false true [Some (false, 2%nat)]) [1%nat] 0 0 [] = RErr.
Proof. vm_compute. reflexivity. Qed.

Example ex_templates :
  Proofs.OovBestPath.provider_templates (PMecab ex_mecab) = [mkOov 1 1 100%Z 0; mkOov 2 3 (-5)%Z 1; mkOov 0 0 7%Z 2].
Proof. vm_compute. reflexivity. Qed.
