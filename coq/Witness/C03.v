(* Non-vacuity for C03_fallback_total: a candidate source with gaps plus a one-character fallback *)
From Coq Require Import List ZArith NArith Lia.
From SudachiVerif Require Import Model.Lattice Model.BuildLattice Proofs.BuildLatticeProofs.
Import ListNotations.
Open Scope Z_scope.

Definition ex_conn (l r : N) : Z := Z.of_N l - Z.of_N r.
Definition ex_cands (p : nat) : list node :=
  match p with
  | 0%nat => [mkNode 0 2 1 1 5]
  | 2%nat => [mkNode 2 3 0 1 (-3); mkNode 2 5 1 0 9]
  | _ => []
  end.
Definition ex_fallback (p : nat) : option node := Some (mkNode p (S p) 0 0 100).

Example ex_cands_wf : forall p m, In m (ex_cands p) -> node_wf 5 p m.
Proof.
  intros p m H. destruct p as [|[|[|p]]]; cbn in H; try contradiction;
    repeat (destruct H as [<-|H]; [unfold node_wf; cbn; lia|]); contradiction.
Qed.
Example ex_fallback_ok : forall p, (p < 5)%nat -> exists f, ex_fallback p = Some f /\ node_wf 5 p f.
Proof. intros p H. eexists. split; [reflexivity|]. unfold node_wf; cbn; lia. Qed.
Example ex_build : option_map snd (build ex_conn ex_cands ex_fallback 5) = Some (5%nat, 0%nat, 13).
Proof. vm_compute. reflexivity. Qed.
(* without fallback the same text is disconnected *)
Example ex_no_fallback : build ex_conn (fun p => match p with 0%nat => [mkNode 0 2 1 1 5] | _ => [] end) (fun _ => None) 5 = None.
Proof. vm_compute. reflexivity. Qed.
