(* Non-vacuity for C03_fallback_total: a candidate source with gaps plus a one-character fallback *)
From Coq Require Import List ZArith NArith Lia.
From SudachiVerif Require Import Model.Lattice Model.BuildLattice Proofs.BuildLatticeProofs.
Import ListNotations.
Open Scope Z_scope.

Definition ex_conn (l r : N) : Z := Z.of_N l - Z.of_N r.
Definition ex_cands (p : nat) : list node :=
  match p with
  | 0%nat => [mkNode 0 2 1 1 5]
  | 2%nat => [mkNode 2 3 0 1 (-3); mkNode 2 5 1 0 9]
  | _ => []
  end.
Definition ex_fallback (p : nat) : option node := Some (mkNode p (S p) 0 0 100).

Example ex_cands_wf : forall p m, In m (ex_cands p) -> node_wf 5 p m.
Proof.
  intros p m H. destruct p as [|[|[|p]]]; cbn in H; try contradiction;
    repeat (destruct H as [<-|H]; [unfold node_wf; cbn; lia|]); contradiction.
Qed.
Example ex_fallback_ok : forall p, (p < 5)%nat -> exists f, ex_fallback p = Some f /\ node_wf 5 p f.
Proof. intros p H. eexists. split; [reflexivity|]. unfold node_wf; cbn; lia. Qed.
Example ex_build : option_map snd (build ex_conn ex_cands ex_fallback 5) = Some (5%nat, 0%nat, 13).
Proof. vm_compute. reflexivity. Qed.
(* without fallback the same text is disconnected *)
Example ex_no_fallback : build ex_conn (fun p => match p with 0%nat => [mkNode 0 2 1 1 5] | _ => [] end) (fun _ => None) 5 = None.
Proof. vm_compute. reflexivity. Qed.

(* ---- Model/LatticeP.v: a well-formed analysis runs through; ill-formed input panics where the real Lattice does
        (the same sessions are replayed on the implementation by the correspondence run) ---- *)
From SudachiVerif Require Import Model.LatticeP.
Example lattice_wf_round_ok :
  round_wf 1 1 [3%Z] (3%nat, [mkNode 0 2 0 0 5; mkNode 0 1 0 0 1; mkNode 1 3 0 0 1; mkNode 2 3 0 0 1]) = true
  /\ match prounds true true 1 1 [3%Z] pdefault [(3%nat, [mkNode 0 2 0 0 5; mkNode 0 1 0 0 1; mkNode 1 3 0 0 1; mkNode 2 3 0 0 1])] with
     | POk (_, [(costs, Some (c, path, totals))]) => costs = [8; 4; 8; 12]%Z /\ c = 11%Z /\ path = [(1, 0); (3, 0)]%nat /\ totals = [4; 8]%Z
     | _ => False
     end.
Proof. vm_compute. repeat split; reflexivity. Qed.
(* a node ending beyond the outer vectors: `self.ends[end_idx]` *)
Example lattice_end_beyond_panics :
  prounds true true 1 1 [3%Z] pdefault [(2%nat, [mkNode 0 3 0 0 1])] = PPanic S_insert_ends_end.
Proof. vm_compute. reflexivity. Qed.
(* ... but not when an earlier, longer analysis left a stale row there: no panic, the node lands in a row nobody reads *)
Example lattice_stale_row_no_panic :
  match prounds true true 1 1 [3%Z] pdefault [(5%nat, [mkNode 0 5 0 0 1]); (2%nat, [mkNode 0 4 0 0 1; mkNode 0 2 0 0 1])] with
  | POk _ => True | _ => False end.
Proof. vm_compute. exact I. Qed.
(* ids outside the matrix: debug assertion with debug assertions, undefined behaviour without *)
Example lattice_bad_id_panics :
  prounds true true 1 1 [3%Z] pdefault [(1%nat, [mkNode 0 1 1 0 1])] = PPanic S_conn_right
  /\ prounds false false 1 1 [3%Z] pdefault [(1%nat, [mkNode 0 1 1 0 1])] = PUB.
Proof. vm_compute. split; reflexivity. Qed.
(* the empty text through the public Lattice API: reset(0), connect_eos, fill_top_path indexes indices[0][0], which BOS
   never fills.  StatefulTokenizer::do_tokenize returns before build_lattice for an empty text, hence `1 <= len` in round_wf *)
Example empty_text_api_panics :
  prounds true true 1 1 [3%Z] pdefault [(0%nat, [])] = PPanic S_path_indices_col.
Proof. vm_compute. reflexivity. Qed.

(* ---- resolve_best_path / accessors: "aあb" = 61 E3 81 82 62; the node of あ resolves to characters [1,2), bytes [1,4);
        a node ending behind the text indexes mod_c2b out of range (None = panic) ---- *)
From SudachiVerif Require Import Model.Buffer Proofs.AccessorsNoPanic.
Example resolve_node_example :
  resolve_node [97; 227; 129; 130; 98]%N (mkNode 1 2 0 0 0) = Some (mkRN 1 2 1 4, [227; 129; 130]%N)
  /\ resolve_node [97; 227; 129; 130; 98]%N (mkNode 2 4 0 0 0) = None.
Proof. vm_compute. split; reflexivity. Qed.
Example accessors_example :
  match start_build the_cfg [97; 227; 129; 130; 98]%N with
  | Buffer.Ok s => morpheme_begin s (mkRN 1 2 1 4) = Some 1%nat /\ morpheme_end s (mkRN 1 2 1 4) = Some 4%nat
                   /\ morpheme_begin_c the_cfg s (mkRN 1 2 1 4) = Some 1%nat /\ morpheme_end_c the_cfg s (mkRN 1 2 1 4) = Some 2%nat
                   /\ morpheme_surface s (mkRN 1 2 1 4) = Some [227; 129; 130]%N
                   (* a node whose byte range is off a character boundary: the debug assertion of orig_slice *)
                   /\ morpheme_surface s (mkRN 1 2 2 4) = None
  | _ => False
  end.
Proof. vm_compute. repeat split; reflexivity. Qed.

(* ---- hostile arrays (what the loader accepts without checking): the bounds-checked readers answer None ---- *)
From SudachiVerif Require Model.Trie Model.WordIdTable.
(* (a unit whose offset field is 2^20: far outside the one-unit array, and small enough for the unary index of the model's
   `nth_error` -- the all-ones unit, offset 2^30 - 256, costs 39 GB of unary numeral to evaluate) *)
Example trie_hostile_array_out_of_bounds :
  Trie.traverse_opt [1073741824%N] [97%N] 0 = None.
Proof. vm_compute. reflexivity. Qed.
Example wid_table_hostile_out_of_bounds :
  WordIdTable.entries [3; 1; 0; 0; 0]%N 0%N = None /\ WordIdTable.entries [1; 7; 0; 0; 0]%N 0%N = Some [7%N].
Proof. vm_compute. split; reflexivity. Qed.
(* ---- concat_nodes: inverted byte order / oversized head word lengths panic in the panicking variant ---- *)
From SudachiVerif Require Import Proofs.SitesConcat.
Definition cn (cb ce bb_ be_ : nat) : Rewrite.node := Rewrite.mkN cb ce bb_ be_ [] [] [] [] 0 0 false 0 0.
Example concat_sites :
  pconcat (fun _ => 3%N) true (fun g => hd Rewrite.dnode g) [cn 0 1 0 3; cn 1 2 3 6] 0 2 = COk [cn 0 1 0 3]
  /\ pconcat (fun _ => 3%N) true (fun g => hd Rewrite.dnode g) [cn 0 1 0 3; cn 1 2 3 6] 0 3 = CPanic C_index_end
  /\ pconcat (fun _ => 3%N) true (fun g => hd Rewrite.dnode g) [cn 1 2 3 6; cn 0 1 0 2] 0 2 = CPanic C_bytes_sub
  /\ pconcat (fun _ => 40000%N) true (fun g => hd Rewrite.dnode g) [cn 0 1 0 3; cn 1 2 3 6] 0 2 = CPanic C_hw_add
  /\ pconcat (fun _ => 3%N) true (fun g => hd Rewrite.dnode g) [cn 0 1 0 3; cn 1 2 3 6] 1 1 = CErrRange.
Proof. vm_compute. repeat split; reflexivity. Qed.
