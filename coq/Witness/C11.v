(* C11: the defect of the pinned tree as a witness against the old closure rules, and non-vacuity of the theorems *)
From Coq Require Import List NArith ZArith Bool String.
From SudachiVerif Require Import Model.Codec Proofs.CodecProofs Proofs.CodecLexSetProofs.
From SudachiVerif Require Model.CodecCheck.   (* keeps the case-file entry points in step with the facts *)
(* Model.CodecIO (packed literals of the case files, primitive 63-bit integers) is deliberately NOT required here: it is
   built with the other models by the check driver, and requiring it would put Uint63's primitives and axioms into the
   closure that the thorough tier's coqchk audits, although no theorem or witness uses them *)
Import ListNotations.
Open Scope N_scope.

(* InfoSubset::normalize as it was before `fix:` c83b0bf *)
Definition old_rules : list (list string * string) :=
  [ (["READING_FORM"; "NORMALIZED_FORM"], "SURFACE"); (["SPLIT_A"; "SPLIT_B"], "HEAD_WORD_LENGTH") ]%string.
Definition old_normalize (s : N) : N := normalize_with expected_bits old_rules s.

(* 東 (its own dictionary form: dictionary-form id -1), requested subset {DIC_FORM_WORD_ID} *)
Definition e_higashi : entry := mkEntry [26481] 3 4 [26481] 4294967295 [12498; 12460; 12471] [] [] [] [] 7 7 4675.
Definition lx : lexicon := match write_word_info e_higashi with Some b => [b] | None => [] end.

(* with the old rules the closure obligation fails ... *)
Example C11_old_closure_refuted : forallb (fun s => loads_ok s (old_normalize s)) (below 1024) = false.
Proof. vm_compute. reflexivity. Qed.
(* ... and concretely: dictionary_form() is "" instead of 東 *)
Example C11_accessor_preserved_old_refuted :
  option_map (accessor A_dicform) (get_word_info lx true 0 (old_normalize 16)) = Some (VText [])
  /\ option_map (accessor A_dicform) (get_word_info lx true 0 ALL) = Some (VText [26481]).
Proof. split; vm_compute; reflexivity. Qed.
(* with the rules extracted from the current sources the same request is served *)
Example ex_now_served :
  option_map (accessor A_dicform) (get_word_info lx true 0 (normalize 16)) = Some (VText [26481]).
Proof. vm_compute. reflexivity. Qed.

(* hypotheses of C11_accessor_preserved_normalize are satisfiable: the lexicon parses, 16 < 1024, flag requested *)
Example ex_lex_ok : lex_ok lx.
Proof. intros bs [<-|[]]. vm_compute. discriminate. Qed.

(* both call orders from mode C to mode A with the empty subset: mode A, SPLIT_A loaded *)
Example ex_orders :
  (t_subset (set_subset 0 (set_mode ModeA (tok_create ModeC))), t_subset (set_mode ModeA (set_subset 0 (tok_create ModeC)))) = (66, 64).
Proof. vm_compute. reflexivity. Qed.

(* LexiconSet fix-ups: a word of the SECOND user dictionary whose A split refers to user word 1 (raw id 1<<28 | 1).
   Requested {SPLIT_A} (loaded {SPLIT_A, HEAD_WORD_LENGTH} = 66): the reference comes out re-stamped to dictionary 2,
   as after a full load ... *)
Definition e_fu : entry := mkEntry [24220] 3 4 [] 4294967295 [] [5; 268435457] [] [] [] 6 6 2816.
Definition lx_fu : lexicon := match write_word_info e_fu with Some b => [b] | None => [] end.
Example ex_lexset_split_a :
  (option_map (accessor A_a) (lexset_get lx_fu true 2 10 12 0 (normalize 64)),
   option_map (accessor A_a) (lexset_get lx_fu true 2 10 12 0 ALL))
  = (Some (VArr [5; 536870913]), Some (VArr [5; 536870913])).
Proof. vm_compute. reflexivity. Qed.
(* ... which is what one guard per flag buys: with the guards of SPLIT_A and SPLIT_B merged into
   `subset.contains(SPLIT_A | SPLIT_B)` the same request returns the reference un-stamped (a word of dictionary 1) *)
Definition lexset_fix_merged (dict_id subset : N) (wi : winfo) : winfo :=
  if N.testbit subset 6 && N.testbit subset 7
  then set_field F_b (VArr (restamp dict_id (as_arr (wi F_b)))) (set_field F_a (VArr (restamp dict_id (as_arr (wi F_a)))) wi)
  else wi.
Example C11_merged_split_guards_refuted :
  option_map (fun i => accessor A_a (lexset_fix_merged 2 (normalize 64) i)) (get_word_info lx_fu true 0 (normalize 64))
  = Some (VArr [5; 268435457]).
Proof. vm_compute. reflexivity. Qed.

(* operation sequences: collecting results never changes the tokenizer's configuration *)
From SudachiVerif Require Import Model.CodecCheck.
Example ex_ops :
  check_c11_ops [2; 0] [OpSubset 0 0; OpCollect 0 0; OpSubset 0 1023; OpCollect 0 1023; OpCollect 0 1023; OpCollect 1 1023] = true.
Proof. vm_compute. reflexivity. Qed.

(* ------------------------------------------------------------------ boundaries under a subset *)
From SudachiVerif Require Import Model.SubsetPipeline Proofs.SubsetBoundaries.
From SudachiVerif Require Model.Rewrite Model.Split.

(* a lexicon with the full-width digits ２ and ３ (normalised forms 2 and 3, part of speech 7) and 東京都 = 東京 / 都 in mode A *)
Definition e_d2 : entry := mkEntry [65298] 3 7 [50] 4294967295 [] [] [] [] [] 0 0 0.
Definition e_d3 : entry := mkEntry [65299] 3 7 [51] 4294967295 [] [] [] [] [] 0 0 0.
Definition e_tokyo : entry := mkEntry [26481; 20140] 6 4 [] 4294967295 [] [] [] [] [] 0 0 0.
Definition e_to : entry := mkEntry [37117] 3 4 [] 4294967295 [] [] [] [] [] 0 0 0.
Definition e_tokyoto : entry := mkEntry [26481; 20140; 37117] 9 4 [] 4294967295 [] [2; 3] [] [2; 3] [] 0 0 0.
Definition lx_b : lexicon :=
  match write_infos [e_d2; e_d3; e_tokyo; e_to; e_tokyoto] with
  | Some infos => (fix tails (l : list bytes) := match l with [] => [] | b :: t => (b ++ List.concat t) :: tails t end) infos
  | None => []
  end.
Definition gi (L w : N) : option winfo := lexset_get lx_b true 0 10 10 w L.

Example ex_lx_b_ok : lex_ok lx_b.
Proof. intros bs H. cbn in H. repeat (destruct H as [<-|H]; [vm_compute; discriminate|]). contradiction. Qed.
(* so gi meets the contract (hypothesis of C11_boundaries_preserved) *)
Example ex_gi_ok : getinfo_ok gi.
Proof. exact (lexset_getinfo_ok (conj eq_refl eq_refl) lx_b 0 10 10 ex_lx_b_ok). Qed.

Definition NUMC : N := Rewrite.RF.NUMERIC.
Definition path_23 : list pnode := [ mkP 0 1 0 3 0 false [65298] NUMC NUMC; mkP 1 2 3 6 1 false [65299] NUMC NUMC ].
Definition ranges_of (x : option (option (Rewrite.res (list Rewrite.node)))) : list (nat * nat) :=
  match x with Some (Some (Rewrite.Ok q)) => map (fun n => (Rewrite.nb n, Rewrite.ne n)) q | _ => [] end.

(* requested {SURFACE, POS_ID, NORMALIZED_FORM}: JoinNumeric joins ２３ exactly as with all fields *)
Example ex_boundaries_with_norm :
  (ranges_of (rewritten gi (loaded_for 13 Split.ModeC Split.ModeC true) [Rewrite.PNumeric true 7] path_23),
   ranges_of (rewritten gi ALL [Rewrite.PNumeric true 7] path_23)) = ([(0, 2)], [(0, 2)])%nat.
Proof. vm_compute. reflexivity. Qed.

(* the hypothesis on the subset is needed: with {SURFACE, POS_ID} only, normalized_form() falls back to the full-width
   surface, the numeral parser rejects it and the two digits stay apart (the behaviour of the real code) *)
Example C11_boundaries_without_normalized_form_refuted :
  (ranges_of (rewritten gi (loaded_for 5 Split.ModeC Split.ModeC true) [Rewrite.PNumeric true 7] path_23),
   ranges_of (rewritten gi ALL [Rewrite.PNumeric true 7] path_23)) = ([(0, 1); (1, 2)], [(0, 2)])%nat.
Proof. vm_compute. reflexivity. Qed.
(* ... while without a plugin the same subset keeps the boundaries of the path *)
Example ex_no_plugin_any_subset :
  ranges_of (rewritten gi (loaded_for 0 Split.ModeC Split.ModeC true) [] path_23) = [(0, 1); (1, 2)]%nat.
Proof. vm_compute. reflexivity. Qed.

(* mode A with the EMPTY requested subset: set_mode loads SPLIT_A, 東京都 is split into 東京 / 都 exactly as with all fields *)
Definition path_tokyoto : list pnode := [ mkP 0 3 0 9 4 false [] 0 0 ].
Example ex_words_known : words_known gi (map snode_of_p path_tokyoto).
Proof.
  intros n [<-|[]] _. eexists. split; [vm_compute; reflexivity|].
  intros u Hu. vm_compute in Hu. repeat (destruct Hu as [<-|Hu]; [vm_compute; discriminate|]). contradiction.
Qed.
Example ex_split_mode_a :
  (option_map (map (fun n => (Split.nb n, Split.ne n, Split.wid n)))
     (split_stage gi (loaded_for 0 Split.ModeC Split.ModeA false) [26481; 20140; 37117] Split.ModeA path_tokyoto),
   option_map (map (fun n => (Split.nb n, Split.ne n, Split.wid n)))
     (split_stage gi ALL [26481; 20140; 37117] Split.ModeA path_tokyoto))
  = (Some [(0, 2, 2); (2, 3, 3)], Some [(0, 2, 2); (2, 3, 3)]).
Proof. vm_compute. reflexivity. Qed.

(* ---------- the Python entry point create(fields=F, projection=P) ---------- *)
From SudachiVerif Require Import Model.PyProjection.
(* non-vacuity: fields={pos}, projection="reading" on 東 (reading ヒガシ): the reading is loaded and projected *)
Example ex_create_reading :
  loaded_subset 4 (Some PReading) = 37%N /\
  exists iS, get_word_info lx true 0 (loaded_subset 4 (Some PReading)) = Some iS /\
             project [] PReading (view_of [26481] iS) = Some [12498; 12460; 12471]%N.
Proof. split; [vm_compute; reflexivity|]. eexists. split; vm_compute; reflexivity. Qed.
(* refuted: were the required subset of the passed projection NOT OR-ed in (the tokenizer loads normalize F only), the
   projected surface is not the reading *)
Example C11_create_without_required_subset_refuted :
  exists iS, get_word_info lx true 0 (normalize 4) = Some iS /\
             project [] PReading (view_of [26481] iS) <> Some [12498; 12460; 12471]%N.
Proof. eexists. split; [vm_compute; reflexivity|]. vm_compute. discriminate. Qed.
