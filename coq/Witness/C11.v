(* C11: the defect of the pinned tree as a witness against the old closure rules, and non-vacuity of the theorems *)
From Coq Require Import List NArith ZArith Bool String.
From SudachiVerif Require Import Model.Codec Proofs.CodecProofs.
From SudachiVerif Require Model.CodecCheck Model.CodecIO.   (* keeps the case-file entry points in step with the facts *)
Import ListNotations.
Open Scope N_scope.

(* InfoSubset::normalize as it was before `fix:` c83b0bf *)
Definition old_rules : list (list string * string) :=
  [ (["READING_FORM"; "NORMALIZED_FORM"], "SURFACE"); (["SPLIT_A"; "SPLIT_B"], "HEAD_WORD_LENGTH") ]%string.
Definition old_normalize (s : N) : N := normalize_with expected_bits old_rules s.

(* 東 (its own dictionary form: dictionary-form id -1), requested subset {DIC_FORM_WORD_ID} *)
Definition e_higashi : entry := mkEntry [26481] 3 4 [26481] 4294967295 [12498; 12460; 12471] [] [] [] [] 7 7 4675.
Definition lx : lexicon := match write_word_info e_higashi with Some b => [b] | None => [] end.

(* with the old rules the closure obligation fails ... *)
Example C11_old_closure_refuted : forallb (fun s => loads_ok s (old_normalize s)) (below 1024) = false.
Proof. vm_compute. reflexivity. Qed.
(* ... and concretely: dictionary_form() is "" instead of 東 *)
Example C11_accessor_preserved_old_refuted :
  option_map (accessor A_dicform) (get_word_info lx true 0 (old_normalize 16)) = Some (VText [])
  /\ option_map (accessor A_dicform) (get_word_info lx true 0 ALL) = Some (VText [26481]).
Proof. split; vm_compute; reflexivity. Qed.
(* with the rules extracted from the current sources the same request is served *)
Example ex_now_served :
  option_map (accessor A_dicform) (get_word_info lx true 0 (normalize 16)) = Some (VText [26481]).
Proof. vm_compute. reflexivity. Qed.

(* hypotheses of C11_accessor_preserved_normalize are satisfiable: the lexicon parses, 16 < 1024, flag requested *)
Example ex_lex_ok : lex_ok lx.
Proof. intros bs [<-|[]]. vm_compute. discriminate. Qed.

(* both call orders from mode C to mode A with the empty subset: mode A, SPLIT_A loaded *)
Example ex_orders :
  (t_subset (set_subset 0 (set_mode ModeA (tok_create ModeC))), t_subset (set_mode ModeA (set_subset 0 (tok_create ModeC)))) = (66, 64).
Proof. vm_compute. reflexivity. Qed.
