(* Non-vacuity: a concrete overlapping / nested / adjacent / duplicated / empty-class definition meets the hypotheses *)
From Coq Require Import List NArith Lia.
From SudachiVerif Require Import Model.CharCat.
Import ListNotations.
Open Scope N_scope.

Definition ex_rs : list crange :=
  [ mkR 48 58 16; mkR 50 52 4; mkR 58 60 32; mkR 48 58 16; mkR 0 1 2; mkR 55 70 0; mkR 12353 12439 64; mkR 55 56 1073741824 ].

Example ex_wf : forall r, In r ex_rs -> rb r < re r.
Proof. intros r H. cbn in H. repeat (destruct H as [<-|H]; [cbn; lia|]). contradiction. Qed.

Example ex_compiles : exists cc, compile ex_rs = Some cc.
Proof. eexists. vm_compute. reflexivity. Qed.

Example ex_values :
  match compile ex_rs with
  | Some cc => map (lookup cc) [0; 1; 47; 48; 50; 51; 52; 55; 57; 58; 59; 60; 69; 70; 12353; 1114111]
  | None => []
  end = [2; 1; 1; 16; 20; 20; 16; 1073741840; 16; 32; 32; 1; 1; 1; 64; 1].
Proof. vm_compute. reflexivity. Qed.

(* ---- the text reader ---- *)
From Coq Require Import String.
From SudachiVerif Require Import Model.CharDefText.
Definition ex_text : list N := bytes_of
  "# comment
DEFAULT 0 1 0
0x0030..0x0039 NUMERIC
0x0032 NUMERIC KANJINUMERIC # trailing KANJI
  0x3041..0x3096	HIRAGANA
0x0x41 ALPHA
".
Example ex_parse : read_character_definition ex_text =
  POk [mkR 48 58 16; mkR 50 51 272; mkR 12353 12439 64; mkR 65 66 32].
Proof. vm_compute. reflexivity. Qed.
Example ex_err_reversed : read_character_definition (bytes_of "0x0039..0x0030 NUMERIC") = PErr.
Proof. vm_compute. reflexivity. Qed.
Example ex_err_surrogate : read_character_definition (bytes_of "0xD7FF KANJI") = PErr.
Proof. vm_compute. reflexivity. Qed.
Example ex_err_one_column : read_character_definition (bytes_of "0x0030") = PErr.
Proof. vm_compute. reflexivity. Qed.
Example ex_panic_overflow : read_character_definition (bytes_of "0xFFFFFFFF KANJI") = PPanic.
Proof. vm_compute. reflexivity. Qed.
Example ex_unmodelled : read_character_definition (bytes_of "0x30 KANJI|ALPHA") = PUnmodelled.
Proof. vm_compute. reflexivity. Qed.
