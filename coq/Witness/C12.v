(* Non-vacuity and the refuted pre-repair rule for C12. *)
From Coq Require Import List NArith ZArith.
From SudachiVerif Require Import Model.Trie Model.WordIdTable Model.LexSet Proofs.LexSetProofs.
Import ListNotations.
Open Scope N_scope.

(* system dictionary with POS 0 and 1; plugins ask for 5 (new, allowed) and 1 (known, forbid is fine);
   user dictionary 1 (bare route) declares 7, 5, 1; user dictionary 2 (configured route) declares 7, 9, 0 *)
Definition ex_cfg := configure [0; 1; 0] [0; 1; 2]%nat [(5, true); (1, false)]
                               [(false, [7; 5; 1], [0; 1; 2]%nat); (true, [7; 9; 0], [0; 1; 2]%nat)].

Example ex_loads : option_map s_pos_list ex_cfg = Some [0; 1; 5; 7; 5; 7; 9].
Proof. vm_compute. reflexivity. Qed.

Example ex_words :
  match ex_cfg with
  | Some s => map (fun dj => word_pos s (fst dj) (snd dj)) [(0, 0); (0, 1); (0, 2); (1, 0); (1, 1); (1, 2); (2, 0); (2, 1); (2, 2)]
  | None => []
  end = [Some 0; Some 1; Some 0; Some 7; Some 5; Some 1; Some 7; Some 9; Some 0].
Proof. vm_compute. reflexivity. Qed.

(* forbid + unknown POS: the configuration is rejected *)
Example ex_forbid : configure [0] [0]%nat [(5, false)] [] = None.
Proof. vm_compute. reflexivity. Qed.

(* 14 user dictionaries load, 15 do not *)
Example ex_capacity :
  (match configure [0] [0]%nat [] (repeat (false, [3], [0]%nat) 14) with Some _ => true | None => false end,
   match configure [0] [0]%nat [] (repeat (false, [3], [0]%nat) 15) with Some _ => true | None => false end) = (true, false).
Proof. vm_compute. reflexivity. Qed.

(* the rule of the unrepaired builder (preload everything the configured grammar lists), written out: with one
   plugin-registered POS the user word's id is off by one and pos_components leaves the list (the observed panic).
   system POS [0]; plugin registers 5; the user row declares 7 *)
Definition unrepaired_user := build_dict [0; 5] [7] [0]%nat.          (* preloaded = whole grammar [0; 5] *)
Definition unrepaired_set := merge_user (mkSet 1 [0; 5] [0] [[0]]) unrepaired_user.
Example ex_unrepaired_refuted :
  match unrepaired_set with Some s => word_pos s 1 0 | None => Some 0 end = None.
Proof. vm_compute. reflexivity. Qed.
(* with a second plugin POS in front of a user POS the word silently reports a wrong POS instead *)
Example ex_unrepaired_wrong_pos :
  match merge_user (mkSet 1 [0; 5] [0] [[0]]) (build_dict [0; 5] [7; 8] [0; 1]%nat) with
  | Some s => (word_pos s 1 0, word_pos s 1 1) | None => (None, None) end = (Some 8, None).
Proof. vm_compute. reflexivity. Qed.
(* the repaired rule on the same input *)
Example ex_repaired :
  match merge_user (mkSet 1 [0; 5] [0] [[0]]) (build_dict [0] [7; 8] [0; 1]%nat) with
  | Some s => (word_pos s 1 0, word_pos s 1 1) | None => (None, None) end = (Some 7, Some 8).
Proof. vm_compute. reflexivity. Qed.

Example ex_restamp : restamp 3 [stamp 1 5; stamp 0 7] = [stamp 3 5; stamp 0 7].
Proof. vm_compute. reflexivity. Qed.

Example ex_reported : (reported_dic (stamp 2 9), reported_dic (oov_id 4)) = (2%Z, (-1)%Z).
Proof. vm_compute. reflexivity. Qed.

(* joined tokens: dictionary word of user dictionary 1 + two OOV pieces (POS ids 4, 4) is OOV; two dictionary words join to
   (largest dictionary, MAX_WORD); what taking the id of the first part instead would report *)
Example ex_join_oov : (reported_dic (join_oov_wid [stamp 1 3; oov_id 4; oov_id 4]), reported_dic (join_oov_wid [stamp 1 3; stamp 2 0]),
                       reported_dic (stamp 1 3)) = ((-1)%Z, 2%Z, 1%Z).
Proof. vm_compute. reflexivity. Qed.

(* the accessor on dictionaries whose number needs the 4th bit, and what an arithmetic shift of the raw id would report *)
Definition arith_shift_28 (raw : N) : Z := if raw <? 2147483648 then Z.of_N (N.shiftr raw 28) else (Z.of_N (N.shiftr raw 28) - 16)%Z.
Example ex_accessor : (map (fun d => reported_dic (stamp d 3)) [0; 7; 8; 14], reported_dic (oov_id 2),
                       map (fun d => arith_shift_28 (stamp d 3)) [0; 7; 8; 14])
                      = ([0; 7; 8; 14]%Z, (-1)%Z, [0; 7; (-8); (-2)]%Z).
Proof. vm_compute. reflexivity. Qed.

(* an inline reference to the system word (surface [1], POS 0, reading [9]) in a user dictionary that re-defines surface [1]
   with POS 2: it resolves to the system word (0, 0), not to the user row that shares the surface; a reference that names the
   user row resolves to it *)
From SudachiVerif Require Import Model.Codec Model.CodecResolve Model.LexSetResolve.
Example ex_shadowed_surface :
  (loaded_refs 3 [key3 [1] 2 [9]; key3 [5] 4 [6]] [key3 [1] 0 [9]] [inline_of [1] 0 [9]; inline_of [1] 2 [9]])
  = Some [0; stamp 3 0].
Proof. vm_compute. reflexivity. Qed.
