(* Non-vacuity for C15: concrete numerals meet the hypotheses of the theorems and the model gives the expected forms. *)
From Coq Require Import List NArith ZArith Bool Lia.
From SudachiVerif Require Import Model.Numeric Model.NumericRef Proofs.NumericProofs Proofs.NumericRefProofs Proofs.NumericGrouped.
From SudachiVerif Require Import Model.NumericCanon Proofs.NumericCanonProofs.
Import ListNotations.
Open Scope N_scope.

(* "0〇1二" is a digit string in the sense of [digit_of] *)
Example ex_digits : Forall2 digit_of [48; 12295; 49; 20108] [0; 0; 1; 2].
Proof. repeat constructor; vm_compute; congruence. Qed.

(* 三兆2千億千三百二十七万一四.〇五  (the largest example of the Rust unit tests) *)
Example ex_large_units :
  parse gen_cfg [19977;20806;50;21315;20740;21315;19977;30334;20108;21313;19971;19975;19968;22235;46;12295;20116]
  = (true, 0, [51;50;48;48;48;49;51;50;55;48;48;49;52;46;48;53]).
Proof. vm_compute. reflexivity. Qed.

(* 1.5百万1.5千20 = 1501520 *)
Example ex_fraction_times_unit :
  parse gen_cfg [49;46;53;30334;19975;49;46;53;21315;50;48] = (true, 0, [49;53;48;49;53;50;48]).
Proof. vm_compute. reflexivity. Qed.

(* malformed: 200,00,000 -> COMMA ; 1. -> POINT ; 三百二十百 -> rejected without separator error *)
Example ex_bad_comma : fst (parse gen_cfg [50;48;48;44;48;48;44;48;48;48]) = (false, 2).
Proof. vm_compute. reflexivity. Qed.
Example ex_bad_point : fst (parse gen_cfg [49;46]) = (false, 1).
Proof. vm_compute. reflexivity. Qed.
Example ex_units_out_of_order : fst (parse gen_cfg [19977;30334;20108;21313;30334]) = (false, 0).
Proof. vm_compute. reflexivity. Qed.

(* a non-trivial state for the add lemma: 二百 (sg "2", scale 2) + 五十 (sg "5", scale 1) *)
Example ex_add :
  s_add gen_cfg (mkS [2] 2 None false) (mkS [5] 1 None false) = (true, mkS [2; 5] 1 None false, mkS [5] 1 None false)
  /\ abs (mkS [2] 2 None false) = ([2] ++ repeat 0 2, []) /\ abs (mkS [2; 5] 1 None false) = ([2; 5; 0], []).
Proof. vm_compute. repeat split. Qed.

(* a state with a point and a pending scale: 1.55 x 10 denotes 15.5 *)
Example ex_point_scale : abs (mkS [1; 5; 5] 1 (Some 1%nat) false) = ([1; 5], [5]) /\ wf (mkS [1; 5; 5] 1 (Some 1%nat) false).
Proof. split; [reflexivity | cbn; lia]. Qed.

(* the repaired done(): a numeral that is malformed in itself and ends in a separator is rejected WITHOUT a separator
   error, so JoinNumericPlugin does not join its prefix (十55, used to be joined as "0") *)
Example ex_malformed_with_trailing_separator :
  fst (parse gen_cfg [21313;53;53;44]) = (false, 0) /\ fst (parse gen_cfg [57;21313;20116;53;50;50;20108;19977;46]) = (false, 0).
Proof. vm_compute. split; reflexivity. Qed.

(* Observation (not a violation under the "never a WRONG value" reading; reported in the final report): some malformed
   strings are joined with the value of their natural reading *)
Example obs_repeated_large_unit : parse gen_cfg [30334;19975;51;19975] = (true, 0, [49;48;51;48;48;48;48]).   (* 百万3万 -> 1030000 *)
Proof. vm_compute. reflexivity. Qed.
Example obs_comma_in_fraction : parse gen_cfg [49;46;53;44;48;48;48] = (true, 0, [49;46;53]).                 (* 1.5,000 -> 1.5 *)
Proof. vm_compute. reflexivity. Qed.

(* the reference evaluator on the largest example of the Rust unit tests: value 3200013270014.05, room 0 *)
Example ex_reference_value :
  r_parse gen_cfg [19977;20806;50;21315;20740;21315;19977;30334;20108;21313;19971;19975;19968;22235;46;12295;20116]
  = (true, 0, RNum [3;2;0;0;0;1;3;2;7;0;0;1;4] [0;5] 0).
Proof. vm_compute. reflexivity. Qed.

(* 二百五十万: value 2500000 with room 5 = the scale of 十 plus that of 万 (this is why a malformed string such as 百万3万 is
   still accepted with its natural value, see the observations above) *)
Example ex_reference_room : r_parse gen_cfg [20108;30334;20116;21313;19975] = (true, 0, RNum [2;5;0;0;0;0;0] [] 5).
Proof. vm_compute. reflexivity. Qed.

(* a reachable state with a point and digits after it satisfies the invariant non-trivially *)
Example ex_reachable_state :
  exists p, p_feed gen_cfg (p_new gen_cfg) [49;50;46;53] = (true, p) /\ pt (tmp p) = Some 2%nat /\ sg (tmp p) = [1;2;5].
Proof. eexists. split; [vm_compute; reflexivity | split; reflexivity]. Qed.

(* grouped: "12,345,678" is well-formed; "12,34" and "0,123" and ",123" are not *)
Example ex_groups :
  groups_ok [1;2] [[3;4;5]; [6;7;8]] = true /\ groups_ok [1;2] [[3;4]] = false /\ groups_ok [0] [[1;2;3]] = false /\
  groups_ok [] [[1;2;3]] = false /\ groups_ok [1] [[]; [1;2;3]] = false.
Proof. vm_compute. repeat split. Qed.

(* canonical writings: 3200013270014 = 三兆二千億千三百二十七万十四 (kanji_of) = 3兆2000億1327万14 (mixed_of) *)
Example ex_kanji_of :
  kanji_of 3200013270014 = [19977;20806;20108;21315;20740;21315;19977;30334;20108;21313;19971;19975;21313;22235] /\
  mixed_of 3200013270014 = [51;20806;50;48;48;48;20740;49;51;50;55;19975;49;52] /\
  dec16 3200013270014 = [3;2;0;0;0;1;3;2;7;0;0;1;4].
Proof. vm_compute. repeat split. Qed.

(* the range hypothesis of C15_canonical_value is met at both ends, with every group present *)
Example ex_canon_range : (0 < 1 < 10 ^ 16)%N /\ (0 < 9999999999999999 < 10 ^ 16)%N /\
  parse gen_cfg (kanji_of 9999999999999999) = (true, 0, map digit_char (dec16 9999999999999999)).
Proof. split; [vm_compute; split; reflexivity|]. split; [vm_compute; split; reflexivity|]. vm_compute. reflexivity. Qed.

(* units out of order, as decided by C15_unit_order_behaviour:
   百万3万 (room 2 after 百, one digit): accepted, 1030000 = 1000000 + 30000;
   千万5百万: accepted, 15000000;  1万2万 and 12万3万 (room 0): rejected;  1万2億 (increasing): rejected *)
Example ex_unit_order :
  two_unit_text (kanji_group std_style) arabic_group (0,1,0,0) UMAN (0,0,0,3) UMAN = [30334; 19975; 51; 19975] /\
  two_unit_fits groom (0,1,0,0) 4 (0,0,0,3) 4 = true /\
  parse gen_cfg [30334; 19975; 51; 19975] = (true, 0, [49;48;51;48;48;48;48]) /\
  two_unit_fits groom (1,0,0,0) 4 (0,5,0,0) 4 = true /\
  parse gen_cfg [21315; 19975; 53; 30334; 19975] = (true, 0, [49;53;48;48;48;48;48;48]) /\
  two_unit_fits (fun _ => 0%nat) (0,0,0,1) 4 (0,0,0,2) 4 = false /\ fst (parse gen_cfg [49; 19975; 50; 19975]) = (false, 0) /\
  fst (parse gen_cfg [49; 50; 19975; 51; 19975]) = (false, 0) /\
  two_unit_fits (fun _ => 0%nat) (0,0,0,1) 4 (0,0,0,2) 8 = false /\ fst (parse gen_cfg [49; 19975; 50; 20740]) = (false, 0).
Proof. vm_compute. repeat split. Qed.

(* grouped / fraction writers *)
Example ex_grouped_fraction :
  grouped_text [1;2;3;4;5;6;7] = [49;44;50;51;52;44;53;54;55] /\ fraction_text [3] [1;4;0] = [51;46;49;52;48].
Proof. vm_compute. split; reflexivity. Qed.
