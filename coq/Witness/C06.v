(* C06 — non-vacuity examples, the refutation witness of the recorded finding, and refutation witnesses for the guards of
   the tree as it was pinned. *)
From Coq Require Import List ZArith NArith Bool.
From SudachiVerif Require Import Model.GuardLang Model.Params Model.Build.
Import ListNotations.
Open Scope Z_scope.

Definition row (l r : Z) (sa : list widf) (concat : bool) : rec :=
  mkRec 19 true false (NumLit l) (NumLit r) (NumLit 100) None (Some (match sa with [] => 0 | _ => 2 end)) sa [] [] true concat false 0%N false.

Definition m32 : list cline := [[]; [TNum 3; TNum 2]; [TNum 2; TNum 1; TNum 7]; []; [TNum 0; TNum 0; TNum (-5)]].

(* ---- non-vacuity: a non-square matrix, ids at the boundary, references, a non-indexed row *)
Definition ex_inp : input :=
  mkInput (SystemDic m32) [row 1 2 [] true; row 0 0 [WLit false 0; WLit false 2] true; row (-1) (-1) [] true].

Example ex_builds : exists d, build ex_inp = Ok d /\ d_nl d = 3 /\ d_nr d = 2 /\ d_stores d = [(0, -5); (5, 7)]
                              /\ dict_valid_full d = true.
Proof. eexists. vm_compute. repeat split. Qed.

Example ex_wf : input_wf ex_inp.
Proof. exact I. Qed.

Example ex_boundaries :
  map (fun inp => match build inp with Ok _ => 1 | Err => 0 | Panic => 2 end)
    [ mkInput (SystemDic m32) [row 2 0 [] true];             (* left_id = num_right *)
      mkInput (SystemDic m32) [row 0 3 [] true];             (* right_id = num_left *)
      mkInput (SystemDic m32) [row 0 (-5) [] true];          (* negative right_id, indexed *)
      mkInput (SystemDic m32) [row (-1) (-5) [] true];       (* no indexed entry *)
      mkInput (SystemDic []) [row 0 0 [] true];              (* empty matrix text *)
      mkInput (SystemDic [[TNum 3; TNum 3]; [TNum 3; TNum 0; TNum 1]]) [row 0 0 [] true];    (* coordinate = dimension *)
      mkInput (SystemDic [[TNum 3; TNum 3]; [TNum (-1); TNum 1; TNum 1]]) [row 0 0 [] true]; (* negative coordinate *)
      mkInput (SystemDic [[TNum 3; TNum 3; TNum 3]]) [row 0 0 [] true];                      (* header with three fields *)
      mkInput (SystemDic m32) [row 0 0 [WLit false 1] true];                                 (* dangling reference *)
      mkInput (SystemDic m32) [row 0 0 [WLit true 0] true];                                  (* user reference in a system dictionary *)
      mkInput (UserDic 4 3 6) [row 2 3 [WLit false 5; WLit true 0] true];
      mkInput (UserDic 4 3 6) [row 3 2 [] true];
      mkInput (UserDic 4 3 6) [row 0 0 [WLit false 6] true] ]
  = [0; 0; 0; 0; 0; 0; 0; 0; 0; 0; 1; 0; 0].
Proof. vm_compute. reflexivity. Qed.

Example ex_sink : map (fun k => match build_sink ex_inp 700 k with Ok _ => 1 | Err => 0 | Panic => 2 end) [0; 1; 699; 700; 701]
                  = [0; 0; 0; 1; 1].
Proof. vm_compute. reflexivity. Qed.

(* ---- recorded finding: split units that do not spell the headword compile *)
Example success_means_valid_full_refuted :
  exists inp d, input_wf inp /\ build inp = Ok d /\ dict_valid_full d = false.
Proof.
  exists (mkInput (SystemDic m32) [row 0 0 [WLit false 1; WLit false 2] false; row 0 0 [] true; row 0 0 [] true]).
  eexists. split; [exact I|]. vm_compute. split; reflexivity.
Qed.

(* ---- the pinned tree: its guards, written out *)
Definition pinned_bfacts : bfacts :=
  mkBFacts [mkG CastNone CGe (ODim NumLeft)] [] [mkG CastNone CGe (ODim NumRight)] []
           (mkG CastNone CGe (OConst 0)) CGe (mkG CastNone CGt (OConst 127)) 268435455
           true false false [mkG CastNone CLt (OConst 0)] [mkG CastNone CLt (OConst 0)] 2 3 [] []
           (IAdd (IMul IRight INumLeft) ILeft) (IAdd (IMul IRight INumLeft) ILeft) KRightId KLeftId
           (mkG CastNone CGt (OConst 127)) true false.

Example pinned_guards_fail_obligation : bfacts_ok pinned_bfacts = false.
Proof. vm_compute. reflexivity. Qed.

(* defect 3: empty matrix text reaches todo!() *)
Example compile_never_panics_refuted_pinned_empty : build_with pinned_bfacts (mkInput (SystemDic []) [row 0 0 [] true]) = Panic.
Proof. vm_compute. reflexivity. Qed.

(* defect 4: coordinate >= dimension: index panic, or another cell silently *)
Example compile_never_panics_refuted_pinned_coord :
  build_with pinned_bfacts (mkInput (SystemDic [[TNum 3; TNum 3]; [TNum 0; TNum 3; TNum 1]]) [row 0 0 [] true]) = Panic
  /\ build_with pinned_bfacts (mkInput (SystemDic [[TNum 3; TNum 3]; [TNum (-1); TNum 0; TNum 1]]) [row 0 0 [] true]) = Panic.
Proof. split; vm_compute; reflexivity. Qed.

Example matrix_line_wrong_cell_pinned :
  exists d, build_with pinned_bfacts (mkInput (SystemDic [[TNum 3; TNum 3]; [TNum 3; TNum 0; TNum 1]]) [row 0 0 [] true]) = Ok d
            /\ d_stores d = [(3, 1)] (* = cell (0, 1), not the named (3, 0) *).
Proof. eexists. vm_compute. split; reflexivity. Qed.

(* defect 5: negative right_id on an indexed entry *)
Example success_means_valid_refuted_pinned_negative_right :
  exists d, build_with pinned_bfacts (mkInput (SystemDic m32) [row 0 (-5) [] true]) = Ok d /\ dict_valid d = false.
Proof. eexists. vm_compute. split; reflexivity. Qed.

(* defect 6: 3x2 matrix, left_id = 2, right_id = 1 passes the pinned validation *)
Example success_means_valid_refuted_pinned_nonsquare :
  exists d, build_with pinned_bfacts (mkInput (SystemDic m32) [row 2 1 [] true]) = Ok d /\ dict_valid d = false.
Proof. eexists. vm_compute. split; reflexivity. Qed.

(* a surface containing U+0000 reaches an assertion of the trie builder *)
Example compile_never_panics_refuted_pinned_nul_surface :
  build_with pinned_bfacts (mkInput (SystemDic m32)
    [mkRec 19 true false (NumLit 0) (NumLit 0) (NumLit 1) None (Some 0) [] [] [] true true true 0%N true]) = Panic.
Proof. vm_compute. reflexivity. Qed.

(* a NUL check that looks at the CSV text of the surface instead of its decoded value (nul_surface_is_error = false,
   raw_nul_surface_is_error = true): a raw NUL byte is still an error value, an escaped one (\u0000, \u{0}) in an indexed
   row reaches the assertion of the trie builder; in a row that is not indexed it goes unnoticed *)
Definition raw_nul_check_bfacts : bfacts :=
  mkBFacts (b_left_g gen_bfacts) (b_left_gi gen_bfacts) (b_right_g gen_bfacts) (b_right_gi gen_bfacts) (b_indexed gen_bfacts)
           (b_wid_cmp gen_bfacts) (b_list_len gen_bfacts) (b_word_mask gen_bfacts) (b_empty_panics gen_bfacts) false
           (b_empty_trie_err gen_bfacts) (b_hdr_left_g gen_bfacts) (b_hdr_right_g gen_bfacts) (b_hdr_fields gen_bfacts)
           (b_line_fields gen_bfacts) (b_elem_left_g gen_bfacts) (b_elem_right_g gen_bfacts) (b_elem_index gen_bfacts)
           (b_matrix_index gen_bfacts) (b_arg_left gen_bfacts) (b_arg_right gen_bfacts) (b_index_len gen_bfacts)
           (b_index_checked gen_bfacts) true.
Definition nulrow (l : Z) (raw : bool) : rec :=
  mkRec 19 true false (NumLit l) (NumLit 0) (NumLit 1) None (Some 0) [] [] [] true true true 7%N raw.

Example compile_never_panics_refuted_raw_nul_check :
  map (fun rs => match build_with raw_nul_check_bfacts (mkInput (SystemDic m32) rs) with Ok _ => 1 | Err => 0 | Panic => 2 end)
      [[nulrow 0 false]; [nulrow 0 true]; [row 0 0 [] true; nulrow (-1) false]]
  = [2; 0; 1]
  /\ map (fun rs => match build (mkInput (SystemDic m32) rs) with Ok _ => 1 | Err => 0 | Panic => 2 end)
      [[nulrow 0 false]; [nulrow 0 true]; [row 0 0 [] true; nulrow (-1) false]]
  = [0; 0; 0].
Proof. split; vm_compute; reflexivity. Qed.

(* a lexicon without indexed entries reaches the assertion of the trie builder *)
Example compile_never_panics_refuted_pinned_no_indexed :
  build_with pinned_bfacts (mkInput (SystemDic m32) [row (-1) (-1) [] true]) = Panic.
Proof. vm_compute. reflexivity. Qed.

(* ---- the arrays of the word-id table: homographs (rows with one surface) ---- *)
Definition hrow (l : Z) (s : N) : rec := mkRec 19 true false (NumLit l) (NumLit 0) (NumLit 100) None (Some 0) [] [] [] true true false s false.
Definition m11 : list cline := [[TNum 1; TNum 1]].

(* 127 indexed rows of one surface compile (with further rows of that surface that are not indexed, and rows of another
   surface); the 128th is an error; rows that are not indexed do not count *)
Example ex_homographs :
  map (fun rs => match build (mkInput (SystemDic m11) rs) with Ok d => if index_lists_ok d then 1 else 3 | Err => 0 | Panic => 2 end)
    [ repeat (hrow 0 5) 127; repeat (hrow 0 5) 128; repeat (hrow 0 5) 127 ++ repeat (hrow (-1) 5) 40 ++ repeat (hrow 0 6) 127;
      repeat (hrow 0 5) 100 ++ [hrow 0 6] ++ repeat (hrow 0 5) 28; repeat (hrow 0 5) 256; repeat (hrow 0 5) 300 ]
  = [1; 0; 1; 0; 0; 0].
Proof. vm_compute. reflexivity. Qed.

(* an IndexBuilder that writes the id lists by hand (fact word_id_table_through_write_u32_array = false): success with an
   array beyond the limit *)
Definition unchecked_index_bfacts : bfacts :=
  mkBFacts (b_left_g gen_bfacts) (b_left_gi gen_bfacts) (b_right_g gen_bfacts) (b_right_gi gen_bfacts) (b_indexed gen_bfacts)
           (b_wid_cmp gen_bfacts) (b_list_len gen_bfacts) (b_word_mask gen_bfacts) (b_empty_panics gen_bfacts) (b_nul_err gen_bfacts)
           (b_empty_trie_err gen_bfacts) (b_hdr_left_g gen_bfacts) (b_hdr_right_g gen_bfacts) (b_hdr_fields gen_bfacts)
           (b_line_fields gen_bfacts) (b_elem_left_g gen_bfacts) (b_elem_right_g gen_bfacts) (b_elem_index gen_bfacts)
           (b_matrix_index gen_bfacts) (b_arg_left gen_bfacts) (b_arg_right gen_bfacts) (b_index_len gen_bfacts) false (b_nul_raw_err gen_bfacts).

Example index_arrays_within_limit_refuted_unchecked :
  exists d, build_with unchecked_index_bfacts (mkInput (SystemDic m11) (repeat (hrow 0 5) 128)) = Ok d /\ index_lists_ok d = false.
Proof. eexists. vm_compute. split; reflexivity. Qed.

(* ---- repeated compile calls on one builder ---- *)

Definition code (r : res (dict * bool)) : Z := match r with Ok (_, c) => if c then 1 else 3 | Err => 0 | Panic => 2 end.

(* non-vacuity: a failed call, then two successful ones on the same builder give the same complete dictionary *)
Example ex_session :
  map code
      (session (fresh_builder ex_inp) 700 300 [450; 700; 10; 700]) = [0; 1; 0; 1].
Proof. vm_compute. reflexivity. Qed.

(* a write_to that moves the matrix out of the buffer (keeps_matrix = false): once a call got as far as the matrix (it
   succeeded, or its sink failed at or behind byte `moff`), the next call reports success without the matrix bytes *)
Example compile_idempotent_refuted_taking_write_to :
  map code
      (run_session gen_bfacts false (fresh_builder ex_inp) 700 300 [700; 700]) = [1; 3]
  /\ map code
      (run_session gen_bfacts false (fresh_builder ex_inp) 700 300 [299; 700]) = [0; 1]
  /\ map code
      (run_session gen_bfacts false (fresh_builder ex_inp) 700 300 [300; 700]) = [0; 3].
Proof. vm_compute. repeat split. Qed.

(* ---- header ---- *)
From SudachiVerif Require Import Model.BuildHistory.

Definition kanji (n : nat) : list N := repeat 36766%N n.    (* U+8F9E, three UTF-8 bytes *)

(* 85 kanji = 255 bytes fit, 86 kanji = 258 bytes (86 characters!) do not; 256 ASCII bytes fit, 257 do not *)
Example ex_header_boundaries :
  map (fun d => match header 7 9 d with Ok bs => Z.of_nat (List.length bs) | Err => -1 | Panic => -2 end)
      [[]; kanji 85; kanji 86; repeat 100%N 256; repeat 100%N 257; kanji 85 ++ [100%N]; kanji 85 ++ [233%N]]
  = [272; 272; -1; 272; -1; 272; -1].
Proof. vm_compute. reflexivity. Qed.

Example ex_header_roundtrip :
  match header (header_version false) 1700000000 (kanji 3 ++ [97; 98]%N) with
  | Ok bs => header_parse gen_hfacts (bs ++ [1; 2; 3]%N) | _ => None end
  = Some (header_version false, 1700000000%N, utf8 (kanji 3 ++ [97; 98]%N)).
Proof. vm_compute. reflexivity. Qed.

(* a guard that counts characters with a clamped padding: success with a shifted layout (258 + 16 bytes instead of 272) *)
Example header_layout_refuted_char_count :
  header_write (mkHFacts false (mkG CastNone CGt (OConst 256)) 256 272 false) 7 9 (kanji 86)
  = Ok (le_bytes 8 7 ++ le_bytes 8 9 ++ utf8 (kanji 86)).
Proof. vm_compute. reflexivity. Qed.

(* ---- call histories ---- *)
Definition m22 : list cline := [[TNum 2; TNum 2]; [TNum 0; TNum 0; TNum 1]].
Definition m55 : list cline := [[TNum 5; TNum 5]; [TNum 4; TNum 4; TNum 3]].
Definition codeh (r : res (option dict)) : Z :=
  match r with Ok None => 0 | Ok (Some d) => if dict_valid d then 1 else 3 | Err => -1 | Panic => -2 end.

(* non-vacuity: rows after resolve, a smaller matrix after a success, a matrix failing at a line, repeated compiles *)
Example ex_history :
  map codeh (history init_system
    [OConn SBytes m55; OLex SBytes [row 4 4 [] true]; OResolve; OCompile; OLex SBytes [row 0 0 [] true]; OCompile;
     OConn SBytes m22; OCompile; OConn SBytes (m55 ++ [[TBad]]); OCompile; OConn SBytes [[TNum 1; TBad]]; OCompile])
  = [0; 0; 0; 1; 0; 1; 0; -1; -1; 1; -1; 1].
Proof. vm_compute. reflexivity. Qed.

(* a read_conn that leaves the old limits behind when it fails half-way (limits_follow_on_error = false): the following
   compile validates against the 5x5 matrix and writes the 2x2 one *)
Example history_success_means_valid_refuted_stale_limits :
  map codeh (run_history gen_bfacts false true false false init_system
    [OConn SBytes m55; OLex SBytes [row 4 4 [] true]; OConn SBytes (m22 ++ [[TBad]]); OCompile]) = [0; 0; -1; 3].
Proof. vm_compute. reflexivity. Qed.

(* a user-dictionary builder whose limits follow a matrix read into it (user_limits_fixed = false) *)
Example history_success_means_valid_refuted_user_matrix :
  map codeh (run_history gen_bfacts true false false false (init_user 4 3 6)
    [OConn SBytes [[TNum 10; TNum 10]]; OLex SBytes [row 9 9 [] true]; OCompile]) = [0; 0; 3].
Proof. vm_compute. reflexivity. Qed.

(* rows of several read_lexicon calls count together *)
Example ex_history_homographs :
  map (fun r => match r with Ok None => 0 | Ok (Some d) => if index_lists_ok d then 1 else 3 | Err => -1 | Panic => -2 end)
    (history init_system [OConn SBytes m11; OLex SBytes (repeat (hrow 0 5) 64); OLex SBytes (repeat (hrow 0 5) 63); OCompile; OLex SBytes [hrow 0 5]; OCompile])
  = [0; 0; 0; 1; 0; -1].
Proof. vm_compute. reflexivity. Qed.

(* an arm of read_conn that returns on its own when reading a FILE failed (conn_file_route_returns_early = true): the matrix
   read from a file fails at a line after its 2x2 header was taken, the limits stay those of the 5x5 matrix and compile
   writes ids outside the 2x2 matrix; the same calls with bytes in memory end in an error value *)
Example history_source_irrelevant_refuted_early_return :
  map codeh (run_history gen_bfacts true true true false init_system
    [OConn SBytes m55; OLex SBytes [row 4 4 [] true]; OConn SFile (m22 ++ [[TBad]]); OCompile]) = [0; 0; -1; 3]
  /\ map codeh (run_history gen_bfacts true true true false init_system
    [OConn SBytes m55; OLex SBytes [row 4 4 [] true]; OConn SBytes (m22 ++ [[TBad]]); OCompile]) = [0; 0; -1; -1].
Proof. split; vm_compute; reflexivity. Qed.
