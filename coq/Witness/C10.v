(* C10 non-vacuity and the witness of the repaired defect. *)
From Coq Require Import List NArith Bool String.
From SudachiVerif Require Import Model.Harness Model.TokState.
From SudachiVerif Require Model.Split.
Import ListNotations.
Open Scope N_scope.

Definition nd := Model.Split.mkNode.
(* "ab" (word 0 = a+b), "a!" (the harness's path rewrite plugin fails on '!'), "Ａb" normalised to "ab", the empty text,
   and a text which cannot be connected *)
Definition ex_tbl : list trow :=
  [ mkRow [97; 98] None false false [nd 0 2 0 2 0] (Some [nd 0 1 0 1 1; nd 1 2 1 2 2]) (Some [nd 0 2 0 2 0]);
    mkRow [97; 33] None false true [nd 0 1 0 1 1; nd 1 2 1 2 4026531840] (Some [nd 0 1 0 1 1; nd 1 2 1 2 4026531840]) (Some [nd 0 1 0 1 1; nd 1 2 1 2 4026531840]);
    mkRow [65313; 98] (Some ([97; 98], [0; 3; 4])) false false [nd 0 2 0 2 0] (Some [nd 0 1 0 1 1; nd 1 2 1 2 2]) (Some [nd 0 2 0 2 0]);
    mkRow [] None false false [] (Some []) (Some []);
    mkRow [120] None true false [] None None ].
Definition ex_E := env_of ex_tbl.

Definition ex_ops : list op :=
  [ OAnalyse [97; 98]; ONewList; OCollect 0;             (* plain analysis, collected *)
    OSetMode MA; OAnalyse [65313; 98]; OCollect 0;        (* mode change, normalised text, same list reused *)
    OAnalyse [120];                                       (* disconnected lattice: Err *)
    OAnalyse [97; 33];                                    (* late failure: Err after the result vector was taken *)
    OLookup 0 [97] 1023; OSetSubset 4;
    OAnalyse []; OCollect 0;                              (* empty text right after the late failure *)
    OAnalyse [97; 98]; OCollect 0 ].

Example ex_trace :
  run_trace F0 ex_E ex_ops (mkSys (create MC) []) =
  [ (0, 0, []); (1, 0, [(0, 2, 0)]);
    (0, 0, []); (1, 0, [(0, 1, 1); (1, 2, 2)]);
    (0, 1, []); (0, 1, []);
    (0, 0, []); (1, 0, []);
    (0, 0, []); (1, 0, [(0, 1, 1); (1, 2, 2)]) ].
Proof. vm_compute. reflexivity. Qed.

(* the theorem's two sides are a non-trivial value on this history *)
Example ex_probe_history :
  let y := run_ops F0 ex_E ex_ops (mkSys (create MC) []) in
  fst (probe F0 ex_E [65313; 98] (tk y)) = ROk /\
  option_map (fun o => nodes3 (snd (fst o))) (snd (probe F0 ex_E [65313; 98] (tk y))) = Some [(0, 1, 1); (1, 2, 2)] /\
  probe F0 ex_E [65313; 98] (tk y) = probe F0 ex_E [65313; 98] (fresh (mode (tk y)) (subset (tk y))).
Proof. vm_compute. repeat split; reflexivity. Qed.

(* the defect repaired by the `fix:` commit (KNOWN_FINDINGS.txt): with the old reset (`top_path.as_mut().map(|p| p.clear())`,
   fact value "clear_if_some") the faithful model is NOT history independent: after a late failure the empty text
   analyses Ok but nothing can be collected, while a fresh tokenizer yields an empty result *)
Definition F_before_fix : facts :=
  mkF (f_tok_reset Fexp) "clear_if_some" (f_ib_reset Fexp) (f_commit Fexp) (f_build Fexp) (f_fill Fexp) (f_rollback Fexp)
      (f_lat_rows Fexp) (f_lat_scalars Fexp) (f_sb_guard Fexp) (f_commit_guard Fexp) (f_steps Fexp) true.

Example pre_fix_history_dependent_refuted :
  let y := run_ops F_before_fix ex_E [OAnalyse [97; 33]] (mkSys (create MC) []) in
  probe F_before_fix ex_E [] (tk y) = (ROk, None) /\
  snd (probe F_before_fix ex_E [] (fresh (mode (tk y)) (subset (tk y)))) <> None /\
  facts_ok F_before_fix = false.
Proof. vm_compute. repeat split; discriminate. Qed.
