(* Non-vacuity for C02: a concrete lattice with overlapping candidates, homographs and negative costs. *)
From Coq Require Import List ZArith NArith Lia.
From SudachiVerif Require Import Model.Lattice Model.LatticeM Model.LatticeCheck.
Import ListNotations.
Open Scope Z_scope.

Definition ex_conn (l r : N) : Z := conn_canon 2 [3; -7; 100; 0] l r.
Definition ex_ns : list node :=
  [ mkNode 0 1 0 1 10; mkNode 0 1 1 0 (-5); mkNode 0 3 0 0 40; mkNode 1 2 1 1 7; mkNode 1 3 0 1 2; mkNode 2 3 0 0 1 ].

Example ex_nodes_ok : nodes_ok 3 ex_ns.
Proof.
  split; [cbn; repeat split; lia|].
  intros n H. cbn in H. repeat (destruct H as [<-|H]; [cbn; lia|]). contradiction.
Qed.

Example ex_eos : connect_eos ex_conn (insert_all ex_conn (reset 3) ex_ns) = Some (3%nat, 1%nat, 1).
Proof. vm_compute. reflexivity. Qed.

Example ex_path :
  option_map (map etotal) (top_path ex_conn (insert_all ex_conn (reset 3) ex_ns)) = Some [Some 13; Some 8].
Proof. vm_compute. reflexivity. Qed.

(* the machine-level lattice agrees on it in both overflow modes *)
Example ex_machine :
  forall chk, match minsert_all chk ex_conn (mreset 3) ex_ns with
              | Ok (L, _) => mconnect_eos chk ex_conn L = Ok (Some (3%nat, 1%nat, 1))
              | Panic => False end.
Proof. intros [|]; vm_compute; reflexivity. Qed.

(* a not coverable text is reported as disconnected *)
Example ex_gap : connect_eos ex_conn (insert_all ex_conn (reset 3) [mkNode 0 1 0 0 1; mkNode 2 3 0 0 1]) = None.
Proof. vm_compute. reflexivity. Qed.

(* the full-strength statement "the machine lattice equals the exact one for every input within the documented limits" is
   refuted (known finding i32_cost_overflow): see Proofs/LatticeOverflow.v *)
From SudachiVerif Require Proofs.LatticeOverflow.
Definition C02_i32_exact_full : Prop :=
  forall chk conn (es : list mentry) i lft cst, exists r, mscan chk conn es i lft cst None MAX32 = Ok r.
Example C02_i32_exact_full_refuted : ~ C02_i32_exact_full.
Proof.
  intros H. destruct (H true Proofs.LatticeOverflow.cconn Proofs.LatticeOverflow.row_over 0%nat 0%N Proofs.LatticeOverflow.CMAX) as [r Hr].
  destruct Proofs.LatticeOverflow.i32_overflow_refuted as [Hp _]. rewrite Hp in Hr. discriminate.
Qed.
Check Proofs.LatticeOverflow.reachable_prefix.
