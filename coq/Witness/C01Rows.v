(* Non-vacuity of C01_tokenizer_end_to_end_from_rows and C01_tokenizer_end_to_end_machine: the dictionary of
   Witness/C01EndToEnd.v (1 / 東京 / 都 / 東京都 = 東京 + 都; trie and word-id table are the real builder's bytes) now WITH ITS
   SOURCE ROWS, compiled by the codec model's writer (C05) and read back by its reader: the tokenizer's head-word lengths and
   A/B unit lists are the loaded ones (ld_hw / ld_units of the compiled file), the lexicon carries the C04 certificate
   against index_rows_of the source rows, the 10x10 connection matrix is given as the table of ConnectionMatrix.
   Every hypothesis of both theorems is proved for this instance and the conclusions are obtained from them. *)
From Coq Require Import String List NArith ZArith Bool Arith Lia.
From SudachiVerif Require Import Model.Buffer Model.Lattice Model.LexSet Model.Tokenizer Proofs.BuildOptimal.
From SudachiVerif Require Import Proofs.EndToEnd Proofs.EndToEndRows Properties.C01 Witness.C01EndToEnd.
From SudachiVerif Require Proofs.NormalizeBuffer Proofs.PipelineFull Proofs.LookupLattice Proofs.OovWf Model.Oov Model.Split.
From SudachiVerif Require Import Model.Codec Proofs.CodecProofs Proofs.CodecLexProofs Model.CodecResolve Model.SplitSource Proofs.SplitDict.
From SudachiVerif Require Model.CodecCheck Model.LatticeM Model.LatticeP Proofs.LatticePProofs.
Import ListNotations.
Local Open Scope nat_scope.

(* the source: key, headword, reading, POS, A units, B units *)
Definition r_rows : list rrow :=
  [ SplitSource.row [49]%N [49]%N [12452]%N 0 [] [];
    SplitSource.row [26481; 20140]%N [26481; 20140]%N [12488]%N 0 [] [];
    SplitSource.row [37117]%N [37117]%N [12488]%N 0 [] [];
    SplitSource.row [26481; 20140; 37117]%N [26481; 20140; 37117]%N [12488]%N 0 [uref 1; uref 2] [uref 1; uref 2] ].
Definition r_ds : srcs := [r_rows].
Definition r_es : list entry := match resolve_rows false r_rows [] with Some es => es | None => [] end.
Definition r_prefix : bytes := [7; 7; 7]%N.
Definition r_sec : bytes := match write_words_section 3 r_es with Some s => s | None => [] end.
Definition r_cs : list compiled := [mkComp (r_prefix ++ r_sec) 3].
Definition r_po : N -> N := fun _ => 1%N.

(* the tokenizer of Witness/C01EndToEnd.v with the LOADED split tables *)
Definition r_tk : tokenizer :=
  Tokenizer.mkTok (tk_plugins e_tk) (tk_cat e_tk) (tk_lexs e_tk) (tk_params e_tk) (tk_winfo e_tk) (tk_provs e_tk) (tk_conn e_tk)
        (tk_rewrite e_tk) Sp.ModeA (ld_hw r_cs 1 r_po) (ld_units r_cs 1 r_po true) (ld_units r_cs 1 r_po false).

Example r_loaded : map (ld_hw r_cs 1 r_po) [0; 1; 2; 3]%N = [1; 6; 3; 9]%N /\ ld_units r_cs 1 r_po true 3 = [1; 2]%N.
Proof. vm_compute. split; reflexivity. Qed.

Example r_computes :
  tokenize_model the_cfg r_tk e_t0
  = Ok [mkMo 0 12 0 4 (PipelineFull.enc [12450; 12452; 12540; 12540]%N) WID_INVALID;
        mkMo 12 18 4 6 (PipelineFull.enc [26481; 20140]%N) 1%N; mkMo 18 21 6 7 (PipelineFull.enc [37117]%N) 2%N].
Proof. vm_compute. reflexivity. Qed.

(* ---- hypotheses ---- *)
Example r_spec : e_t = NormalizeBuffer.stack_spec (tk_plugins r_tk) e_t0.
Proof. vm_compute. reflexivity. Qed.
Example r_h2 : Forall NormalizeBuffer.plugin_wf (tk_plugins r_tk).
Proof. repeat constructor. Qed.
Example r_h3 : NormalizeBuffer.stack_nonempty (tk_plugins r_tk) e_t0.
Proof. exact e_h3. Qed.
Example r_h4 : NormalizeBuffer.stack_fits the_cfg (tk_plugins r_tk) e_t0.
Proof. exact e_h4. Qed.

Example r_h6 : Forall2 (fun L rows => exists fuel, cert_lex L (CodecCheck.index_rows_of rows) fuel = true) (tk_lexs r_tk) r_ds.
Proof. cbn [tk_lexs r_tk e_tk mk_tokenizer map r_ds]. constructor; [|constructor]. exists 10. vm_compute. reflexivity. Qed.
Example r_h6s : Forall (Forall (fun r => Forall scalar (r_surface r))) r_ds.
Proof. repeat (constructor; try reflexivity). Qed.

Example r_h7a : forall q, In q (tk_provs r_tk) -> OovWf.provider_oracle_ok q (length e_t).
Proof. intros q Hq. cbn in Hq. destruct Hq as [<-|[]]. exact I. Qed.
Example r_h7b : Oov.fallback_of (tk_provs r_tk) = Some (Oov.PSimple (Oov.mkOov 8 8 6000 1%N)).
Proof. vm_compute. reflexivity. Qed.
Example r_h7c : forall p, p < length e_t ->
  exists st, Oov.normal_pass (Oov.mk_ctx (classes r_tk e_t)) (tk_provs r_tk) p (dict_onodes the_cfg r_tk e_t p) = Oov.ROk st.
Proof. intros p Hp. do 6 (destruct p as [|p]; [eexists; vm_compute; reflexivity|]). cbn in Hp. lia. Qed.

Lemma r_wf : lexicon_wf r_es.
Proof.
  intros e H. vm_compute in H.
  repeat (destruct H as [<-|H]; [vm_compute; repeat split; try reflexivity; discriminate|]). contradiction.
Qed.

Example r_stack_compiled : stack_compiled r_ds r_cs.
Proof.
  exists r_rows, [], (mkComp (r_prefix ++ r_sec) 3), [], r_es.
  split; [reflexivity|]. split; [reflexivity|]. split; [|constructor].
  exists r_prefix, r_sec. split; [vm_compute; reflexivity|]. split; [vm_compute; reflexivity|].
  split; [apply N.ltb_lt; vm_compute; reflexivity|]. split; [exact r_wf|]. split; reflexivity.
Qed.

Example r_srcs_ok : srcs_ok r_ds.
Proof.
  unfold srcs_ok, r_ds. repeat (apply Forall_cons || apply Forall_nil); (split; [|vm_compute; discriminate]);
    repeat (apply Forall_cons || apply Forall_nil); vm_compute; reflexivity.
Qed.

(* the words of the source are 0..3 *)
Lemma r_words : forall w rr, src_row r_ds w = Some rr -> (w = 0 \/ w = 1 \/ w = 2 \/ w = 3)%N.
Proof.
  intros w rr H. unfold src_row, rows_of in H.
  assert (Hw : w = (DIC * dic_part w + word_part w)%N) by (unfold dic_part, word_part; apply N.div_mod'; discriminate).
  destruct (N.eq_dec (dic_part w) 0) as [E|E].
  - rewrite E in H, Hw. change (nth (N.to_nat 0) r_ds []) with r_rows in H.
    destruct (N.ltb_spec (word_part w) (N.of_nat (length r_rows))) as [Hlt|]; [|discriminate].
    change (N.of_nat (length r_rows)) with 4%N in Hlt. lia.
  - replace (nth (N.to_nat (dic_part w)) r_ds []) with (@nil rrow) in H.
    + cbn in H. destruct (word_part w); discriminate.
    + unfold r_ds. destruct (N.to_nat (dic_part w)) as [|[|k]] eqn:Ek; [lia | reflexivity | reflexivity].
Qed.

Example r_h8 : forall w rr, src_row r_ds w = Some rr ->
  2 <= length (ld_units r_cs 1 r_po true w) -> rows_units_ok r_ds true w = true.
Proof.
  intros w rr H Hl. destruct (r_words w rr H) as [-> | [-> | [-> | ->]]]; try (vm_compute in Hl; lia). vm_compute. reflexivity.
Qed.

(* ---- the theorems apply ---- *)
Example r_from_rows_applies :
  exists ms, tokenize_model the_cfg r_tk e_t0 = Ok ms /\
    partition_b (PipelineFull.enc e_t0) (map (fun m => (mo_begin m, mo_end m)) ms) = true /\
    concat (map mo_surface ms) = PipelineFull.enc e_t0.
Proof.
  destruct (C01_tokenizer_end_to_end_from_rows r_tk e_t0 (Oov.mkOov 8 8 6000 1%N) e_t r_ds r_cs 1%N r_po
              r_spec e_h1 r_h2 r_h3 r_h4 e_h5 r_h6 r_h6s r_h7a r_h7b r_h7c r_stack_compiled r_srcs_ok
              ltac:(cbn; lia) eq_refl eq_refl eq_refl r_h8) as (ms & Hms & _ & H).
  destruct (H ltac:(discriminate)) as (A & B & _). exists ms. auto.
Qed.

(* ---- the machine side: the matrix as the table of ConnectionMatrix (the index formula is read from the source) ---- *)
Definition r_pairs : list (N * N) := flat_map (fun l => map (fun r => (N.of_nat l, N.of_nat r)) (seq 0 10)) (seq 0 10).
Definition r_data : list Z :=
  map (fun i => match find (fun lr => (Generated.ConnFacts.conn_index (fst lr) (snd lr) 10 10 =? N.of_nat i)%N) r_pairs with
                | Some (l, r) => tk_conn r_tk l r
                | None => 0%Z
                end) (seq 0 100).

Example r_matrix_is_conn :
  forallb (fun lr => match LatticeP.pconn true 10 10 r_data (fst lr) (snd lr) with
                     | LatticeP.POk c => (c =? tk_conn r_tk (fst lr) (snd lr))%Z
                     | _ => false
                     end) r_pairs = true.
Proof. vm_compute. reflexivity. Qed.

Lemma nth_forall {A} (P : A -> Prop) (d : A) : forall l i, Forall P l -> P d -> P (nth i l d).
Proof. induction l as [|x l IH]; intros [|i] H Hd; cbn; try assumption; inversion H; subst; auto. Qed.

Example r_b2 : forall l r, (- 32768 <= tk_conn r_tk l r <= 32768)%Z.
Proof.
  intros l r. cbn [tk_conn r_tk e_tk mk_tokenizer].
  apply (nth_forall (fun c => (-32768 <= c <= 32768)%Z)); [|lia].
  apply (nth_forall (fun row => Forall (fun c => (-32768 <= c <= 32768)%Z) row)); [|constructor].
  repeat (constructor; [repeat (constructor; [lia|]); constructor|]). constructor.
Qed.

Example r_offered_range : forall p m, In m (offered_at the_cfg r_tk e_t p) -> p < 6.
Proof.
  intros p m H.
  destruct C01_e2e_facts as (_ & _ & _ & Ffw & Ffx & _).
  assert (Hwf := offered_wf Ffw Ffx the_cfg C01_facts_ok r_tk e_t e_h5
                   (keys_of_certificates _ (certified_of_rows _ _ r_h6 r_h6s)) r_h7a p m).
  rewrite OovLattice.offered_no_fallback in Hwf. destruct (Hwf H) as (_ & H1 & H2). change (length e_t) with 6 in H2. lia.
Qed.

Example r_b3 : forall p m, In m (offered_at the_cfg r_tk e_t p) ->
  (- 32768 <= ncost m <= 32768)%Z /\ LatticeP.ids_ok 10 10 m = true.
Proof.
  intros p m H. pose proof (r_offered_range p m H) as Hp.
  do 6 (destruct p as [|p]; [vm_compute in H; repeat (destruct H as [<-|H]; [split; [vm_compute; split; discriminate | vm_compute; reflexivity]|]); contradiction|]).
  lia.
Qed.

Lemma r_filter_le {A} (f : A -> bool) : forall l, length (filter f l) <= length l.
Proof. induction l as [|x l IH]; cbn; [lia|]. destruct (f x); cbn; lia. Qed.

Example r_b5 : forall e, (N.of_nat (LatticeP.count_end e (flat_map (offered_at the_cfg r_tk e_t) (seq 0 (length e_t)))) <= 65535)%N.
Proof.
  intros e. unfold LatticeP.count_end.
  pose proof (r_filter_le (fun n => Nat.eqb (nend n) e) (flat_map (offered_at the_cfg r_tk e_t) (seq 0 (length e_t)))) as H.
  assert (Hl : length (flat_map (offered_at the_cfg r_tk e_t) (seq 0 (length e_t))) <= 100) by (vm_compute; repeat constructor).
  lia.
Qed.

Example r_machine_applies :
  exists a ins,
    pre_split the_cfg r_tk e_t = Ok a /\
    pr_lattice a = insert_all (tk_conn r_tk) (reset 6) ins /\
    (forall checked, exists costs,
       LatticeM.minsert_all checked (tk_conn r_tk) (LatticeM.mreset 6) ins = LatticeM.Ok (LatticeM.embL (pr_lattice a), costs) /\
       LatticeM.mconnect_eos checked (tk_conn r_tk) (LatticeM.embL (pr_lattice a)) = LatticeM.Ok (Some (pr_eos a))) /\
    (forall dbg ovf L0, LatticePProofs.no_index_panic (LatticeP.prounds dbg ovf 10 10 r_data L0 [(6, ins)])).
Proof.
  destruct (C01_tokenizer_end_to_end_machine r_tk e_t0 (Oov.mkOov 8 8 6000 1%N) e_t r_ds r_cs 1%N r_po
              r_spec e_h1 r_h2 r_h3 r_h4 e_h5 r_h6 r_h6s r_h7a r_h7b r_h7c r_stack_compiled r_srcs_ok
              ltac:(cbn; lia) eq_refl eq_refl eq_refl r_h8
              10%N 10%N r_data ltac:(vm_compute; discriminate) r_b2 r_b3 ltac:(vm_compute; reflexivity) r_b5) as [_ H].
  destruct (H ltac:(discriminate)) as (a & ins & Ha & HL & _ & _ & Hm & Hp). exists a, ins. auto.
Qed.
