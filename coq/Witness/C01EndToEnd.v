(* Non-vacuity of C01_tokenizer_end_to_end: a concrete dictionary (4 rows: 1 / 東京 / 都 / 東京都 = 東京 + 都, compiled by the
   real builder: trie and word-id table below are its bytes), the Simple OOV provider, the prolonged-sound-mark plugin,
   JoinKatakanaOov and mode A, on the text "アイーー東京都".  Every stage does something: the plugin collapses ーー (the offset
   map is not the identity), ア / イ / ー are OOV nodes merged by the path-rewrite plugin, 東京都 is split into its declared units.
   `tokenize_model` is computed, every hypothesis of the theorem is proved for this instance, and the theorem's conclusion
   is obtained from it. *)
From Coq Require Import String List NArith ZArith Bool Arith Lia.
From SudachiVerif Require Import Model.Buffer Model.Lattice Model.LexSet Model.Tokenizer Proofs.BuildOptimal.
From SudachiVerif Require Import Proofs.EndToEnd Properties.C01.
From SudachiVerif Require Proofs.NormalizeBuffer Proofs.PipelineFull Proofs.LookupLattice Proofs.OovWf Model.Oov Model.Split
     Proofs.SplitProofs Model.Trie.
Import ListNotations.
Local Open Scope nat_scope.

Definition e_tk : tokenizer := mk_tokenizer [PD_psm [12540%N; 45%N; 8275%N; 12316%N; 12336%N] [12540%N]] [(12450%N, 128%N); (12452%N, 128%N); (12540%N, 128%N); (20140%N, 4%N); (26481%N, 4%N); (37117%N, 4%N)] [("00c00000310dz0005809dd80200b1940300e4e40200bab40200ac3d00000500008083f80200bd0500000f00008083f00200bd0d00000a000080z031ce62001z0009e95801z001de9ac01z0079"%string, "0100000000010100000001020000000103000000"%string)] [(0%N, (9%N, 9%N, 2478%Z)); (1%N, (6%N, 6%N, 2816%Z)); (2%N, (8%N, 8%N, 2914%Z)); (3%N, (6%N, 8%N, 1000%Z))] [(0%N, mkWI [49%N] [49%N] [] [] 0%N); (1%N, mkWI [26481%N; 20140%N] [26481%N; 20140%N] [] [] 1%N); (2%N, mkWI [37117%N] [37117%N] [] [] 1%N); (3%N, mkWI [26481%N; 20140%N; 37117%N] [26481%N; 20140%N; 37117%N] [] [] 1%N)] [O.PSimple (O.mkOov 8 8 6000 1%N)] [[0%Z; 863%Z; 2124%Z; 1032%Z; 591%Z; (-162)%Z; (-79)%Z; 887%Z; 447%Z; (-535)%Z]; [(-3689)%Z; (-3361)%Z; (-7643)%Z; (-3267)%Z; 809%Z; (-1098)%Z; 4606%Z; 4269%Z; 4567%Z; 1635%Z]; [(-1959)%Z; 2457%Z; 811%Z; 840%Z; 903%Z; (-958)%Z; 517%Z; 2037%Z; 1392%Z; (-193)%Z]; [(-2288)%Z; 1741%Z; 487%Z; 792%Z; (-1474)%Z; (-3429)%Z; 126%Z; 437%Z; 605%Z; (-547)%Z]; [(-2809)%Z; (-3584)%Z; (-6743)%Z; (-2869)%Z; (-2805)%Z; (-407)%Z; 3422%Z; 5642%Z; 6382%Z; 2165%Z]; [(-509)%Z; (-3665)%Z; (-3882)%Z; (-572)%Z; (-1036)%Z; (-54)%Z; 2570%Z; 3319%Z; 4059%Z; 882%Z]; [101%Z; 2933%Z; 2198%Z; (-2004)%Z; 4392%Z; 4017%Z; 569%Z; 475%Z; (-390)%Z; 852%Z]; [(-852)%Z; 2079%Z; 1180%Z; (-3084)%Z; 2010%Z; 1570%Z; 746%Z; 2341%Z; 2051%Z; 1393%Z]; [(-522)%Z; 3354%Z; 2037%Z; (-2542)%Z; 3071%Z; 2631%Z; (-352)%Z; 2847%Z; 1134%Z; 1256%Z]; [(-975)%Z; 2498%Z; 1690%Z; (-1523)%Z; 3023%Z; 3139%Z; 2562%Z; 3962%Z; 418%Z; (-2490)%Z]] [Rw.PKatakana 3%nat 1%N] Sp.ModeA [(0%N, 1%N); (1%N, 6%N); (2%N, 3%N); (3%N, 9%N)] [(0%N, []); (1%N, []); (2%N, []); (3%N, [1%N; 2%N])] [(0%N, []); (1%N, []); (2%N, []); (3%N, [1%N; 2%N])].
Definition e_t0 : list N := [12450%N; 12452%N; 12540%N; 12540%N; 26481%N; 20140%N; 37117%N].                  (* ア イ ー ー 東 京 都 *)
Definition e_t : list N := [12450; 12452; 12540; 26481; 20140; 37117]%N.      (* after the plugin: ア イ ー 東 京 都 *)
Definition e_rows : list row :=
  [([49%N], 9%Z); ([230; 157; 177; 228; 186; 172]%N, 6%Z); ([233; 131; 189]%N, 8%Z);
   ([230; 157; 177; 228; 186; 172; 233; 131; 189]%N, 6%Z)].
Definition e_key (u : N) : list N :=
  if N.eqb u 1 then [26481; 20140]%N else if N.eqb u 2 then [37117]%N else if N.eqb u 3 then [26481; 20140; 37117]%N else [49%N].

(* the model computes: アイーー | 東京 | 都 with the word ids the real tokenizer reports (OOV with part of speech 1, words 1 and 2) *)
Example e_computes :
  tokenize_model the_cfg e_tk e_t0
  = Ok [mkMo 0 12 0 4 (PipelineFull.enc [12450; 12452; 12540; 12540]%N) WID_INVALID;
        mkMo 12 18 4 6 (PipelineFull.enc [26481; 20140]%N) 1%N; mkMo 18 21 6 7 (PipelineFull.enc [37117]%N) 2%N].
Proof. vm_compute. reflexivity. Qed.

Example e_same_as_implementation : check_end_to_end e_tk e_t0 (Some [(0%N, 12%N, 4026531841%N); (12%N, 18%N, 1%N); (18%N, 21%N, 2%N)]) = true.
Proof. vm_compute. reflexivity. Qed.

Example e_spec : e_t = NormalizeBuffer.stack_spec (tk_plugins e_tk) e_t0.
Proof. vm_compute. reflexivity. Qed.

Example e_h1 : (Z.of_nat (length (PipelineFull.enc e_t0)) <= Z.of_N (c_start_limit the_cfg))%Z.
Proof. vm_compute. discriminate. Qed.
Example e_h2 : Forall NormalizeBuffer.plugin_wf (tk_plugins e_tk).
Proof. repeat constructor. Qed.
Example e_h3 : NormalizeBuffer.stack_nonempty (tk_plugins e_tk) e_t0.
Proof. cbn [tk_plugins e_tk mk_tokenizer map NormalizeBuffer.stack_nonempty]. split; [|exact I]. intros _. vm_compute. discriminate. Qed.
Example e_h4 : NormalizeBuffer.stack_fits the_cfg (tk_plugins e_tk) e_t0.
Proof. cbn [tk_plugins e_tk mk_tokenizer map NormalizeBuffer.stack_fits]. split; [vm_compute; discriminate|]. split; [vm_compute; discriminate | exact I]. Qed.
Example e_h5 : Forall scalar e_t.
Proof. repeat constructor. Qed.
Example e_h6 : certified (tk_lexs e_tk).
Proof.
  intros L HL. cbn in HL. destruct HL as [<-|[]]. exists e_rows, 10. split; [vm_compute; reflexivity|].
  intros r Hr. apply LookupLattice.chars_ok_b_sound. cbn in Hr. repeat (destruct Hr as [<-|Hr]; [vm_compute; reflexivity|]). contradiction.
Qed.
Example e_h7a : forall q, In q (tk_provs e_tk) -> OovWf.provider_oracle_ok q (length e_t).
Proof. intros q Hq. cbn in Hq. destruct Hq as [<-|[]]. exact I. Qed.
Example e_h7b : Oov.fallback_of (tk_provs e_tk) = Some (Oov.PSimple (Oov.mkOov 8 8 6000 1%N)).
Proof. vm_compute. reflexivity. Qed.
Example e_h7c : forall p, p < length e_t ->
  exists st, Oov.normal_pass (Oov.mk_ctx (classes e_tk e_t)) (tk_provs e_tk) p (dict_onodes the_cfg e_tk e_t p) = Oov.ROk st.
Proof. intros p Hp. do 6 (destruct p as [|p]; [eexists; vm_compute; reflexivity|]). cbn in Hp. lia. Qed.

(* the input of split_path the model computes: the merged katakana node and 東京都 (word 3, units 1 and 2) *)
Definition e_split_in : list Split.node := [Split.mkNode 0 3 0 9 WID_INVALID; Split.mkNode 3 6 9 18 3]%N.
Example e_pre : exists a, pre_split the_cfg e_tk e_t = Ok a /\ pr_split_in a = e_split_in.
Proof. eexists. split; [vm_compute; reflexivity | reflexivity]. Qed.

Example e_h8 : forall a, pre_split the_cfg e_tk e_t = Ok a ->
  PipelineFull.mode_wf (tk_hw e_tk) e_key e_t (tk_ua e_tk) (tk_ub e_tk) (tk_mode e_tk) (pr_split_in a).
Proof.
  intros a Ha. destruct e_pre as (a' & Ha' & Hs). rewrite Ha' in Ha. inversion Ha; subst a. rewrite Hs.
  change (tk_mode e_tk) with Split.ModeA. cbn [PipelineFull.mode_wf].
  intros n Hn Hlen. cbn in Hn. destruct Hn as [<-|[<-|[]]]; [vm_compute in Hlen; lia|].
  split.
  - exists [12450; 12452; 12540]%N, []. repeat split. intros u Hu. vm_compute in Hu. destruct Hu as [<-|[<-|[]]]; vm_compute; discriminate.
  - intros u Hu. vm_compute in Hu. destruct Hu as [<-|[<-|[]]]; vm_compute; reflexivity.
Qed.

(* all hypotheses are met: the theorem applies, and its conclusion is about the very list computed above *)
Example e_theorem_applies :
  exists ms, tokenize_model the_cfg e_tk e_t0 = Ok ms /\
    partition_b (PipelineFull.enc e_t0) (map (fun m => (mo_begin m, mo_end m)) ms) = true /\
    concat (map mo_surface ms) = PipelineFull.enc e_t0.
Proof.
  destruct (C01_tokenizer_end_to_end e_tk e_t0 (Oov.mkOov 8 8 6000 1%N) e_key e_t e_spec e_h1 e_h2 e_h3 e_h4 e_h5 e_h6 e_h7a e_h7b e_h7c e_h8)
    as (ms & Hms & _ & H).
  destruct (H ltac:(discriminate)) as (A & B & _). exists ms. auto.
Qed.
