(* Non-vacuity for C08: three stacked batches on a 1-2-3-4-byte string ("aéあ😀") with a deletion at the start, adjacent
   edits and an expansion at the end give a reachable state; its offset map is shown explicitly. *)
From Coq Require Import List NArith Arith.
From SudachiVerif Require Import Model.Buffer Proofs.BufferProofs Properties.C08.
Import ListNotations.
Open Scope nat_scope.

Definition Nl (l : list nat) : list N := map N.of_nat l.
Definition get (r : res buf) : buf := match r with Ok s => s | _ => mkBuf [] [] [] end.

Definition ex_o : list N := Nl [97; 195;169; 227;129;130; 240;159;152;128].          (* a é あ 😀 *)
Definition ex_b1 : list edit := [mkE 0 1 []; mkE 1 3 (Nl [101; 101])].               (* delete "a"; "é" -> "ee" (adjacent) *)
Definition ex_b2 : list edit := [mkE 2 5 (Nl [120]); mkE 5 9 (Nl [240;159;152;128; 240;159;152;128])].  (* "あ" -> "x"; "😀" -> "😀😀" at the end *)
Definition ex_b3 : list edit := [mkE 0 1 (Nl [195;169; 195;169]); mkE 1 2 []].       (* "e" -> "éé" at the start; delete the next "e" *)

Definition ex_s0 := get (start_build the_cfg ex_o).
Definition ex_s1 := get (commit the_cfg ex_s0 ex_b1).
Definition ex_s2 := get (commit the_cfg ex_s1 ex_b2).
Definition ex_s3 := get (commit the_cfg ex_s2 ex_b3).

Example ex_wf : wf_text ex_o = true.
Proof. vm_compute. reflexivity. Qed.

Example ex_reach : Reach the_cfg ex_o ex_s3.
Proof.
  apply (R_commit the_cfg ex_o ex_s2 ex_b3); [|vm_compute; reflexivity|vm_compute; reflexivity|vm_compute; discriminate].
  apply (R_commit the_cfg ex_o ex_s1 ex_b2); [|vm_compute; reflexivity|vm_compute; reflexivity|vm_compute; discriminate].
  apply (R_commit the_cfg ex_o ex_s0 ex_b1); [|vm_compute; reflexivity|vm_compute; reflexivity|vm_compute; discriminate].
  apply R_start. vm_compute. reflexivity.
Qed.

(* "ééx😀😀": the forced 0 at the start, both "é" inside the deleted/replaced prefix, "x" -> "あ", the first "😀" carries
   the whole original "😀", the second one is empty *)
Example ex_values :
  cur ex_s3 = Nl [195;169; 195;169; 120; 240;159;152;128; 240;159;152;128] /\
  m2o ex_s3 = [0;3; 3;3; 3; 6;10;10;10; 10;10;10;10; 10].
Proof. vm_compute. split; reflexivity. Qed.

Example ex_inv_b : inv_b ex_o (cur ex_s3) (m2o ex_s3) = true.
Proof. vm_compute. reflexivity. Qed.

(* code-point offsets of the 6 character positions of "ééx😀😀" in "aéあ😀" *)
Example ex_char_idx :
  map (to_orig_char_idx the_cfg ex_s3) (seq 0 6) = [Some 0; Some 2; Some 2; Some 3; Some 4; Some 4].
Proof. vm_compute. reflexivity. Qed.

(* the invariant is not vacuous the other way round either: emptying the text loses the end anchor, which is why the
   theorem asks every batch to leave the text non-empty *)
Example ex_empty_then_insert_loses_end :
  let s1 := get (commit the_cfg (get (start_build the_cfg (Nl [97; 98]))) [mkE 0 2 []]) in
  let s2 := get (commit the_cfg s1 [mkE 0 0 (Nl [120])]) in
  cur s1 = [] /\ m2o s2 = [0; 0].
Proof. vm_compute. split; reflexivity. Qed.

(* unreplaced bytes: "aあb"; batch 1 deletes "a", batch 2 inserts "😀" at the start.  The first byte of "あ" (q = 1) became
   the first byte of the text after batch 1 (entry forced to 0) and stays mapped to 0 when it moves to offset 4: its
   mapped range [0, 2) still contains [1, 2) but its start is no longer exact.  "b" (q = 4) keeps an exact start. *)
Definition ex2_o : list N := Nl [97; 227;129;130; 98].
Definition ex2_b1 : list edit := [mkE 0 1 []].
Definition ex2_b2 : list edit := [mkE 0 0 (Nl [240;159;152;128])].
Definition ex2_s0 := get (start_build the_cfg ex2_o).
Definition ex2_s1 := get (commit the_cfg ex2_s0 ex2_b1).
Definition ex2_s2 := get (commit the_cfg ex2_s1 ex2_b2).

Example ex2_tracks_a : Tracks the_cfg ex2_o ex2_s2 1 4 false.
Proof.
  apply (T_commit the_cfg ex2_o ex2_s1 ex2_b2 ex2_s2 1 0 false); [|vm_compute; reflexivity|vm_compute; reflexivity|vm_compute; discriminate|vm_compute; reflexivity].
  apply (T_commit the_cfg ex2_o ex2_s0 ex2_b1 ex2_s1 1 1 true); [|vm_compute; reflexivity|vm_compute; reflexivity|vm_compute; discriminate|vm_compute; reflexivity].
  apply T_start; [vm_compute; reflexivity | vm_compute; auto with arith].
Qed.

Example ex2_tracks_b : Tracks the_cfg ex2_o ex2_s2 4 7 true.
Proof.
  apply (T_commit the_cfg ex2_o ex2_s1 ex2_b2 ex2_s2 4 3 true); [|vm_compute; reflexivity|vm_compute; reflexivity|vm_compute; discriminate|vm_compute; reflexivity].
  apply (T_commit the_cfg ex2_o ex2_s0 ex2_b1 ex2_s1 4 4 true); [|vm_compute; reflexivity|vm_compute; reflexivity|vm_compute; discriminate|vm_compute; reflexivity].
  apply T_start; [vm_compute; reflexivity | vm_compute; auto with arith].
Qed.

Example ex2_values : m2o ex2_s2 = [0;0;0;0; 0;2;3; 4; 5] /\ unreplaced_b ex2_o (cur ex2_s2) (m2o ex2_s2) [ex2_b1; ex2_b2] = true.
Proof. vm_compute. split; reflexivity. Qed.

(* C07's offsets_after against the map commit builds: "Ａ東ーー" with Ａ -> a (shrinks) and ーー -> ー (a later, non-empty
   replacement behind it); a second batch on the result ("a東ー": 東 -> とう) shows the composition with the previous map *)
From SudachiVerif Require Proofs.OffsetsLink Proofs.NormalizeBuffer Model.Normalize Proofs.PipelineFull.
Definition l_t : list N := [65313; 26481; 12540; 12540]%N.
Definition l_es : list Normalize.edit := [Normalize.mkE 0 1 [97%N]; Normalize.mkE 2 4 [12540%N]].
Definition l_s0 := get (start_build the_cfg (PipelineFull.enc l_t)).
Definition l_s1 := get (commit the_cfg l_s0 (NormalizeBuffer.tr_edits l_t l_es)).
Definition l_t1 : list N := [97; 26481; 12540]%N.
Definition l_es2 : list Normalize.edit := [Normalize.mkE 1 2 [12392; 12358]%N].
Definition l_s2 := get (commit the_cfg l_s1 (NormalizeBuffer.tr_edits l_t1 l_es2)).

Example l_hyps :
  start_build the_cfg (PipelineFull.enc l_t) = Ok l_s0 /\ Normalize.apply_edits l_t l_es = Some l_t1 /\
  commit the_cfg l_s0 (NormalizeBuffer.tr_edits l_t l_es) = Ok l_s1 /\
  commit the_cfg l_s1 (NormalizeBuffer.tr_edits l_t1 l_es2) = Ok l_s2.
Proof. vm_compute. repeat split; reflexivity. Qed.

Example l_values :
  Normalize.offsets_after l_t l_es = [0; 3; 6; 12]%N /\
  map (fun p => nth p (m2o l_s1) 0) (mod_c2b (cur l_s1)) = [0; 3; 6; 12] /\
  Normalize.offsets_after l_t1 l_es2 = [0; 1; 4; 4; 7]%N /\
  map (fun p => nth p (m2o l_s2) 0) (mod_c2b (cur l_s2)) = [0; 3; 6; 6; 12].
Proof. vm_compute. repeat split; reflexivity. Qed.
