(* Non-vacuity of the C05 theorems and the recorded finding, by evaluation *)
From Coq Require Import List NArith ZArith Bool.
From SudachiVerif Require Import Model.Codec Proofs.CodecProofs.
From SudachiVerif Require Model.CodecCheck Model.CodecIO.   (* keeps the case-file entry points in step with the facts *)
Import ListNotations.
Open Scope N_scope.

(* 京都 / キョウト, an astral headword, forms equal / empty / different, a reference to entry 0 *)
Definition e0 : entry := mkEntry [20140; 37117] 6 3 [20140; 37117] 4294967295 [12461; 12519; 12454; 12488] [] [] [] [1; 5] 6 6 5293.
Definition e1 : entry := mkEntry [134047; 128158] 8 7 [] 0 [134047] [0; 0] [0] [0; 1] [] (-1) 2 (-32768).

Example ex_entries_ok : entry_ok e0 = true /\ entry_ok e1 = true.
Proof. split; vm_compute; reflexivity. Qed.

Definition lx01 : lexicon :=
  match write_word_info e0, write_word_info e1 with
  | Some b0, Some b1 => [b0 ++ b1; b1]
  | _, _ => []
  end.

Example ex_written : exists b0 b1, write_word_info e0 = Some b0 /\ write_word_info e1 = Some b1 /\ lx01 = [b0 ++ b1; b1].
Proof. eexists. eexists. vm_compute. repeat split; reflexivity. Qed.

(* entry 1 refers to entry 0 as its dictionary form: the hypotheses of C05_wordinfo_roundtrip are met *)
Example ex_dic_ref : dic_spec lx01 1 e1 (e_headword e0).
Proof.
  change (e_headword e0) with (or_headword e1 (e_headword e0)).
  destruct ex_written as (b0 & b1 & W0 & W1 & E).
  apply (dic_ref lx01 1 e1 e0 b0 b1).
  - vm_compute. discriminate.
  - vm_compute. discriminate.
  - rewrite E. reflexivity.
  - exact W0.
  - vm_compute. reflexivity.
Qed.

Example ex_readback :
  option_map (fun i => (as_text (accessor A_norm i), as_text (accessor A_dicform i), as_text (accessor A_reading i), as_arr (accessor A_b i)))
             (get_word_info lx01 true 1 ALL)
  = Some ([134047; 128158], [20140; 37117], [134047], [0]).
Proof. vm_compute. reflexivity. Qed.

(* length prefix at the boundary: 126 -> one byte, 127 and 128 -> two bytes, 32767 accepted, 32768 refused *)
Example ex_len_boundary :
  (write_len 126, write_len 127, write_len 128, write_len 32767, write_len 32768)
  = (Some [126], Some [128; 127], Some [128; 128], Some [255; 255], None).
Proof. vm_compute. reflexivity. Qed.

(* the recorded finding c05_user_dicform_ref: a row of a user dictionary whose dictionary form is `U0` is written with
   the raw id 0x10000000; the reader uses it as an index into the same lexicon: failure (a panic in the implementation) *)
Definition e_user : entry := mkEntry [26481] 3 0 [] 268435456 [] [] [] [] [] 0 0 0.
Example C05_user_dicform_ref_refuted :
  match write_word_info e_user with
  | Some b => get_word_info [b] true 0 ALL
  | None => None
  end = None.
Proof. vm_compute. reflexivity. Qed.
