(* Non-vacuity of the C05 theorems and the recorded finding, by evaluation *)
From Coq Require Import List NArith ZArith Bool.
From SudachiVerif Require Import Model.Codec Proofs.CodecProofs.
From SudachiVerif Require Model.CodecCheck.   (* keeps the case-file entry points in step with the facts *)
(* Model.CodecIO (packed literals of the case files, primitive 63-bit integers) is deliberately NOT required here: it is
   built with the other models by the check driver, and requiring it would put Uint63's primitives and axioms into the
   closure that the thorough tier's coqchk audits, although no theorem or witness uses them *)
Import ListNotations.
Open Scope N_scope.

(* 京都 / キョウト, an astral headword, forms equal / empty / different, a reference to entry 0 *)
Definition e0 : entry := mkEntry [20140; 37117] 6 3 [20140; 37117] 4294967295 [12461; 12519; 12454; 12488] [] [] [] [1; 5] 6 6 5293.
Definition e1 : entry := mkEntry [134047; 128158] 8 7 [] 0 [134047] [0; 0] [0] [0; 1] [] (-1) 2 (-32768).

Example ex_entries_ok : entry_ok e0 = true /\ entry_ok e1 = true.
Proof. split; vm_compute; reflexivity. Qed.

Definition lx01 : lexicon :=
  match write_word_info e0, write_word_info e1 with
  | Some b0, Some b1 => [b0 ++ b1; b1]
  | _, _ => []
  end.

Example ex_written : exists b0 b1, write_word_info e0 = Some b0 /\ write_word_info e1 = Some b1 /\ lx01 = [b0 ++ b1; b1].
Proof. eexists. eexists. vm_compute. repeat split; reflexivity. Qed.

(* entry 1 refers to entry 0 as its dictionary form: the hypotheses of C05_wordinfo_roundtrip are met *)
Example ex_dic_ref : dic_spec lx01 1 e1 (e_headword e0).
Proof.
  change (e_headword e0) with (or_headword e1 (e_headword e0)).
  destruct ex_written as (b0 & b1 & W0 & W1 & E).
  apply (dic_ref lx01 1 e1 e0 b0 b1).
  - vm_compute. discriminate.
  - vm_compute. discriminate.
  - rewrite E. reflexivity.
  - exact W0.
  - vm_compute. reflexivity.
Qed.

Example ex_readback :
  option_map (fun i => (as_text (accessor A_norm i), as_text (accessor A_dicform i), as_text (accessor A_reading i), as_arr (accessor A_b i)))
             (get_word_info lx01 true 1 ALL)
  = Some ([134047; 128158], [20140; 37117], [134047], [0]).
Proof. vm_compute. reflexivity. Qed.

(* length prefix at the boundary: 126 -> one byte, 127 and 128 -> two bytes, 32767 accepted, 32768 refused *)
Example ex_len_boundary :
  (write_len 126, write_len 127, write_len 128, write_len 32767, write_len 32768)
  = (Some [126], Some [128; 127], Some [128; 128], Some [255; 255], None).
Proof. vm_compute. reflexivity. Qed.

(* the recorded finding c05_user_dicform_ref: a row of a user dictionary whose dictionary form is `U0` is written with
   the raw id 0x10000000; the reader uses it as an index into the same lexicon: failure (a panic in the implementation) *)
Definition e_user : entry := mkEntry [26481] 3 0 [] 268435456 [] [] [] [] [] 0 0 0.
Example C05_user_dicform_ref_refuted :
  match write_word_info e_user with
  | Some b => get_word_info [b] true 0 ALL
  | None => None
  end = None.
Proof. vm_compute. reflexivity. Qed.

(* ------------------------------------------------------------------ connection matrix *)
From SudachiVerif Require Import Model.GuardLang Model.CodecConn Proofs.CodecConnProofs.
From SudachiVerif Require Generated.ConnIndex Generated.BuildGuards.

(* a 3 x 2 table (non-square), a repeated and a missing cell, extreme costs: the hypotheses of C05_matrix_roundtrip hold *)
Definition ex_lines : list cline := [(0, 0, 5); (2, 1, -32768); (1, 0, 7); (2, 1, 32767); (0, 1, -1)]%Z.
Example ex_matrix_compiles :
  forallb cline_ok ex_lines = true /\ conn_compile 3 2 ex_lines = Some [5; 7; 0; -1; 0; 32767]%Z.
Proof. split; vm_compute; reflexivity. Qed.
Example ex_matrix_costs :
  match conn_compile 3 2 ex_lines with
  | Some m => map (fun lr => section_cost (conn_section 3 2 m) (fst lr) (snd lr)) [(0, 0); (1, 0); (2, 0); (0, 1); (1, 1); (2, 1)]%Z
  | None => []
  end = [Some 5; Some 7; Some 0; Some (-1); Some 0; Some 32767]%Z.
Proof. vm_compute. reflexivity. Qed.

(* why the obligation C05_conn_formulas_agree is needed: with the writer's stride changed to num_right and the reader
   unchanged (the seeded change C05-m1) the obligation is false, and on the 3 x 2 table the cell (0, 1) reads 0, not -1 *)
Definition wrong_stride : iexp := IAdd (IMul IRight INumRight) ILeft.
Example C05_matrix_roundtrip_one_sided_stride_refuted :
  conn_facts_ok_with BuildGuards.write_elem_left_guards BuildGuards.write_elem_right_guards wrong_stride ConnIndex.matrix_index = false
  /\ match conn_compile_with BuildGuards.write_elem_left_guards BuildGuards.write_elem_right_guards wrong_stride 3 2
                             [(0, 0, 5); (0, 1, -1)]%Z with
     | Some m => section_cost (conn_section 3 2 m) 0 1
     | None => None
     end = Some 0%Z.
Proof. split; vm_compute; reflexivity. Qed.

(* ------------------------------------------------------------------ a whole lexicon in a file *)
From SudachiVerif Require Import Proofs.CodecLexProofs Model.CodecResolve Proofs.CodecResolveProofs Proofs.CodecResolveLexProofs.

Definition ex_prefix : bytes := repeat 170 300.
Definition ex_es : list entry := [e0; e1].
Example ex_lexicon_hyps :
  (exists sec, write_words_section (N.of_nat (List.length ex_prefix)) ex_es = Some sec
               /\ N.of_nat (List.length (ex_prefix ++ sec)) < 4294967296)
  /\ lexicon_wf ex_es.
Proof.
  split.
  - eexists. split; [vm_compute; reflexivity|vm_compute; reflexivity].
  - intros e [<-|[<-|[]]]; vm_compute; repeat split; congruence.
Qed.
(* entry 1 (dictionary form = entry 0) read through the offset table of the file *)
Example ex_lexicon_read :
  match write_words_section 300 ex_es with
  | Some sec => let file := ex_prefix ++ sec in
                (file_count file 300,
                 option_map (fun i => (as_text (accessor A_surface i), as_text (accessor A_dicform i))) (get_word_info (lexicon_of_file file 300) true 1 ALL),
                 file_params file 300 1)
  | None => (0, None, None)
  end = (2, Some ([134047; 128158], [20140; 37117]), Some (-1, 2, -32768)%Z).
Proof. vm_compute. reflexivity. Qed.

(* ------------------------------------------------------------------ inline references *)
(* three rows: two homonyms 東/POS 4/reading ヒガシ (rows 0 and 2) and a row whose split column refers to them inline
   and to row 0 by number: the inline reference resolves to the FIRST homonym, row 0 *)
Definition r_higashi : entry := mkEntry [26481] 3 4 [26481] 4294967295 [12498; 12460; 12471] [] [] [] [] 7 7 4675.
Definition ex_rows : list rrow :=
  [ mkRow [26481] r_higashi [] [];
    mkRow [26481; 20140] (mkEntry [26481; 20140] 6 3 [] 4294967295 [] [] [] [] [] 6 6 100)
          [inline_of [26481] 4 [12498; 12460; 12471]; SRef 0] [inline_of [26481] 4 [12498; 12460; 12471]];
    mkRow [26481] r_higashi [] [] ].
Example ex_resolution :
  option_map (map (fun e => (e_splits_a e, e_splits_b e))) (resolve_rows false ex_rows []) = Some [([], []); ([0; 0], [0]); ([], [])].
Proof. vm_compute. reflexivity. Qed.
(* a reference nobody matches stops the build *)
Example ex_unresolvable :
  resolve_rows false [mkRow [26481] r_higashi [inline_of [26481] 5 [12498; 12460; 12471]] []] [] = None.
Proof. vm_compute. reflexivity. Qed.
(* user dictionary: own rows win over system words, system words are found otherwise *)
Example ex_user_resolution :
  (resolve_inline 1 (map own_key ex_rows) (map sys_key [r_higashi]) [26481] 4 (Some [12498; 12460; 12471]),
   resolve_inline 1 [] (map sys_key [r_higashi]) [26481] 4 (Some [12498; 12460; 12471]))
  = (Some 268435456, Some 0).
Proof. vm_compute. reflexivity. Qed.

(* ------------------------------------------------------------------ the reader's text handling *)
From SudachiVerif Require Import Model.CodecCsv Proofs.CodecCsvProofs Proofs.CodecRowProofs.
From Coq Require Import String.
Open Scope string_scope.

(* every escape form, either case, next to backslashes that start no escape *)
Example ex_unescape :
  unescape (text_of_string "a\u3042\u30AB\u{1F49E}\u{41}\u{000041}\u12\\u0041\u{}\u{1234567}\x\u") =
  ROk ([97; 12354; 12459; 128158; 65; 65] ++ text_of_string "\u12\A\u{}\u{1234567}\x\u")%list.
Proof. vm_compute. reflexivity. Qed.
Example ex_unescape_bad :
  (unescape (text_of_string "x\uD800"), unescape (text_of_string "A\u{110000}"), unescape (text_of_string "\u{dFfF}"))
  = (RErr (EChar (text_of_string "D800")), RErr (EChar (text_of_string "110000")), RErr (EChar (text_of_string "dFfF"))).
Proof. vm_compute. reflexivity. Qed.

(* POS numbering: repeated and permuted requests behind a preloaded table of two rows *)
Definition pA : posrow := map text_of_string ["n"; "a"; "*"; "*"; "*"; "*"].
Definition pB : posrow := map text_of_string ["v"; "b"; "*"; "*"; "x"; "y"].
Definition pC : posrow := map text_of_string ["n"; "a"; "*"; "*"; "*"; ""].
Definition pD : posrow := map text_of_string ["p"; ""; ""; ""; ""; ""].
Example ex_pos_inv : pos_inv [pA; pB].
Proof. split; [repeat constructor; cbn; intuition discriminate|vm_compute; discriminate]. Qed.
Example ex_assign : assign [pA; pB] [pD; pB; pC; pD; pA; pC] = ROk ([pA; pB; pD; pC], [2; 1; 3; 2; 0; 3]%N).
Proof. vm_compute. reflexivity. Qed.

(* two rows as their CSV fields (escapes, a sign, leading zeros, padded mode, an inline reference to the LATER row whose
   POS is therefore numbered first): the hypotheses of C05_row_roundtrip hold and the theorem's conclusion is computed *)
Definition row_fields (l : list string) : list text := map text_of_string l.
Definition ex_csv : list (list text) :=
  [ row_fields ["AB"; "+1"; "002"; "-5"; "AB"; "v"; "b"; "*"; "*"; "x"; "y"; "ab"; ""; "*"; " C "; "cd,n,a,*,*,*,*,CD/1"; "*"; "01"; "7/+8"];
    row_fields ["cd"; "0"; "0"; "32767"; "cd"; "n"; "a"; "*"; "*"; "*"; "*"; "CD"; "cd"; "0"; "A"; "*"; ""; "*"] ].
Example ex_csv_scalar : Forall fields_scalar ex_csv.
Proof. repeat constructor. Qed.
Example ex_csv_parsed :
  match parse_records [] ex_csv with
  | ROk (st, rrows) =>
      (st, map (fun r => e_pos (r_entry r)) rrows,
       option_map (map (fun e => (e_splits_a e, e_word_structure e, e_synonyms e, e_dic_form e))) (resolve_rows false rrows []))
  | RErr _ => ([], [], None)
  end = ([pA; pB], [1; 0]%N, Some [([1; 1], [1], [7; 8], 4294967295); ([], [], [], 0)]%N).
Proof. vm_compute. reflexivity. Qed.
Example ex_csv_loaded :
  match parse_records [] ex_csv with
  | ROk (st, rrows) =>
      match resolve_rows false rrows [] with
      | Some es => match write_words_section 300 es with
                   | Some sec => option_map (fun i => (as_text (accessor A_surface i), as_num (accessor A_hwlen i), as_text (accessor A_norm i),
                                                       as_text (accessor A_reading i), as_arr (accessor A_a i)))
                                            (get_word_info (lexicon_of_file (ex_prefix ++ sec)%list 300) true 0 ALL)
                   | None => None
                   end
      | None => None
      end
  | RErr _ => None
  end = Some (text_of_string "AB", 2, text_of_string "AB", text_of_string "ab", [1; 1])%N.
Proof. vm_compute. reflexivity. Qed.

(* ---------- word ids and the capacity of a stack ---------- *)
From SudachiVerif Require Model.LexSet Proofs.LexSetProofs Proofs.CodecWordIdProofs Generated.Limits.
From SudachiVerif Require Properties.C05.

(* non-vacuity: word 5 of the 14th user dictionary *)
Example ex_word_id_14 :
  LexSet.stamp 14 5 = 3758096389%N /\ LexSet.dic_of 3758096389 = 14%N /\ LexSet.word_of 3758096389 = 5%N
  /\ LexSet.is_oov 3758096389 = false /\ LexSet.reported_dic 3758096389 = 14%Z.
Proof. vm_compute. repeat split; reflexivity. Qed.

(* the refutation shape of a capacity of 16: a word of a 15th user dictionary (dictionary number = MAX_DICTIONARIES) IS an
   out-of-vocabulary id -- the same raw value as WordId::oov(word), the out-of-vocabulary class, dictionary id -1 *)
Theorem C05_fifteenth_user_dictionary_refuted : forall word, (word <= LexSet.WORD_MASK)%N ->
  LexSet.stamp Generated.Limits.MAX_DICTIONARIES word = LexSet.oov_id word
  /\ LexSet.is_oov (LexSet.stamp Generated.Limits.MAX_DICTIONARIES word) = true
  /\ LexSet.reported_dic (LexSet.stamp Generated.Limits.MAX_DICTIONARIES word) = (-1)%Z.
Proof. exact (CodecWordIdProofs.fifteenth_user_dictionary_is_oov C05.C05_fact_word_id_layout C05.C05_fact_word_id_capacity). Qed.
Example ex_fifteenth : LexSet.stamp 15 0 = LexSet.oov_id 0 /\ LexSet.reported_dic (LexSet.stamp 15 0) = (-1)%Z.
Proof. vm_compute. split; reflexivity. Qed.

(* the arithmetic-shift reading of the dictionary number reports -6 for a word of user dictionary 10 *)
Example C05_arithmetic_shift_refuted :
  CodecWordIdProofs.arith_dic (LexSet.stamp 10 7) = (-6)%Z /\ LexSet.reported_dic (LexSet.stamp 10 7) = 10%Z.
Proof. vm_compute. split; reflexivity. Qed.
