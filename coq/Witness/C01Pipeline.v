(* Non-vacuity of C01_pipeline_partitions_original: one concrete analysis in which every stage does something.
   Rewritten text "アイ東京都" (15 bytes).  Lattice candidates ア, イ, 東京, 東京都, 都; the best path is ア | イ | 東京都;
   JoinKatakanaOov merges the two OOV katakana nodes (a grouping); mode A splits 東京都 into its declared units 東京 / 都
   (a tiling).  All hypotheses of the theorem hold, so its conclusion applies; the resulting ranges are shown. *)
From Coq Require Import List ZArith NArith Bool Arith Relations Lia.
From SudachiVerif Require Import Model.Lattice Model.Buffer Proofs.BufferProofs Proofs.PipelineProofs Proofs.PipelineFull Properties.C01.
From SudachiVerif Require Model.Rewrite Model.Split Proofs.SplitProofs.
Import ListNotations.
Open Scope nat_scope.

Definition w_t : list N := [12450; 12452; 26481; 20140; 37117]%N.                     (* ア イ 東 京 都 as code points *)
Definition w_o : list N := enc w_t.
Definition w_s : buf := match start_build the_cfg w_o with Ok s => s | _ => mkBuf [] [] [] end.
Definition w_conn : N -> N -> Z := fun _ _ => 0%Z.
Definition w_ns : list node :=
  [mkNode 0 1 1 1 3; mkNode 1 2 1 1 3; mkNode 2 4 1 1 5; mkNode 2 5 1 1 4; mkNode 4 5 1 1 5]%Z.
Definition w_p : list node := [mkNode 0 1 1 1 3; mkNode 1 2 1 1 3; mkNode 2 5 1 1 4]%Z.

Example w_wf : wf_text w_o = true.
Proof. vm_compute. reflexivity. Qed.
Example w_reach : Reach the_cfg w_o w_s.
Proof. apply R_start. vm_compute. reflexivity. Qed.
Example w_enc : cur w_s = enc w_t.
Proof. vm_compute. reflexivity. Qed.
Example w_nchars : nchars (cur w_s) = 5.
Proof. vm_compute. reflexivity. Qed.
Example w_nodes_ok : nodes_ok (nchars (cur w_s)) w_ns.
Proof.
  rewrite w_nchars. split; [cbn; repeat split; lia|].
  intros n H. cbn in H. repeat (destruct H as [<-|H]; [cbn; lia|]). contradiction.
Qed.
Example w_eos : connect_eos w_conn (insert_all w_conn (reset (nchars (cur w_s))) w_ns) = Some (5, 0, 10%Z).
Proof. vm_compute. reflexivity. Qed.
Example w_best : option_map (map enode) (top_path w_conn (insert_all w_conn (reset (nchars (cur w_s))) w_ns)) = Some (map Some w_p).
Proof. vm_compute. reflexivity. Qed.

(* ResultNodes of the best path: ア and イ are OOV katakana (class bit KATAKANA), 東京都 is word 7 of the dictionary
   (extra = 1: it has an A-unit split list; merged and OOV nodes have extra = 0) *)
Definition KAT : N := Rewrite.RF.KATAKANA.
Definition w_pr : list Rewrite.node :=
  [Rewrite.mkN 0 1 0 3 [12450%N] [] [] [] 0 5 true KAT KAT; Rewrite.mkN 1 2 3 6 [12452%N] [] [] [] 0 5 true KAT KAT;
   Rewrite.mkN 2 5 6 15 [26481; 20140; 37117]%N [] [] [] 1 1 false 0 0].
Example w_rnodes : Forall2 (rnode_of (cur w_s)) w_p w_pr.
Proof. repeat constructor. Qed.

Definition w_pls : list Rewrite.plugin := [Rewrite.PNumeric true 3; Rewrite.PKatakana 3 9].
Definition w_q : list Rewrite.node :=
  [Rewrite.mkN 0 2 0 6 [12450; 12452]%N [12450; 12452]%N [12450; 12452]%N [] 0 9 true KAT KAT;
   Rewrite.mkN 2 5 6 15 [26481; 20140; 37117]%N [] [] [] 1 1 false 0 0].
Example w_rewrite : Rewrite.run_plugins w_pls w_pr = Some (Rewrite.Ok w_q).
Proof. vm_compute. reflexivity. Qed.

(* the same two nodes as split_path sees them; word 7 = 東京都 declares the A units 1 = 東京, 2 = 都 *)
Definition w_ps : list Split.node := [Split.mkNode 0 2 0 6 100; Split.mkNode 2 5 6 15 7]%N.
Example w_snodes : Forall2 snode_of w_q w_ps.
Proof. repeat constructor. Qed.
Definition w_key (u : N) : list N := if N.eqb u 1 then [26481; 20140]%N else if N.eqb u 2 then [37117]%N else [].
Definition w_hw (u : N) : N := Split.blen (w_key u).
Definition w_ua (w : N) : list N := if N.eqb w 7 then [1; 2]%N else [].
Definition w_ub (w : N) : list N := [].

Example w_facts : Split.split_facts_ok = true.
Proof. vm_compute. reflexivity. Qed.

Example w_mode_wf : mode_wf w_hw w_key w_t w_ua w_ub Split.ModeA w_ps.
Proof.
  intros n Hn Hlen. cbn in Hn. destruct Hn as [<-|[<-|[]]]; [vm_compute in Hlen; lia|].
  split; [|reflexivity].
  exists [12450; 12452]%N, []. repeat split.
  intros u Hu. vm_compute in Hu. destruct Hu as [<-|[<-|[]]]; vm_compute; discriminate.
Qed.

Definition w_final : list Split.node := [Split.mkNode 0 2 0 6 100; Split.mkNode 2 4 6 12 1; Split.mkNode 4 5 12 15 2]%N.
Example w_split : Split.tokenize_mode w_hw w_t w_ua w_ub Split.ModeA w_ps = Some w_final.
Proof. vm_compute. reflexivity. Qed.

Lemma map_Some_inj {A} : forall a b : list A, map Some a = map Some b -> a = b.
Proof. induction a as [|x a IH]; intros [|y b] H; try discriminate; [reflexivity|]. injection H as -> H. f_equal. now apply IH. Qed.

(* the conclusion, obtained from the theorem (not by computation) *)
Example w_conclusion :
  exists final, Split.tokenize_mode w_hw w_t w_ua w_ub Split.ModeA w_ps = Some final /\
    partition_b w_o (map (map_range (m2o w_s)) (map sbytes final)) = true /\
    concat (map (byte_slice w_o) (map (map_range (m2o w_s)) (map sbytes final))) = w_o.
Proof.
  destruct (C01_pipeline_partitions_original w_conn w_o w_s w_t w_ns 5 0 10%Z w_wf w_reach w_enc w_nodes_ok
              ltac:(rewrite w_nchars; lia) w_eos) as (es & p & Htop & Hp & _ & H).
  assert (p = w_p) as ->.
  { pose proof w_best as Hb. rewrite Htop in Hb. cbn [option_map] in Hb. injection Hb as Hb. rewrite Hp in Hb.
    apply map_Some_inj. exact Hb. }
  destruct (H w_pr w_pls w_q w_ps w_hw w_key w_ua w_ub Split.ModeA w_rnodes w_rewrite w_snodes w_facts w_mode_wf)
    as (final & Hf & A & B & _).
  exists final. auto.
Qed.

Example w_ranges : map (map_range (m2o w_s)) (map sbytes w_final) = [(0, 6); (6, 12); (12, 15)].
Proof. vm_compute. reflexivity. Qed.

(* ReachU is inhabited beyond the start state: "ＡＢ" + "アイ東京都" with the full-width letters replaced by "ab"
   (a length-changing UTF-8 edit) reaches a state whose text is again an encoding *)
Definition u_t0 : list N := [65313; 65314; 12450; 12452]%N.
Definition u_s0 : buf := match start_build the_cfg (enc u_t0) with Ok s => s | _ => mkBuf [] [] [] end.
Definition u_es : list edit := [mkE 0 3 (enc [97%N]); mkE 3 6 (enc [98%N])].
Definition u_s1 : buf := match commit the_cfg u_s0 u_es with Ok s => s | _ => mkBuf [] [] [] end.
Example u_reach : ReachU the_cfg (enc u_t0) u_s1.
Proof.
  apply (RU_commit the_cfg (enc u_t0) u_s0 u_es u_s1).
  - apply RU_start. vm_compute. reflexivity.
  - vm_compute. reflexivity.
  - repeat constructor; eexists; reflexivity.
  - vm_compute. reflexivity.
  - vm_compute. discriminate.
Qed.
Example u_text : cur u_s1 = enc [97; 98; 12450; 12452]%N.
Proof. vm_compute. reflexivity. Qed.
