(* C05 — compile-then-load round trip preserves every dictionary field.
   Only the property theorems; each is closed by `exact` of a lemma of Proofs/CodecProofs.v.
   The Facts are the decidable obligations on what gen/facts.py extracted from the sources on this run. *)
From Coq Require Import List NArith ZArith.
From SudachiVerif Require Import Model.Codec Proofs.CodecProofs.
From SudachiVerif Require Import Model.GuardLang Model.CodecConn Proofs.CodecConnProofs Proofs.CodecLexProofs.
From SudachiVerif Require Import Model.CodecResolve Proofs.CodecResolveProofs Proofs.CodecResolveLexProofs.
From SudachiVerif Require Import Model.CodecCsv Proofs.CodecCsvProofs Proofs.CodecRowProofs.
From SudachiVerif Require Model.LexSet Generated.CsvFacts.
From SudachiVerif Require Generated.FieldOrder.
Open Scope N_scope.

(* write_word_info emits the fields in the order (and with the encoders) the reader was proved against *)
Fact C05_writer_order : FO.writer_fields = expected_writer.
Proof. vm_compute. reflexivity. Qed.
(* the parse_field! sequence and the InfoSubset bits are the ones the reader model was proved against *)
Fact C05_reader_order : reader_facts_ok.
Proof. split; vm_compute; reflexivity. Qed.
(* write_len's one-byte threshold <= string_length_parser's two-byte threshold <= 128, size guard <= 32767 *)
Fact C05_len_thresholds : len_thresholds_ok = true.
Proof. vm_compute. reflexivity. Qed.

(* every length the writer accepts (0..32767, incl. 126/127/128) is read back, consuming exactly the prefix *)
Theorem C05_len_prefix_roundtrip :
  forall n p rest, write_len n = Some p -> read_len (p ++ rest) = Some (n, rest).
Proof. exact (len_prefix_roundtrip C05_len_thresholds). Qed.
Print Assumptions C05_len_prefix_roundtrip.

(* every sequence of scalar values (BMP and astral) survives UTF-16 encoding and decoding *)
Theorem C05_utf16_roundtrip :
  forall s, forallb is_scalar s = true -> decode_units (utf16_units s) = Some s.
Proof. exact utf16_roundtrip. Qed.
Print Assumptions C05_utf16_roundtrip.

(* every string the writer accepts is read back, consuming exactly its bytes *)
Theorem C05_string_roundtrip :
  forall s b rest, forallb is_scalar s = true -> write_string s = Some b -> read_string (b ++ rest) = Some (s, rest).
Proof. exact (string_roundtrip C05_len_thresholds). Qed.
Print Assumptions C05_string_roundtrip.

(* every u32 array the writer accepts (up to 127 items) is read back *)
Theorem C05_u32arr_roundtrip :
  forall xs b rest, Forall (fun x => x < 4294967296) xs ->
  write_u32_array xs = Some b -> read_u32_array (b ++ rest) = Some (xs, rest).
Proof. exact u32arr_roundtrip. Qed.
Print Assumptions C05_u32arr_roundtrip.

(* connection ids and cost of every entry *)
Theorem C05_params_roundtrip :
  forall e rest,
  (-32768 <= e_left e < 32768)%Z -> (-32768 <= e_right e < 32768)%Z -> (-32768 <= e_cost e < 32768)%Z ->
  read_params (write_params e ++ rest) = Some (e_left e, e_right e, e_cost e).
Proof. exact params_roundtrip. Qed.
Print Assumptions C05_params_roundtrip.

(* the binary word info of every entry the writer accepts parses, with all fields loaded, to exactly what was stored *)
Theorem C05_wordinfo_roundtrip_raw :
  forall e b rest, entry_ok e = true -> write_word_info e = Some b ->
  exists i, parse ALL (b ++ rest) = Some i /\ forall f, i f = stored e f.
Proof. exact (wordinfo_roundtrip_raw C05_writer_order C05_reader_order C05_len_thresholds). Qed.
Print Assumptions C05_wordinfo_roundtrip_raw.

(* headline: for every lexicon laid out by the compiler, reading word `wid` through WordInfos::get_word_info and the
   public accessors gives the declared headword, index-form length, POS id, normalised form, dictionary-form id and
   dictionary form (own headword, or the headword of the referenced entry), reading, split units, word structure and
   synonym group ids; a form equal to the headword is stored empty and restored by the accessor *)
Theorem C05_wordinfo_roundtrip :
  forall lx wid e b rest df,
  lex_get lx wid = Some (b ++ rest) -> entry_ok e = true -> write_word_info e = Some b ->
  dic_spec lx wid e df ->
  exists i, get_word_info lx true wid ALL = Some i /\ loaded_as e df i.
Proof. exact (wordinfo_roundtrip C05_writer_order C05_reader_order C05_len_thresholds). Qed.
Print Assumptions C05_wordinfo_roundtrip.

(* the words section: for every lexicon the writer lays out at any position of a file below 4 GiB, the reader
   (Lexicon::parse / WordParams / WordInfos: count, params array, offset table, &bytes[offsets[k]..]) finds for EVERY
   entry k its own word info at offsets[k], its params at 6k, and reading it through get_word_info and the public
   accessors gives the declared fields; dictionary-form references lead to the referenced entry of the same lexicon *)
Theorem C05_lexicon_roundtrip :
  forall prefix es sec,
  write_words_section (N.of_nat (List.length prefix)) es = Some sec ->
  N.of_nat (List.length (prefix ++ sec)) < 4294967296 ->
  lexicon_wf es ->
  file_count (prefix ++ sec) (N.of_nat (List.length prefix)) = N.of_nat (List.length es) /\
  forall k e, nth_error es k = Some e ->
    (exists i, get_word_info (lexicon_of_file (prefix ++ sec) (N.of_nat (List.length prefix))) true (N.of_nat k) ALL = Some i
               /\ loaded_as e (declared_dicform es k e) i)
    /\ file_params (prefix ++ sec) (N.of_nat (List.length prefix)) (N.of_nat k) = Some (e_left e, e_right e, e_cost e).
Proof. exact (lexicon_roundtrip C05_writer_order C05_reader_order C05_len_thresholds). Qed.
Print Assumptions C05_lexicon_roundtrip.

(* connection matrix.  Decidable obligation on the facts regenerated from dic/build/conn.rs and dic/connect.rs:
   write_elem's guards confine left to [0, num_left) and right to [0, num_right); write_elem's index formula is
   right * num_left + left (up to commutation); ConnectionMatrix::index is THE SAME formula.  A stride changed in
   only one of the two functions makes this false. *)
Fact C05_conn_formulas_agree : conn_facts_ok = true.
Proof. vm_compute. reflexivity. Qed.

(* for every matrix text (any shape, lines in any order, repeated or missing cells) that ConnBuffer accepts, the
   compiled section read back by Grammar::parse + ConnectionMatrix::cost gives, for every l < num_left and
   r < num_right, the cost the text declares for (l, r): the last line naming the pair, 0 if none does *)
Theorem C05_matrix_roundtrip :
  forall nl nr ls m l r rest,
  (nl < 32768)%Z -> (nr < 32768)%Z -> forallb cline_ok ls = true ->
  conn_compile nl nr ls = Some m ->
  (0 <= l < nl)%Z -> (0 <= r < nr)%Z ->
  section_cost (conn_section nl nr m ++ rest) l r = Some (declared ls l r).
Proof. exact (matrix_roundtrip C05_conn_formulas_agree). Qed.
Print Assumptions C05_matrix_roundtrip.

(* inline split references `surface,pos,reading` (RawDictResolver / BinDictResolver / ChainedResolver): a resolved
   reference is the FIRST entry of the lexicon being compiled whose index form, POS and reading (None when equal to the
   surface) are the ones written; only if the own lexicon has none, the first such word of the system dictionary *)
Theorem C05_resolve_sound :
  forall own_dic own sys s p rd w,
  resolve_inline own_dic own sys s p rd = Some w ->
  (exists i, w = own_dic * DIC + N.of_nat i /\ first_match own i s p rd)
  \/ ((forall k, In k own -> ~ key_is k s p rd) /\ exists i, w = N.of_nat i /\ first_match sys i s p rd).
Proof. exact resolve_inline_sound. Qed.
Print Assumptions C05_resolve_sound.

(* ... and resolution fails (the build stops with InvalidSplitWordReference) exactly when no entry of either has them *)
Theorem C05_resolve_complete :
  forall own_dic own sys s p rd,
  resolve_inline own_dic own sys s p rd = None <-> forall k, In k (own ++ sys) -> ~ key_is k s p rd.
Proof. exact resolve_inline_complete. Qed.
Print Assumptions C05_resolve_complete.

(* the keys BinDictResolver derives from a LOADED system dictionary (get_word_info_subset with SURFACE | POS_ID |
   READING_FORM on the compiled file) are the keys of the entries that dictionary was compiled from *)
Theorem C05_resolver_key_of_loaded :
  forall prefix es sec,
  write_words_section (N.of_nat (List.length prefix)) es = Some sec ->
  N.of_nat (List.length (prefix ++ sec)) < 4294967296 ->
  lexicon_wf es ->
  forall k e, nth_error es k = Some e ->
  exists i, get_word_info (lexicon_of_file (prefix ++ sec) (N.of_nat (List.length prefix))) true (N.of_nat k) RESOLVER_SUBSET = Some i /\
            bin_key (as_text (i F_surface)) (as_num (i F_pos)) (as_text (i F_reading)) = sys_key e.
Proof. exact (resolver_key_of_loaded C05_writer_order C05_reader_order C05_len_thresholds). Qed.
Print Assumptions C05_resolver_key_of_loaded.

(* "split units ... resolved to the intended entries", end to end for a system lexicon: rows with their split columns
   as written -> resolution -> words section -> file -> reader and accessors: every unit read back for row i is the
   written word id, or, for an inline reference, the id of the first row with that index form, POS and reading *)
Theorem C05_inline_reference_roundtrip :
  forall rows es prefix sec,
  resolve_rows false rows nil = Some es ->
  write_words_section (N.of_nat (List.length prefix)) es = Some sec ->
  N.of_nat (List.length (prefix ++ sec)) < 4294967296 ->
  lexicon_wf es ->
  forall i r, nth_error rows i = Some r ->
  exists info a b,
    get_word_info (lexicon_of_file (prefix ++ sec) (N.of_nat (List.length prefix))) true (N.of_nat i) ALL = Some info /\
    accessor A_a info = VArr a /\ accessor A_b info = VArr b /\
    Forall2 (unit_target rows) (r_a r) a /\ Forall2 (unit_target rows) (r_b r) b.
Proof. exact (inline_reference_roundtrip C05_writer_order C05_reader_order C05_len_thresholds). Qed.
Print Assumptions C05_inline_reference_roundtrip.

(* ====================================================================================================================
   The lexicon reader's own text handling (Model/CodecCsv.v), from the fields of a CSV row on.
   Obligations on Generated/CsvFacts.v: the model was written for these regexes, limits, comparison operators, column
   table, inline-reference fields and mode table (a changed column order or parser breaks the equalities). *)
Fact C05_csv_columns : CF.record_columns = expected_columns.
Proof. vm_compute. reflexivity. Qed.
Fact C05_csv_inline_fields : CF.inline_fields = expected_inline_fields.
Proof. vm_compute. reflexivity. Qed.
Fact C05_csv_mode_table : CF.mode_table = expected_mode_table.
Proof. vm_compute. reflexivity. Qed.
Fact C05_csv_facts : csv_facts_ok = true.
Proof. vm_compute. reflexivity. Qed.
(* pos_of refuses a new POS iff the number of POS so far `>` MAX_POS_IDS, and 0 <= MAX_POS_IDS <= 65534 *)
Fact C05_pos_limit : pos_limit_ok = true.
Proof. vm_compute. reflexivity. Qed.
Fact C05_word_mask : word_mask_ok = true.
Proof. vm_compute. reflexivity. Qed.
Fact C05_pos_depth : CF.POS_DEPTH = 6.
Proof. vm_compute. reflexivity. Qed.

(* unescape, exactly: on the empty text; on `\u{h..h}` (1 to 6 hex digits, either case) and on `\uhhhh` it yields the
   scalar value the digits name and goes on behind the escape, or fails with InvalidCharLiteral(digits) when they name
   none (a surrogate, or above U+10FFFF); every other character -- a backslash that starts neither form included --
   stands for itself.  The forms are recognised left to right and never inside a decoded escape. *)
Theorem C05_unescape_spec :
  unescape_go 0 nil = ROk nil
  /\ (forall hs r, all_hex hs = true -> (1 <= List.length hs <= 6)%nat ->
        unescape_go 0 (braces_form hs ++ r) = decoded_or_err hs (unescape_go 0 r))
  /\ (forall hs r, all_hex hs = true -> List.length hs = 4%nat ->
        unescape_go 0 (four_form hs ++ r) = decoded_or_err hs (unescape_go 0 r))
  /\ (forall c t, ~ starts_escape (c :: t) -> unescape_go 0 (c :: t) = (do x <- unescape_go 0 t; ROk (c :: x))).
Proof. exact unescape_spec. Qed.
Print Assumptions C05_unescape_spec.

(* a field without backslash is unchanged (or refused for its size: more than MAX_DIC_STRING_LEN bytes) *)
Theorem C05_unescape_plain :
  forall s, existsb (fun c => c =? BACKSLASH) s = false ->
  unescape s = if cmp_eval CF.str_len_cmp (Z.of_N (utf8_len s)) CF.MAX_DIC_STRING_LEN then RErr ESize else ROk s.
Proof. exact unescape_plain. Qed.
Print Assumptions C05_unescape_plain.

(* POS numbering (pos_of along the requests of a lexicon, inline references of a row before the row itself, user
   dictionaries starting from the preloaded system table `st`): the table grows by the new rows in order of first
   appearance, each once; pos_table[id] is the requested row; ids stay within MAX_POS_IDS (u16) *)
Theorem C05_pos_ids_spec :
  forall ps st st' ids, pos_inv st -> assign st ps = ROk (st', ids) ->
  st' = st ++ new_rows st ps /\ pos_inv st' /\ List.length ids = List.length ps /\
  (forall i p, nth_error ps i = Some p ->
     nth_error st' (N.to_nat (nth i ids 0%N)) = Some p /\ (Z.of_N (nth i ids 0%N) <= CF.MAX_POS_IDS)%Z).
Proof. exact (assign_spec C05_pos_limit). Qed.
Print Assumptions C05_pos_ids_spec.

(* equal rows get equal ids, different rows different ids *)
Theorem C05_pos_ids_injective :
  forall ps st st' ids, pos_inv st -> assign st ps = ROk (st', ids) ->
  forall i j p q, nth_error ps i = Some p -> nth_error ps j = Some q -> (p = q <-> nth i ids 0 = nth j ids 0).
Proof. exact (assign_injective C05_pos_limit). Qed.
Print Assumptions C05_pos_ids_injective.

(* it is the numbering of C12's model (Model/LexSet.v, assign_pos over interned POS), for every injective interning *)
Theorem C05_pos_ids_match_lexset :
  forall (enc : posrow -> N), (forall a b, enc a = enc b -> a = b) ->
  forall ps st st' ids, assign st ps = ROk (st', ids) ->
  LexSet.assign_pos (map enc st) (map enc ps) = (map enc st', ids).
Proof. exact assign_refines_lexset. Qed.
Print Assumptions C05_pos_ids_match_lexset.

(* the POS table write_pos_table emits is read back row for row by the grammar reader (pos_list_parser) *)
Theorem C05_pos_table_roundtrip :
  forall rows b rest, Forall posrow_ok rows -> N.of_nat (List.length rows) < 65536 ->
  pos_table_bytes rows = Some b -> read_pos_table (b ++ rest) = Some (rows, rest).
Proof. exact (pos_table_roundtrip C05_len_thresholds C05_pos_depth). Qed.
Print Assumptions C05_pos_table_roundtrip.

(* ... in particular the table the records of a system lexicon were numbered against *)
Theorem C05_records_pos_table_roundtrip :
  forall rows st rrows b rest,
  Forall fields_scalar rows -> parse_records nil rows = ROk (st, rrows) ->
  pos_table_bytes st = Some b -> read_pos_table (b ++ rest) = Some (st, rest).
Proof. exact (records_pos_table_roundtrip C05_len_thresholds C05_pos_limit C05_word_mask C05_pos_depth). Qed.
Print Assumptions C05_records_pos_table_roundtrip.

(* the statement a user relies on: rows given as their CSV fields (any texts), accepted by the field parsers
   (parse_records), resolved, validated (refs_valid: what validate_entries checks), written at any place of a file below
   4 GiB: reading word k through the loader and the public accessors gives what row k says -- the unescaped headword,
   the byte length of the unescaped index form, a POS id whose table row is the six unescaped POS columns, normalised
   and reading form (an empty column meaning the headword), the dictionary form id and form, word structure and
   synonym ids as written, split units as written or, for inline references, the first row with that index form, POS
   and reading, and the three connection parameters *)
Theorem C05_row_roundtrip :
  forall rows st rrows es prefix sec,
  Forall fields_scalar rows ->
  parse_records nil rows = ROk (st, rrows) ->
  resolve_rows false rrows nil = Some es ->
  refs_valid es ->
  write_words_section (N.of_nat (List.length prefix)) es = Some sec ->
  N.of_nat (List.length (prefix ++ sec)) < 4294967296 ->
  forall k f, nth_error rows k = Some f ->
  exists info,
    get_word_info (lexicon_of_file (prefix ++ sec) (N.of_nat (List.length prefix))) true (N.of_nat k) ALL = Some info /\
    row_says st rrows es k f info (file_params (prefix ++ sec) (N.of_nat (List.length prefix)) (N.of_nat k)).
Proof. exact (row_roundtrip C05_writer_order C05_reader_order C05_len_thresholds C05_pos_limit C05_word_mask). Qed.
Print Assumptions C05_row_roundtrip.

(* ====================================================================================================================
   The route a user takes to an entry: index form -> index lookup -> word id -> fields.
   index_cert (checked on the compiled bytes of the correspondence run): builder C's model of IndexBuilder / write_index
   (Model/IndexBuild.v: key = bytes of the index form, indexed iff left_id >= 0, id = record number) run on the rows
   the lexicon reader parsed reproduces the word-id table section and the (key, offset) pairs of the trie section.
   Then, by C04_lookup_exact_of_index_model (lookup = naive scan of the rows), looking up the index form of ANY indexed
   record k finds k itself, ending exactly at the end of the key, and everything it finds is an indexed record whose
   index form is a prefix of the key.  With C05_row_roundtrip for that k: the fields behind the id are the row's. *)
From SudachiVerif Require Properties.C04 Model.LexSet Model.IndexBuild Proofs.TrieProofs.
From SudachiVerif Require Import Model.CodecCheck Proofs.CodecIndexProofs.

Theorem C05_lookup_roundtrip :
  forall rows st rrows impl_trie impl_table fuel,
  Forall fields_scalar rows -> parse_records nil rows = ROk (st, rrows) ->
  N.of_nat (List.length rrows) <= 268435456 ->
  IndexBuild.index_cert (lex_of_sections impl_trie impl_table) (index_rows_of rrows) fuel = true ->
  forall k r, nth_error rrows k = Some r -> (0 <= e_left (r_entry r))%Z ->
  exists l,
    LexSet.lex_lookup (lex_of_sections impl_trie impl_table) 0 (utf8_bytes (r_surface r)) 0 = Some l /\
    In (LexSet.stamp 0 (N.of_nat k), utf8_len (r_surface r)) l /\
    forall w e, In (w, e) l ->
      exists j r', nth_error rrows j = Some r' /\ (0 <= e_left (r_entry r'))%Z /\ w = LexSet.stamp 0 (N.of_nat j) /\
                   TrieProofs.is_prefix (utf8_bytes (r_surface r')) (utf8_bytes (r_surface r)) /\ e = utf8_len (r_surface r').
Proof. exact (lookup_roundtrip_of C04.C04_lookup_exact_of_index_model C05_pos_limit C05_word_mask). Qed.
Print Assumptions C05_lookup_roundtrip.

(* ====================================================================================================================
   Word ids: every entry of every dictionary that can be loaded is named by an id that decodes to (dictionary, word) and is
   never taken for an out-of-vocabulary word.  WordId (sudachi/src/dic/word_id.rs) packs a 4-bit dictionary number and a
   28-bit word number; dictionary number 0xF marks out-of-vocabulary words (Morpheme::dictionary_id = -1).  The model of
   the encoding and of the stack is builder C's (Model/LexSet.v, constants regenerated into Generated/LexFacts.v /
   Limits.v; C12_fifteenth_rejected / C12_dictionary_id_accessor are its statements for C12).  What C05 adds: the obligation
   that the capacity constant MAX_DICTIONARIES is EXACTLY the out-of-vocabulary dictionary number, and the statements for the
   words of a loaded stack. *)
From SudachiVerif Require Proofs.LexSetProofs Proofs.CodecWordIdProofs Generated.LexFacts Generated.Limits.

(* the shift amounts (write and read), the masks and the out-of-vocabulary number of WordId::new / dic / word / oov *)
Fact C05_fact_word_id_layout : LexSetProofs.layout_ok = true.
Proof. vm_compute. reflexivity. Qed.
(* LexiconSet::is_full is `len >= MAX_DICTIONARIES`; MAX_DICTIONARIES = the dictionary number of WordId::oov = the number
   WordId::is_oov tests; Morpheme::dictionary_id is `oov -> -1, else dic()`, dic() being the logical shift of the u32 *)
Fact C05_fact_word_id_capacity : CodecWordIdProofs.wordid_capacity_ok = true.
Proof. vm_compute. reflexivity. Qed.

Theorem C05_word_id_roundtrip : forall dic word, dic < 16 -> word <= LexSet.WORD_MASK ->
  LexSet.dic_of (LexSet.stamp dic word) = dic /\ LexSet.word_of (LexSet.stamp dic word) = word.
Proof. exact (CodecWordIdProofs.word_id_roundtrip C05_fact_word_id_layout). Qed.
Print Assumptions C05_word_id_roundtrip.

Theorem C05_word_id_injective : forall d1 w1 d2 w2, d1 < 16 -> d2 < 16 -> w1 <= LexSet.WORD_MASK -> w2 <= LexSet.WORD_MASK ->
  LexSet.stamp d1 w1 = LexSet.stamp d2 w2 -> d1 = d2 /\ w1 = w2.
Proof. exact (CodecWordIdProofs.word_id_injective C05_fact_word_id_layout). Qed.
Print Assumptions C05_word_id_injective.

(* for ALL dictionary numbers below the capacity and ALL 28-bit word numbers: not out-of-vocabulary, dictionary id in 0..14 *)
Theorem C05_loaded_word_never_oov : forall dic word, dic < Generated.Limits.MAX_DICTIONARIES -> word <= LexSet.WORD_MASK ->
  LexSet.is_oov (LexSet.stamp dic word) = false /\ LexSet.reported_dic (LexSet.stamp dic word) = Z.of_N dic
  /\ (0 <= LexSet.reported_dic (LexSet.stamp dic word) <= 14)%Z.
Proof. exact (CodecWordIdProofs.loaded_word_never_oov C05_fact_word_id_layout C05_fact_word_id_capacity). Qed.
Print Assumptions C05_loaded_word_never_oov.

(* for ANY stack the loader accepts on top of a system dictionary: every dictionary d of it (its position) is below the
   out-of-vocabulary number, and every word (d, w) decodes to (d, w), is not out-of-vocabulary and reports dictionary d *)
Theorem C05_stack_words_never_oov : forall s us s', List.length (LexSet.s_words s) = 1%nat -> LexSet.merge_all s us = Some s' ->
  forall d, (d < List.length (LexSet.s_words s'))%nat ->
  N.of_nat d < Generated.LexFacts.OOV_DIC /\
  forall word, word <= LexSet.WORD_MASK ->
    LexSet.is_oov (LexSet.stamp (N.of_nat d) word) = false /\ LexSet.reported_dic (LexSet.stamp (N.of_nat d) word) = Z.of_nat d
    /\ LexSet.dic_of (LexSet.stamp (N.of_nat d) word) = N.of_nat d /\ LexSet.word_of (LexSet.stamp (N.of_nat d) word) = word.
Proof. exact (CodecWordIdProofs.stack_words_never_oov C05_fact_word_id_layout C05_fact_word_id_capacity). Qed.
Print Assumptions C05_stack_words_never_oov.

(* reading the dictionary number by an arithmetic shift of the signed value, `(raw as i32) >> 28`, is the dictionary id exactly
   for the numbers 0..7 and the out-of-vocabulary marker -- not for the user dictionaries 8..14 *)
Theorem C05_arithmetic_shift_agrees_iff : forall d word, d < 16 -> word <= LexSet.WORD_MASK ->
  (CodecWordIdProofs.arith_dic (LexSet.stamp d word) = LexSet.reported_dic (LexSet.stamp d word) <-> d < 8 \/ d = 15).
Proof. exact (CodecWordIdProofs.arith_shift_agrees_iff C05_fact_word_id_layout C05_fact_word_id_capacity). Qed.
Print Assumptions C05_arithmetic_shift_agrees_iff.
