(* C19 — the command-line tool analyses each input line without its terminator and prints the library's morphemes.
   Proved here: the tool's line handling and surface-only output format.  The equality of Python / tool output with the
   Rust library on concrete calls is the differential part of the check. *)
From Coq Require Import List NArith Bool.
From SudachiVerif Require Import Model.Cli Proofs.CliProofs.
From SudachiVerif Require Generated.CliFacts.
Import ListNotations.
Open Scope N_scope.

(* For every file made of lines `text ++ terminator` (terminator "\n" or "\r\n", the last line possibly unterminated and then
   non-empty; texts without "\n", a text before a bare "\n" not ending in "\r"): the texts handed to the analyser are exactly
   the texts of the lines -- in particular a blank line yields the empty text. *)
Theorem C19_cli_texts_spec :
  forall ls, lines_ok ls = true -> map (strip_eol_gen 0 0) (split_lines (file_of ls)) = map fst ls.
Proof. exact cli_texts_spec. Qed.
Print Assumptions C19_cli_texts_spec.

(* strip_eol removes nothing but one trailing "\n" or "\r\n" *)
Theorem C19_strip_eol_suffix :
  forall l, exists t, l = strip_eol_gen 0 0 l ++ t /\ (t = [] \/ t = [LF] \/ t = [CR; LF]).
Proof. exact strip_eol_suffix. Qed.
Print Assumptions C19_strip_eol_suffix.

(* surface-only output: surfaces joined by the word separator and closed by "\n"; "\n" alone for an empty analysis *)
Theorem C19_wakati_spec :
  forall ss, wakati ss = match ss with [] => [LF] | _ => intercalate word_sep ss ++ [LF] end.
Proof. exact wakati_spec. Qed.
Print Assumptions C19_wakati_spec.

(* ---- obligations on regenerated facts: the guards of strip_eol in the source are `len > 0` ---- *)
Lemma C19_fact_strip_guards :
  (Generated.CliFacts.strip_lf_min_len, Generated.CliFacts.strip_cr_min_len) = (0%nat, 0%nat).
Proof. reflexivity. Qed.
Lemma C19_fact_strip_eol_is_model : forall l, strip_eol l = strip_eol_gen 0 0 l.
Proof. reflexivity. Qed.
Lemma C19_fact_word_sep : word_sep = [32].
Proof. reflexivity. Qed.

(* ---- column output (Simple::write) ---- *)
From SudachiVerif Require Import Model.CliColumns Proofs.CliColumnsProofs.
From Coq Require Import String.

(* the part-of-speech column is the components joined by commas (the `idx + 1 != len` loop) *)
Theorem C19_pos_joined_spec : forall ps, pos_joined ps = intercalate [COMMA] ps.
Proof. exact pos_joined_spec. Qed.
Print Assumptions C19_pos_joined_spec.

(* one printed line, split at its tabs, is exactly the documented columns: surface, part of speech, normalised form and,
   with print_all, dictionary form, reading, dictionary id, synonym group ids and the (OOV) mark -- for every morpheme whose
   text fields contain neither a tab nor a line feed *)
Theorem C19_line_columns :
  forall all m, clean m = true -> split_on TAB (line all m) = fields all m.
Proof. exact line_columns. Qed.
Print Assumptions C19_line_columns.

(* the printed sentence, read back line by line up to "EOS", yields the columns of every morpheme in order: the format adds
   nothing, drops nothing and is unambiguous (a morpheme line is never the EOS line) *)
Theorem C19_columns_read_back :
  forall all ms, forallb clean ms = true -> read_back (simple all ms) = Some (map (fields all) ms).
Proof. exact read_back_simple. Qed.
Print Assumptions C19_columns_read_back.

Theorem C19_line_is_not_eos : forall all m, line all m <> eos_line.
Proof. exact line_is_not_eos. Qed.
Print Assumptions C19_line_is_not_eos.

Theorem C19_simple_injective :
  forall all ms ms', forallb clean ms = true -> forallb clean ms' = true ->
  simple all ms = simple all ms' -> map (fields all) ms = map (fields all) ms'.
Proof. exact simple_injective. Qed.
Print Assumptions C19_simple_injective.

(* ---- obligations on regenerated facts: what output.rs writes, in order, is what the model writes ---- *)
Lemma C19_fact_basic_writes :
  Generated.CliFacts.basic_writes =
  [("surface", []); ("lit", [TAB]); ("pos_component", []); ("lit", [COMMA]); ("lit", [TAB]); ("normalized_form", [])]%string.
Proof. reflexivity. Qed.
Lemma C19_fact_pos_comma_guard : Generated.CliFacts.pos_comma_guard = "idx + 1 != all_pos.len()"%string.
Proof. reflexivity. Qed.
Lemma C19_fact_extended :
  Generated.CliFacts.extended_format =
  [("lit", [TAB]); ("display", []); ("lit", [TAB]); ("display", []); ("lit", [TAB]); ("display", []); ("lit", [TAB]); ("debug", [])]%string
  /\ Generated.CliFacts.extended_args = ["dictionary_form"; "reading_form"; "dictionary_id"; "synonym_group_ids"]%string
  /\ Generated.CliFacts.oov_suffix = [TAB] ++ oov_mark
  /\ Generated.CliFacts.simple_write_shape_ok = true.
Proof. repeat split; reflexivity. Qed.
(* every column a format prints is served by the word-info fields the format requests (Simple::subset) *)
Lemma C19_fact_subset_covers_columns :
  covered ["surface"; "part_of_speech"; "normalized_form"]%string Generated.CliFacts.subset_basic = true /\
  covered (List.app ["surface"; "part_of_speech"; "normalized_form"]%string
                    (List.app Generated.CliFacts.extended_args ["is_oov"%string]))
          (List.app Generated.CliFacts.subset_basic Generated.CliFacts.subset_all_extra) = true.
Proof. split; vm_compute; reflexivity. Qed.
