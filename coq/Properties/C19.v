(* C19 — the command-line tool analyses each input line without its terminator and prints the library's morphemes.
   Proved here: the tool's line handling and surface-only output format.  The equality of Python / tool output with the
   Rust library on concrete calls is the differential part of the check. *)
From Coq Require Import List NArith Bool.
From SudachiVerif Require Import Model.Cli Proofs.CliProofs.
From SudachiVerif Require Generated.CliFacts.
Import ListNotations.
Open Scope N_scope.

(* For every file made of lines `text ++ terminator` (terminator "\n" or "\r\n", the last line possibly unterminated and then
   non-empty; texts without "\n", a text before a bare "\n" not ending in "\r"): the texts handed to the analyser are exactly
   the texts of the lines -- in particular a blank line yields the empty text. *)
Theorem C19_cli_texts_spec :
  forall ls, lines_ok ls = true -> map (strip_eol_gen 0 0) (split_lines (file_of ls)) = map fst ls.
Proof. exact cli_texts_spec. Qed.
Print Assumptions C19_cli_texts_spec.

(* strip_eol removes nothing but one trailing "\n" or "\r\n" *)
Theorem C19_strip_eol_suffix :
  forall l, exists t, l = strip_eol_gen 0 0 l ++ t /\ (t = [] \/ t = [LF] \/ t = [CR; LF]).
Proof. exact strip_eol_suffix. Qed.
Print Assumptions C19_strip_eol_suffix.

(* surface-only output: surfaces joined by the word separator and closed by "\n"; "\n" alone for an empty analysis *)
Theorem C19_wakati_spec :
  forall ss, wakati ss = match ss with [] => [LF] | _ => intercalate word_sep ss ++ [LF] end.
Proof. exact wakati_spec. Qed.
Print Assumptions C19_wakati_spec.

(* ---- obligations on regenerated facts: the guards of strip_eol in the source are `len > 0` ---- *)
Lemma C19_fact_strip_guards :
  (Generated.CliFacts.strip_lf_min_len, Generated.CliFacts.strip_cr_min_len) = (0%nat, 0%nat).
Proof. reflexivity. Qed.
Lemma C19_fact_strip_eol_is_model : forall l, strip_eol l = strip_eol_gen 0 0 l.
Proof. reflexivity. Qed.
Lemma C19_fact_word_sep : word_sep = [32].
Proof. reflexivity. Qed.
