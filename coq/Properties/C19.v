(* C19 — the command-line tool analyses each input line without its terminator and prints the library's morphemes.
   Proved here: the tool's line handling and surface-only output format.  The equality of Python / tool output with the
   Rust library on concrete calls is the differential part of the check. *)
From Coq Require Import List NArith Bool.
From SudachiVerif Require Import Model.Cli Proofs.CliProofs.
From SudachiVerif Require Generated.CliFacts.
Import ListNotations.
Open Scope N_scope.

(* For every file made of lines `text ++ terminator` (terminator "\n" or "\r\n", the last line possibly unterminated and then
   non-empty; texts without "\n", a text before a bare "\n" not ending in "\r"): the texts handed to the analyser are exactly
   the texts of the lines -- in particular a blank line yields the empty text. *)
Theorem C19_cli_texts_spec :
  forall ls, lines_ok ls = true -> map (strip_eol_gen 0 0) (split_lines (file_of ls)) = map fst ls.
Proof. exact cli_texts_spec. Qed.
Print Assumptions C19_cli_texts_spec.

(* strip_eol removes nothing but one trailing "\n" or "\r\n" *)
Theorem C19_strip_eol_suffix :
  forall l, exists t, l = strip_eol_gen 0 0 l ++ t /\ (t = [] \/ t = [LF] \/ t = [CR; LF]).
Proof. exact strip_eol_suffix. Qed.
Print Assumptions C19_strip_eol_suffix.

(* surface-only output: surfaces joined by the word separator and closed by "\n"; "\n" alone for an empty analysis *)
Theorem C19_wakati_spec :
  forall ss, wakati ss = match ss with [] => [LF] | _ => intercalate word_sep ss ++ [LF] end.
Proof. exact wakati_spec. Qed.
Print Assumptions C19_wakati_spec.

(* ---- obligations on regenerated facts: the guards of strip_eol in the source are `len > 0` ---- *)
Lemma C19_fact_strip_guards :
  (Generated.CliFacts.strip_lf_min_len, Generated.CliFacts.strip_cr_min_len) = (0%nat, 0%nat).
Proof. reflexivity. Qed.
Lemma C19_fact_strip_eol_is_model : forall l, strip_eol l = strip_eol_gen 0 0 l.
Proof. reflexivity. Qed.
Lemma C19_fact_word_sep : word_sep = [32].
Proof. reflexivity. Qed.

(* ---- column output (Simple::write) ---- *)
From SudachiVerif Require Import Model.CliColumns Proofs.CliColumnsProofs.
From Coq Require Import String.

(* the part-of-speech column is the components joined by commas (the `idx + 1 != len` loop) *)
Theorem C19_pos_joined_spec : forall ps, pos_joined ps = intercalate [COMMA] ps.
Proof. exact pos_joined_spec. Qed.
Print Assumptions C19_pos_joined_spec.

(* one printed line, split at its tabs, is exactly the documented columns: surface, part of speech, normalised form and,
   with print_all, dictionary form, reading, dictionary id, synonym group ids and the (OOV) mark -- for every morpheme whose
   text fields contain neither a tab nor a line feed *)
Theorem C19_line_columns :
  forall all m, clean m = true -> split_on TAB (line all m) = fields all m.
Proof. exact line_columns. Qed.
Print Assumptions C19_line_columns.

(* the printed sentence, read back line by line up to "EOS", yields the columns of every morpheme in order: the format adds
   nothing, drops nothing and is unambiguous (a morpheme line is never the EOS line) *)
Theorem C19_columns_read_back :
  forall all ms, forallb clean ms = true -> read_back (simple all ms) = Some (map (fields all) ms).
Proof. exact read_back_simple. Qed.
Print Assumptions C19_columns_read_back.

Theorem C19_line_is_not_eos : forall all m, line all m <> eos_line.
Proof. exact line_is_not_eos. Qed.
Print Assumptions C19_line_is_not_eos.

Theorem C19_simple_injective :
  forall all ms ms', forallb clean ms = true -> forallb clean ms' = true ->
  simple all ms = simple all ms' -> map (fields all) ms = map (fields all) ms'.
Proof. exact simple_injective. Qed.
Print Assumptions C19_simple_injective.

(* ---- obligations on regenerated facts: what output.rs writes, in order, is what the model writes ---- *)
Lemma C19_fact_basic_writes :
  Generated.CliFacts.basic_writes =
  [("surface", []); ("lit", [TAB]); ("pos_component", []); ("lit", [COMMA]); ("lit", [TAB]); ("normalized_form", [])]%string.
Proof. reflexivity. Qed.
Lemma C19_fact_pos_comma_guard : Generated.CliFacts.pos_comma_guard = "idx + 1 != all_pos.len()"%string.
Proof. reflexivity. Qed.
Lemma C19_fact_extended :
  Generated.CliFacts.extended_format =
  [("lit", [TAB]); ("display", []); ("lit", [TAB]); ("display", []); ("lit", [TAB]); ("display", []); ("lit", [TAB]); ("debug", [])]%string
  /\ Generated.CliFacts.extended_args = ["dictionary_form"; "reading_form"; "dictionary_id"; "synonym_group_ids"]%string
  /\ Generated.CliFacts.oov_suffix = [TAB] ++ oov_mark
  /\ Generated.CliFacts.simple_write_shape_ok = true.
Proof. repeat split; reflexivity. Qed.
(* every column a format prints is served by the word-info fields the format requests (Simple::subset) *)
Lemma C19_fact_subset_covers_columns :
  covered ["surface"; "part_of_speech"; "normalized_form"]%string Generated.CliFacts.subset_basic = true /\
  covered (List.app ["surface"; "part_of_speech"; "normalized_form"]%string
                    (List.app Generated.CliFacts.extended_args ["is_oov"%string]))
          (List.app Generated.CliFacts.subset_basic Generated.CliFacts.subset_all_extra) = true.
Proof. split; vm_compute; reflexivity. Qed.

(* ==================================================================================================================
   The Python binding's glue (Model/PyProjection.v): surface projections, the field-set parser, Morpheme.begin / end.
   Every table is re-extracted from python/src/projection.rs, sudachi/src/config.rs, python/src/dictionary.rs,
   tokenizer.rs, morpheme.rs and python/py_src/sudachipy/config.py on every run (Generated/PyFacts.v).
   ================================================================================================================== *)
From Coq Require Import String.
From SudachiVerif Require Import Model.Codec Model.PyProjection Proofs.CodecProofs Proofs.PyProjectionProofs.
From SudachiVerif Require Model.Buffer Proofs.BufferProofs Proofs.BufferCharProofs Proofs.PyOffsets.
From SudachiVerif Require Generated.FieldOrder Generated.BufferFacts.

(* the generated tables are the ones the proofs were written for: names -> variants, required subsets, implementation of
   each variant (matcher, accessor on match, accessor otherwise), the POS components and values the two matchers test,
   the field names, the documented projection names, Dictionary.create ORs the required subset in, the accessors behind
   Morpheme.begin / end / raw_surface, the InfoSubset bits *)
Fact C19_py_facts_ok : py_facts_ok.
Proof. unfold py_facts_ok. repeat split; vm_compute; reflexivity. Qed.
Fact C19_reader_facts : reader_facts_ok.
Proof. split; vm_compute; reflexivity. Qed.
Fact C19_normalize_closure : closure_ok = true.
Proof. vm_compute. reflexivity. Qed.

(* what each projection returns (the documentation only lists the names; the meaning is that of the code, stated here):
   surface / normalized / reading / dictionary: that string;  dictionary_and_surface and normalized_and_surface: the raw
   surface for conjugating words (POS component 0 is 動詞, 形容詞 or 助動詞), otherwise the dictionary / normalised form;
   normalized_nouns: the normalised form for words without conjugation form (POS component 5 is "*"), otherwise the raw
   surface.  The POS tuple is the one the grammar lists under the morpheme's POS id (PosMatcher = set of ids). *)
Theorem C19_projection_spec : forall pl k m, project pl k m = Some (project_std pl k m).
Proof. exact (projection_spec C19_py_facts_ok). Qed.
Print Assumptions C19_projection_spec.

Theorem C19_matcher_spec : forall pl mk pid,
  matches pl mk pid = match nth_error pl (N.to_nat pid) with Some p => pos_pred mk p | None => false end.
Proof. exact matches_spec. Qed.
Print Assumptions C19_matcher_spec.

(* accepted names <-> kinds, one-to-one; every other string is an error; the documented list is exactly the accepted one *)
Theorem C19_projection_names :
  (forall k, kind_of_name (name_of k) = Some k) /\
  (forall n k, kind_of_name n = Some k -> n = name_of k) /\
  (forall n, ~ In n (map name_of all_kinds) -> kind_of_name n = None) /\
  PF.documented_projections = map name_of all_kinds.
Proof. exact (projection_names C19_py_facts_ok). Qed.
Print Assumptions C19_projection_names.

(* a projection's result is a function of the raw surface and of the accessors [reads k]; each of them is requested by
   required_subset k -- EXCEPT the POS id, which dictionary_and_surface / normalized_and_surface / normalized_nouns read
   although required_subset does not contain POS_ID ... *)
Theorem C19_projection_reads_only_required :
  (forall pl k surf i j, (forall a, In a (reads k) -> accessor a i = accessor a j) ->
     project pl k (view_of surf i) = project pl k (view_of surf j)) /\
  (forall k a, In a (reads k) -> a = A_pos \/ N.testbit (required_subset k) (acc_flag a) = true) /\
  (forall k, In A_pos (reads k) -> exists b, 3 <= b <= 8 /\ N.testbit (required_subset k) b = true).
Proof.
  exact (conj (projection_depends_on_reads C19_py_facts_ok)
              (conj (reads_within_required C19_py_facts_ok) (pos_readers_require_a_later_field C19_py_facts_ok))).
Qed.
Print Assumptions C19_projection_reads_only_required.

(* ... which is sound only because pos_id is a "light" field of the binary word info lying BEFORE every field those kinds
   require: the parser decodes and stores it whenever it walks past it, requested or not *)
Theorem C19_pos_id_loaded_with_any_later_field :
  forall lx has_syn wid L1 L2 i1 i2 k1 k2,
  get_word_info lx has_syn wid L1 = Some i1 -> get_word_info lx has_syn wid L2 = Some i2 ->
  2 <= k1 <= 8 -> N.testbit L1 k1 = true -> 2 <= k2 <= 8 -> N.testbit L2 k2 = true ->
  accessor A_pos i1 = accessor A_pos i2.
Proof. exact (pos_loaded C19_reader_facts). Qed.
Print Assumptions C19_pos_id_loaded_with_any_later_field.

(* hence: a tokenizer created with fields=F and projection P (the binding hands F | required_subset P to set_subset, which
   loads normalize of it) serves P correctly for EVERY one of the 1024 field sets F, every kind P, every word of every
   lexicon whose entries parse: the projected string computed from the restricted word info is the one computed from the
   fully loaded word info *)
Theorem C19_projection_served_for_every_field_set :
  forall lx has_syn wid F k pl surf iA,
  lex_ok lx -> F < 1024 -> get_word_info lx has_syn wid ALL = Some iA ->
  (forall iS, get_word_info lx has_syn wid (loaded_subset F (Some k)) = Some iS ->
              project pl k (view_of surf iS) = project pl k (view_of surf iA)) /\
  (k <> PSurface -> exists iS, get_word_info lx has_syn wid (loaded_subset F (Some k)) = Some iS).
Proof. exact (projection_served_for_every_field_set C19_py_facts_ok C19_reader_facts C19_normalize_closure). Qed.
Print Assumptions C19_projection_served_for_every_field_set.

(* parse_field_subset: every documented name sets exactly its InfoSubset bit ('pos' and 'pos_id' the same one), no
   argument = all fields, a set of names = the union of their bits, one unknown name = error *)
Theorem C19_fields_spec :
  (forall n, field_bit n = option_map (N.shiftl 1) (flag_bit_of_field n)) /\
  parse_field_subset None = Some ALL /\
  (forall names, parse_field_subset (Some names) = mask_spec names).
Proof. exact (fields_spec C19_py_facts_ok). Qed.
Print Assumptions C19_fields_spec.

Theorem C19_fields_known_names :
  forall names, (forall n, In n names -> flag_bit_of_field n <> None) ->
  exists m, mask_spec names = Some m /\
            forall b, N.testbit m b = true <-> exists n, In n names /\ flag_bit_of_field n = Some b.
Proof. exact mask_spec_known. Qed.
Print Assumptions C19_fields_known_names.

Theorem C19_fields_unknown_name_is_error :
  forall names n, In n names -> flag_bit_of_field n = None -> mask_spec names = None.
Proof. exact mask_spec_unknown. Qed.
Print Assumptions C19_fields_unknown_name_is_error.

(* Morpheme.begin() / end() count code points of the ORIGINAL text and text[begin:end] == raw_surface(): corollary of
   C08_morpheme_offsets for the accessors the binding calls (begin_c / end_c / surface, read from python/src/morpheme.rs) *)
Fact C19_buffer_facts : Buffer.cfg_ok Buffer.the_cfg = true.
Proof. vm_compute. reflexivity. Qed.

Fact C19_py_offset_facts : PyOffsets.py_offset_facts_ok.
Proof. repeat split; vm_compute; reflexivity. Qed.

Theorem C19_python_offsets :
  forall o s n, Buffer.wf_text o = true -> BufferProofs.Reach Buffer.the_cfg o s -> BufferCharProofs.rnode_ok (Buffer.cur s) n ->
  exists b e,
    (b <= e)%nat /\
    PyOffsets.py_begin Buffer.the_cfg s n = Some (Buffer.codepoints_before o b) /\
    PyOffsets.py_end Buffer.the_cfg s n = Some (Buffer.codepoints_before o e) /\
    (Buffer.codepoints_before o b <= Buffer.codepoints_before o e)%nat /\
    PyOffsets.py_raw_surface s n = Some (Buffer.byte_slice o (b, e)) /\
    Buffer.cp_slice o (Buffer.codepoints_before o b) (Buffer.codepoints_before o e) = Buffer.byte_slice o (b, e).
Proof. exact (PyOffsets.python_offsets Buffer.the_cfg C19_buffer_facts C19_py_offset_facts). Qed.
Print Assumptions C19_python_offsets.

(* ---- Dictionary.lookup / MorphemeList::lookup (analysis/mlist.rs, python/src/dictionary.rs) ---- *)
From SudachiVerif Require Model.Trie Model.WordIdTable Model.LexSet Model.LookupAll Proofs.TrieProofs Proofs.LexSetProofs Proofs.LookupAllProofs.
From SudachiVerif Require Generated.LookupFacts Generated.LexFacts.

(* fact obligations: the loop of MorphemeList::lookup is `for e in lex.lookup(query, 0)` with exactly ONE `continue`, guarded by
   `e.end != query.len()`, no `break`, no `return`; behind the guard nothing is conditional, one node carrying e.word_id is
   pushed and counted.  The requested fields are normalised before word infos are loaded; the binding clears the list,
   hands its argument on untouched and asks for all fields.  The word-id layout and the search order are those of C04 / C12. *)
Fact C19_fact_lookup_loop : LookupAllProofs.lookup_loop_ok = true.
Proof. vm_compute. reflexivity. Qed.
Fact C19_fact_lookup_glue : LookupAllProofs.lookup_glue_ok = true.
Proof. vm_compute. reflexivity. Qed.
Fact C19_fact_lookup_layout : LexSetProofs.layout_ok = true.
Proof. vm_compute. reflexivity. Qed.
Fact C19_fact_lookup_last_dictionary_first : Generated.LexFacts.lookup_reversed = true.
Proof. reflexivity. Qed.

(* the loop keeps exactly the entries that end at the end of the query, in the order of the walk *)
Theorem C19_lookup_is_filter : forall n es,
  LookupAll.keep_full n es = map fst (filter (fun we => (snd we =? n)%N) es).
Proof. exact (LookupAllProofs.keep_full_spec C19_fact_lookup_loop). Qed.
Print Assumptions C19_lookup_is_filter.

(* (a) for ANY stack of lexicons and ANY tries / tables: whenever the call answers, its answer is -- in order, nothing
   missing, nothing added -- what every lexicon stores under the WHOLE query (the ids of the table group of the key, stamped
   with the number of the lexicon), the lexicons in search order; shorter keys a lexicon holds contribute nothing *)
Theorem C19_lookup_exact : forall lexs q ids,
  LookupAll.lookup_all lexs q = Some ids -> ids = LookupAll.held_all lexs q.
Proof. exact (LookupAllProofs.lookup_all_held C19_fact_lookup_loop). Qed.
Print Assumptions C19_lookup_exact.

(* (a) closed against the SOURCE lexicons: for every stack of dictionaries that pass the certificate of C04 (any number the
   word-id layout admits) and every byte query, the call answers, and the answer is exactly -- completeness and soundness, in
   order -- the indexed rows whose surface is the query: last dictionary first, rows of one dictionary in file order *)
Theorem C19_lookup_rows : forall fuel lexs rowss q,
  Forall2 (fun L rows => LexSetProofs.cert_prop L rows fuel) lexs rowss -> (List.length lexs <= 16)%nat -> TrieProofs.bytes q ->
  LookupAll.lookup_all lexs q = Some (LookupAll.rows_answer rowss q).
Proof. exact (LookupAllProofs.lookup_all_rows C19_fact_lookup_loop C19_fact_lookup_layout). Qed.
Print Assumptions C19_lookup_rows.

Theorem C19_lookup_rows_of_certificate : forall fuel lexs rowss q,
  Forall2 (fun L rows => LexSet.cert_lex L rows fuel = true) lexs rowss -> (List.length lexs <= 16)%nat -> TrieProofs.bytes q ->
  LookupAll.lookup_all lexs q = Some (LookupAll.rows_answer rowss q).
Proof.
  intros fuel lexs rowss q HF. apply (C19_lookup_rows fuel).
  induction HF as [|L rows t rt H _ IH]; constructor; [exact (LexSetProofs.cert_parts L rows fuel H)|exact IH].
Qed.
Print Assumptions C19_lookup_rows_of_certificate.

Theorem C19_lookup_answer_members : forall rowss q w,
  In w (LookupAll.rows_answer rowss q) <->
  exists d rows r, nth_error rowss d = Some rows /\ In r (LexSet.rows_with q rows) /\ w = LexSet.stamp (N.of_nat d) r.
Proof. exact LookupAllProofs.rows_answer_in. Qed.
Print Assumptions C19_lookup_answer_members.

(* (b) nothing of a dictionary searched later is lost: every indexed row of EVERY dictionary of the stack with the surface of
   the query is in the answer -- whatever the dictionaries searched earlier hold (the query itself, proper prefixes of it) *)
Theorem C19_lookup_keeps_every_dictionary : forall fuel lexs rowss q,
  Forall2 (fun L rows => LexSetProofs.cert_prop L rows fuel) lexs rowss -> (List.length lexs <= 16)%nat -> TrieProofs.bytes q ->
  forall d rows r, nth_error rowss d = Some rows -> In r (LexSet.rows_with q rows) ->
  exists ids, LookupAll.lookup_all lexs q = Some ids /\ In (LexSet.stamp (N.of_nat d) r) ids.
Proof. exact (LookupAllProofs.lookup_all_keeps_every_dictionary C19_fact_lookup_loop C19_fact_lookup_layout). Qed.
Print Assumptions C19_lookup_keeps_every_dictionary.

(* .. spelt out for [system; user 1; user 2]: user 2's rows, then ALL of user 1's, then ALL of the system dictionary's *)
Theorem C19_lookup_three_dictionaries : forall r0 r1 r2 q,
  LookupAll.rows_answer [r0; r1; r2] q =
  map (LexSet.stamp 2) (LexSet.rows_with q r2) ++ map (LexSet.stamp 1) (LexSet.rows_with q r1) ++ map (LexSet.stamp 0) (LexSet.rows_with q r0).
Proof. exact (LookupAllProofs.rows_answer_three C19_fact_lookup_last_dictionary_first). Qed.
Print Assumptions C19_lookup_three_dictionaries.

(* ---- `sudachi build` / `sudachi ubuild`: file handling of the tool (sudachi-cli/src/build.rs) ---- *)
From SudachiVerif Require Model.CliBuild Proofs.CliBuildProofs.
From SudachiVerif Require Generated.CliBuildFacts.

(* the lexicon files reach the builder in the order and multiplicity of the command line: the loop around read_lexicon
   iterates cmd.inputs itself, hands its variable on, the list is mentioned nowhere else and the file calls nothing that
   sorts / de-duplicates / filters / extends a sequence *)
Fact C19_fact_build_inputs_in_order : CliBuild.build_inputs_ok = true.
Proof. vm_compute. reflexivity. Qed.

(* [matrix,] lexicons, resolve, output opened, compile, report -- and the report is only reached with everything compiled
   flushed and the outcome of the flush checked *)
Fact C19_fact_build_output_flushed : CliBuild.build_output_ok = true.
Proof. vm_compute. reflexivity. Qed.

Theorem C19_build_flush_spec : forall steps a b c,
  CliBuild.flushed_before_report false steps = true ->
  steps = (a ++ "compile"%string :: b ++ "report"%string :: c)%list -> ~ In "compile"%string b -> In "flush_checked"%string b.
Proof. exact CliBuildProofs.single_compile_flushed. Qed.
Print Assumptions C19_build_flush_spec.
