(* C03 — tokenization is total within the documented limits.  The logic is proved here; the runtime part (no panic of the
   real code on hostile inputs, every accessor callable) is the implementation-side run of the check and is labelled a test. *)
From Coq Require Import List ZArith NArith String Lia.
From SudachiVerif Require Import Model.Lattice Model.LatticeM Model.BuildLattice
     Proofs.LatticeProofs Proofs.LatticeMProofs Proofs.BuildLatticeProofs Proofs.PanicSitesClassified Proofs.TotalitySimple.
From SudachiVerif Require Model.Oov.
From SudachiVerif Require Generated.Limits Generated.PanicSites Generated.ConnFacts.
From SudachiVerif Require Import Proofs.SiteCover.
Open Scope Z_scope.

(* With a fallback OOV provider (one that yields a word [p, e), p < e <= n, whenever nothing else was created at p)
   lattice construction succeeds for every text of n characters, whatever the other candidates are. *)
Theorem C03_fallback_total :
  forall (conn : N -> N -> Z) (cands : nat -> list node) (fallback : nat -> option node) (n : nat),
    (forall p m, In m (cands p) -> node_wf n p m) ->
    (forall p, (p < n)%nat -> exists f, fallback p = Some f /\ node_wf n p f) ->
    exists L e, build conn cands fallback n = Some (L, e).
Proof. exact fallback_total. Qed.
Print Assumptions C03_fallback_total.

(* ... and the Simple OOV provider, as modelled for C13 (Model/Oov.v: one candidate reaching to the next permissible word
   start whenever nothing was created), is such a fallback: with it as the last provider every text of length(cs) > 0
   characters gets a connected lattice, whatever the dictionary and the other providers offer. *)
Theorem C03_fallback_total_simple :
  forall (conn : N -> N -> Z) (cands : nat -> list node) (o : Model.Oov.oovdef) (cs : list N),
    (forall p m, In m (cands p) -> node_wf (List.length cs) p m) ->
    exists L e, build conn cands (simple_fallback o cs) (List.length cs) = Some (L, e).
Proof. exact fallback_total_simple. Qed.
Print Assumptions C03_fallback_total_simple.

(* No overflow, no clash with the i32::MAX sentinel, no panic in the Viterbi search when costs are bounded. *)
Theorem C03_no_overflow_if_bounded :
  forall (checked : bool) (conn : N -> N -> Z) K1 K2,
    (forall l r, - K1 <= conn l r <= K1) -> 0 <= K1 -> 0 <= K2 ->
    forall len ns,
    (forall n, In n ns -> (nbeg n < nend n)%nat /\ (nend n <= len)%nat /\ - K2 <= ncost n <= K2) ->
    (Z.of_nat len + 1) * (K1 + K2) < MAX32 ->
    let L := insert_all conn (reset len) ns in
    exists cs, minsert_all checked conn (mreset len) ns = Ok (embL L, cs) /\
               mconnect_eos checked conn (embL L) = Ok (connect_eos conn L).
Proof. exact i32_exact_if_bounded. Qed.
Print Assumptions C03_no_overflow_if_bounded.

(* every `as u16` of a byte or character position of an accepted text is lossless *)
Theorem C03_positions_fit_u16 :
  forall x : N, (x <= Generated.Limits.REALLY_MAX_LENGTH)%N -> (x mod 65536 = x)%N.
Proof. intros x H. apply N.mod_small. unfold Generated.Limits.REALLY_MAX_LENGTH in H. lia. Qed.
Print Assumptions C03_positions_fit_u16.

(* ---- obligations on regenerated facts ---- *)
Lemma C03_fact_limits :
  (Generated.Limits.MAX_LENGTH <= Generated.Limits.REALLY_MAX_LENGTH)%N /\
  (Generated.Limits.REALLY_MAX_LENGTH <= 65535)%N /\
  Generated.Limits.MAX_LENGTH = 49149%N /\ Generated.Limits.REALLY_MAX_LENGTH = 65535%N.
Proof. vm_compute. repeat split; intro; discriminate. Qed.
(* with i16 costs (|c| <= 32768) the bound of C03_no_overflow_if_bounded holds up to 32766 characters *)
Lemma C03_fact_bound_i16 : (32766 + 1) * (32768 + 32768) < MAX32.
Proof. vm_compute. reflexivity. Qed.
(* one-directional: per file and kind at most the classified count (a site that disappears needs no new justification, a
   new one re-opens the obligation) *)
Lemma C03_fact_panic_sites : counts_le Generated.PanicSites.sites classified = true.
Proof. vm_compute. reflexivity. Qed.
Lemma C03_fact_conn_index_in_range :
  forall l r nl nr, (l < nl)%N -> (r < nr)%N -> (Generated.ConnFacts.conn_index l r nl nr < nl * nr)%N.
Proof. intros l r nl nr Hl Hr. unfold Generated.ConnFacts.conn_index. nia. Qed.

(* ==================================================================================================================
   analysis/lattice.rs: "reviewed" turned into "proved" (Model/LatticeP.v, Proofs/LatticePProofs.v).
   LatticeP models the three parallel arrays as the code keeps them and returns `PPanic site` exactly where Rust's
   indexing, usize subtraction, debug assertion, i32 addition (overflow checks) would panic, `PUB` where get_unchecked
   would leave the table; it is compared with the real Lattice on well-formed AND deliberately ill-formed nodes on every run. *)
From SudachiVerif Require Import Model.LatticeP Proofs.LatticePProofs Proofs.LatticeSitesClassified.
From SudachiVerif Require Generated.LatticeSites.

(* ConnectionMatrix::cost(left, right) with both ids below the dimensions of a matrix whose table has num_left*num_right
   entries: the three debug assertions hold and the unchecked read is inside the table *)
Theorem C03_conn_cost_in_table :
  forall (dbg : bool) (nl nr : N) (data : list Z), matrix_ok nl nr data = true ->
  forall l r, (l < nl)%N -> (r < nr)%N -> exists c, pconn dbg nl nr data l r = POk c.
Proof. exact pconn_ok. Qed.
Print Assumptions C03_conn_cost_in_table.

(* One Lattice object through ANY number of analyses, starting from ANY earlier state L0 (outer vectors of any lengths,
   stale rows): each analysis = reset(len), insert(node) for candidate words in any order, connect_eos, fill_top_path,
   node(id) for every id of the path (what build_lattice + resolve_best_path do).
   round_wf: 1 <= len <= 65535; every node has begin < end <= len and ids below the matrix dimensions; at most 65535
   words end at the same boundary.
   Then no index expression, no usize subtraction, no unwrap, no debug assertion panics, the connection matrix is never
   read outside its table, and fill_top_path terminates: the only possible panic is the i32 addition under overflow
   checks (excluded by C03_no_overflow_if_bounded within its cost bound; the recorded finding beyond it). *)
Theorem C03_lattice_no_index_panic :
  forall (dbg ovf : bool) (nl nr : N) (data : list Z), matrix_ok nl nr data = true ->
  forall (rs : list (nat * list node)) (L0 : plat),
    forallb (round_wf nl nr data) rs = true ->
    no_index_panic (prounds dbg ovf nl nr data L0 rs).
Proof. exact lattice_no_index_panic. Qed.
Print Assumptions C03_lattice_no_index_panic.

(* without overflow checks (release profile: the additions wrap) nothing panics at all *)
Theorem C03_lattice_no_panic_release :
  forall (dbg : bool) (nl nr : N) (data : list Z), matrix_ok nl nr data = true ->
  forall (rs : list (nat * list node)) (L0 : plat),
    forallb (round_wf nl nr data) rs = true ->
    exists r, prounds dbg false nl nr data L0 rs = POk r.
Proof. exact lattice_no_panic_release. Qed.
Print Assumptions C03_lattice_no_panic_release.

(* the index expressions / unwraps / casts / usize subtractions of lattice.rs, per function, are among the ones the model was
   written for (keys of gen/sitekeys.py, multiset inclusion per function: Proofs/SiteCover.v) *)
Lemma C03_fact_lattice_sites : covered Generated.LatticeSites.lattice_site_keys lattice_keys_classified = true.
Proof. vm_compute. reflexivity. Qed.
(* ... and they are all of them: the per-function lists add up to the inventory counts of Generated/PanicSites.v *)
Lemma C03_fact_lattice_sites_total :
  inventory_count Generated.PanicSites.sites "analysis/lattice.rs" "index_expr" = Some Generated.LatticeSites.lattice_index_total
  /\ inventory_count Generated.PanicSites.sites "analysis/lattice.rs" "unwrap" = Some Generated.LatticeSites.lattice_unwrap_total
  /\ inventory_count Generated.PanicSites.sites "analysis/lattice.rs" "narrowing_cast" = Some Generated.LatticeSites.lattice_cast_total.
Proof. vm_compute. repeat split; reflexivity. Qed.

(* ==================================================================================================================
   resolve_best_path and the accessors of Morpheme (Proofs/AccessorsNoPanic.v; the tables of InputBuffer are builder A's
   Model/Buffer.v with the laws of Proofs/BufferCharProofs.v).  `None` in these models = an index / slice panic or a
   failed debug assertion. *)
From SudachiVerif Require Import Model.Buffer Proofs.BufferProofs Proofs.BufferCharProofs Proofs.AccessorsNoPanic Proofs.AccessorSitesClassified.
From SudachiVerif Require Generated.AccessorSites.

Fact C03_fact_buffer_cfg : cfg_ok the_cfg = true /\ guards_ok the_cfg = true.
Proof. vm_compute. split; reflexivity. Qed.

(* one step of resolve_best_path on a lattice node begin <= end <= number of characters of the rewritten text:
   curr_slice_c and both to_curr_byte_idx answer, the `as u16` of the byte offsets are lossless, and the result node's
   character and byte coordinates agree (rnode_ok) *)
Theorem C03_resolve_node_ok :
  forall o s (n : Lattice.node), wf_text o = true -> Reach the_cfg o s ->
    (Lattice.nbeg n <= Lattice.nend n)%nat -> (Lattice.nend n <= char_len (cur s))%nat ->
    exists rn sl, resolve_node (cur s) n = Some (rn, sl) /\ rnode_ok (cur s) rn
                  /\ rn_bc rn = Lattice.nbeg n /\ rn_ec rn = Lattice.nend n.
Proof. exact (resolve_node_ok the_cfg (proj1 C03_fact_buffer_cfg) (proj2 C03_fact_buffer_cfg)). Qed.
Print Assumptions C03_resolve_node_ok.

(* every node list that is a boundary-aligned chain of byte ranges over a reachable, non-empty buffer (what the
   path-rewrite plugins and the A/B split leave: C01's path_ok_b): each range is the range of a result node whose
   character coordinates are ch_idx of its ends, and begin / end / begin_c / end_c / surface all answer *)
Theorem C03_chain_accessors_ok :
  forall o s (p : list (nat * nat)), wf_text o = true -> Reach the_cfg o s -> cur s <> nil ->
    path_ok_b (cur s) p = true ->
    Forall (fun r => exists bc ec, ch_idx the_cfg (cur s) (fst r) = Some bc /\ ch_idx the_cfg (cur s) (snd r) = Some ec
                                   /\ rnode_ok (cur s) (mkRN bc ec (fst r) (snd r))
                                   /\ accessors_ok the_cfg s (mkRN bc ec (fst r) (snd r))) p.
Proof. exact (chain_accessors_ok the_cfg (proj1 C03_fact_buffer_cfg)). Qed.
Print Assumptions C03_chain_accessors_ok.

(* the lattice and the accessors together: build_lattice resets the lattice to the number of characters of the built
   buffer and inserts well-formed candidates; the nodes resolve_best_path walks over are inserted candidates, each
   resolves to a result node without an index / slice panic, and every accessor of that result node answers
   (okp ovf P x: x = POk v with P v, or - only with overflow checks - the i32 addition of connect_node) *)
Theorem C03_accessors_no_index_panic :
  forall (dbg ovf : bool) (nl nr : N) (data : list Z), matrix_ok nl nr data = true ->
  forall (L0 : plat) o s (ns : list Lattice.node), wf_text o = true -> Reach the_cfg o s ->
    round_wf nl nr data (char_len (cur s), ns) = true ->
    okp ovf (fun p => Forall (fun n => exists rn sl, resolve_node (cur s) n = Some (rn, sl) /\ accessors_ok the_cfg s rn) p)
        (pround_path dbg ovf nl nr data L0 (char_len (cur s)) ns).
Proof. exact (lattice_path_accessors_ok the_cfg (proj1 C03_fact_buffer_cfg) (proj2 C03_fact_buffer_cfg)). Qed.
Print Assumptions C03_accessors_no_index_panic.

Lemma C03_fact_accessor_sites :
  covered Generated.AccessorSites.accessor_site_keys accessor_keys_classified = true
  /\ Generated.AccessorSites.resolve_best_path_calls = resolve_best_path_calls_classified
  /\ Generated.AccessorSites.morpheme_accessors = morpheme_accessors_classified.
Proof. vm_compute. repeat split; reflexivity. Qed.

(* ==================================================================================================================
   The two machine-level models of lattice.rs agree (Proofs/LatticePM.v): on round_wf input the panicking-index model
   returns POk exactly with the values of Model/LatticeM.v (the costs every insert returns, the EOS predecessor and
   cost), and stops at the i32 addition exactly when LatticeM does.  mconn = the matrix as a total function. *)
From SudachiVerif Require Import Proofs.LatticePM.

Theorem C03_lattice_models_agree :
  forall (dbg ovf : bool) (nl nr : N) (data : list Z), matrix_ok nl nr data = true ->
  forall (L0 : plat) (len : nat) (ns : list node), round_wf nl nr data (len, ns) = true ->
    exists L1, preset L0 len = POk L1 /\
    match minsert_all ovf (mconn nl nr data) (mreset len) ns with
    | LatticeM.Ok (LM, cs) =>
        exists LP, pinsert_all dbg ovf nl nr data L1 ns = POk (LP, cs) /\ LatticePM.Rel LP LM /\ LatticePProofs.Inv nl len nil LP /\
          match mconnect_eos ovf (mconn nl nr data) LM with
          | LatticeM.Ok e => exists LP', pconnect_eos dbg ovf nl nr data LP = POk (LP', is_some e)
                                /\ (forall r i c, e = Some (r, i, c) -> p_eos LP' = Some ((r, i), c))
          | LatticeM.Panic => pconnect_eos dbg ovf nl nr data LP = PPanic S_add_overflow
          end
    | LatticeM.Panic => pinsert_all dbg ovf nl nr data L1 ns = PPanic S_add_overflow
    end.
Proof. exact models_agree. Qed.
Print Assumptions C03_lattice_models_agree.

(* ONE statement for the lattice: under the cost bound of C03_no_overflow_if_bounded (every matrix entry within K1, every
   word cost within K2, (len + 1) * (K1 + K2) < i32::MAX per analysis) nothing panics, in the debug profile (debug
   assertions, overflow checks) as well as in release: no index, no unwrap, no assertion, no i32 overflow, no read
   outside the matrix; through any number of analyses on one Lattice object from any earlier state *)
Theorem C03_lattice_never_panics_debug :
  forall (dbg ovf : bool) (nl nr : N) (data : list Z), matrix_ok nl nr data = true ->
  forall K1 K2 : Z, (0 <= K1)%Z -> (0 <= K2)%Z -> (forall z, In z data -> (- K1 <= z <= K1)%Z) ->
  forall (rs : list (nat * list node)) (L0 : plat),
    forallb (round_wf nl nr data) rs = true -> Forall (round_bounded K1 K2) rs ->
    exists r, prounds dbg ovf nl nr data L0 rs = POk r.
Proof. exact prounds_never_panic. Qed.
Print Assumptions C03_lattice_never_panics_debug.

(* ==================================================================================================================
   Further site-level statements (Proofs/SitesConcat.v, SitesSplitTrie.v, SitesBuffer.v). *)
From SudachiVerif Require Import Proofs.SitesConcat Proofs.SitesSplitTrie Proofs.SitesBuffer Proofs.MoreSitesClassified.
From SudachiVerif Require Generated.MoreSites Generated.TrieBits.

(* node.rs concat_nodes / concat_oov_nodes with every index expression, the usize subtraction end_bytes - beg_bytes and
   the u16 addition of head word lengths written out (pconcat): for a proper range inside the path whose nodes form a
   byte chain of a text of at most 65535 bytes and carry head word lengths not above their byte spans, nothing panics and
   the result is the merged path of builder G's model *)
Theorem C03_concat_no_panic :
  forall (hwl : Rewrite.node -> N) (ovf : bool) (merge : list Rewrite.node -> Rewrite.node) (p : list Rewrite.node) (b e : nat),
    (b < e)%nat -> (e <= List.length p)%nat -> bchain (Rewrite.slice p b e) ->
    (forall n, In n (Rewrite.slice p b e) -> (hwl n <= N.of_nat (Rewrite.be n - Rewrite.bb n))%N) ->
    (forall n, In n (Rewrite.slice p b e) -> (N.of_nat (Rewrite.be n) <= 65535)%N) ->
    pconcat hwl ovf merge p b e = COk (firstn b p ++ merge (Rewrite.slice p b e) :: skipn e p)%list.
Proof. exact pconcat_ok. Qed.
Print Assumptions C03_concat_no_panic.

Theorem C03_concat_agrees_with_rewrite_model :
  forall hwl ovf p b e nf q, pconcat_nodes hwl ovf p b e nf = COk q -> Rewrite.concat_nodes p b e nf = Rewrite.Ok q.
Proof. exact pconcat_nodes_agrees. Qed.
Print Assumptions C03_concat_agrees_with_rewrite_model.

(* NodeSplitIterator::next (Model/Split.v, None = the index mod_b2c[byte_end] out of range): with head_word_length =
   key length for every unit, a panic implies that the declared units do not spell the node's text (units_wf fails);
   and such declarations do panic: the recorded finding c06_split_surface_mismatch *)
Theorem C03_split_panics_only_on_ill_formed_units :
  (forall hw key t n us,
     (forall u, In u us -> hw u = Split.blen (key u)) -> us <> nil ->
     Split.split_node hw t n us = None -> ~ SplitProofs.units_wf key t n us)
  /\ (exists hw key t n us,
        (forall u, In u us -> hw u = Split.blen (key u)) /\ Split.split_node hw t n us = None
        /\ ~ SplitProofs.units_wf key t n us).
Proof.
  split; [exact split_panics_only_on_ill_formed_units|].
  exists ex_hw, ex_key, (97 :: 98 :: nil)%N, (Split.mkNode 0 2 0 2 7), (3 :: 2 :: nil)%N.
  destruct split_ill_formed_units_panic as (A & B & C). auto.
Qed.
Print Assumptions C03_split_panics_only_on_ill_formed_units.

(* trie.rs: on a certified double array no read (get_unchecked behind debug_assert!(index < len)) is out of bounds, for
   every byte text and offset.  The loader does NOT certify: see the finding c03_damaged_dictionary *)
Theorem C03_trie_reader_no_index_panic :
  forall a fuel ks text off, Trie.keys_of a fuel = Some ks -> TrieProofs.bytes text ->
    exists r, Trie.traverse_opt a text off = Some r.
Proof. exact trie_reader_no_index_panic. Qed.
Print Assumptions C03_trie_reader_no_index_panic.

Fact C03_fact_wid_group_limit : (Generated.TrieBits.WID_MAX_GROUP <= 255)%N.
Proof. vm_compute. intro H; discriminate H. Qed.

Theorem C03_wid_table_reader_no_index_panic :
  forall gs tbl offs, WordIdTable.encode_groups gs = Some (tbl, offs) -> (forall g, In g gs -> Forall WordIdTableProofs.u32 g) ->
    forall o, In o offs -> exists g, WordIdTable.entries tbl o = Some g.
Proof. exact (wid_table_reader_no_index_panic C03_fact_wid_group_limit). Qed.
Print Assumptions C03_wid_table_reader_no_index_panic.

(* edit.rs: resolve_edits / add_replace on an edits_ok batch over a reachable buffer never panic at a slice or an index *)
Theorem C03_resolve_edits_no_index_panic :
  forall o s es, wf_text o = true -> Reach the_cfg o s -> edits_ok (cur s) es = true ->
    resolve the_cfg (cur s) (m2o s) es 0 (Z.of_nat (List.length (cur s))) <> RPanic.
Proof. exact (commit_no_index_panic the_cfg (proj1 C03_fact_buffer_cfg)). Qed.
Print Assumptions C03_resolve_edits_no_index_panic.

(* build(): every index written into mod_bow is below its length, and the offsets of char_indices() increase *)
Theorem C03_build_writes_in_range :
  (forall t p, In p (c2b_scan t 0) -> (p < List.length t)%nat)
  /\ (forall t i a b l1 l2, c2b_scan t i = (l1 ++ a :: b :: l2)%list -> (a < b)%nat).
Proof. exact (conj build_bow_writes_in_range c2b_scan_sorted). Qed.
Print Assumptions C03_build_writes_in_range.

Lemma C03_fact_more_sites : covered Generated.MoreSites.more_site_keys more_keys_classified = true.
Proof. vm_compute. reflexivity. Qed.
