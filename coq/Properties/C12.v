(* C12 — Layered user dictionaries keep ids, parts of speech and references straight.
   Only property theorems here; each is closed by `exact` of a lemma proved in Proofs/. *)
From Coq Require Import List NArith ZArith.
From SudachiVerif Require Generated.LexFacts.
From SudachiVerif Require Import Model.Trie Model.WordIdTable Model.LexSet Proofs.TrieProofs Proofs.LexSetProofs.
From SudachiVerif Require Model.Codec Model.CodecResolve Model.LexSetResolve Proofs.CodecResolveProofs Proofs.LexSetResolveProofs.
Import ListNotations.
Open Scope N_scope.

(* ---- decidable obligations on the facts re-read from the source ---- *)
(* WordId::new / dic / word / oov: dic << 28 | word, mask 2^28-1, OOV dictionary 15 *)
Fact C12_fact_layout : layout_ok = true.
Proof. vm_compute. reflexivity. Qed.
(* is_full is `len >= 15`; rebasing is `dict_id > 0 && pos_id >= num_system_pos`; update_dict_id is `dic > 0` *)
Fact C12_fact_guards : guards_ok = true.
Proof. vm_compute. reflexivity. Qed.
(* the user-dictionary builder preloads only the system dictionary's own POS (the repaired rule) *)
Fact C12_fact_preload : preload_ok = true.
Proof. vm_compute. reflexivity. Qed.

(* the builder resolves inline references and validates plain references `n` against the system dictionary only, also when
   the dictionary it is given already holds user dictionaries (the second repaired rule; behaviour tested by the harness) *)
Fact C12_fact_refs_system_only : Generated.LexFacts.refs_against_system_only = true.
Proof. vm_compute. reflexivity. Qed.

(* for ANY system dictionary, ANY plugin requests (allow/forbid, overlapping) and ANY stack of user dictionaries, each
   compiled against the bare system dictionary or against the configured dictionary as it stands: whenever the
   configuration loads, every word of every layer reports exactly the POS its source row declares *)
Theorem C12_pos_strings_preserved :
  forall sys_reqs sys_idx plugins us s, configure sys_reqs sys_idx plugins us = Some s ->
  (forall j p, declared sys_reqs sys_idx j = Some p -> word_pos s 0 (N.of_nat j) = Some p) /\
  (forall k cf reqs idx j p, nth_error us k = Some (cf, reqs, idx) -> declared reqs idx j = Some p ->
                             word_pos s (N.of_nat (S k)) (N.of_nat j) = Some p).
Proof. exact (pos_strings_preserved C12_fact_guards C12_fact_preload). Qed.
Print Assumptions C12_pos_strings_preserved.

(* OOV plugins: every plugin whose request is granted holds an id that names exactly the POS it asked for, and plugins only
   append to the grammar (system POS ids are untouched) *)
Theorem C12_plugin_pos_preserved : forall reqs pl pl' ids,
  load_plugins pl reqs = Some (pl', ids) ->
  (exists ext, pl' = pl ++ ext) /\ length ids = length reqs /\
  forall k p allow, nth_error reqs k = Some (p, allow) -> nth_error pl' (N.to_nat (nth k ids 0)) = Some p.
Proof. exact (load_plugins_spec C12_fact_guards). Qed.
Print Assumptions C12_plugin_pos_preserved.

(* shape of the grammar after k merges: what was there (system ++ plugin-registered) ++ user table 1 ++ ... ++ user table k *)
Theorem C12_pos_list_shape : forall sys_pos us s sf,
  inv sys_pos s -> stack_users s us sys_pos = Some sf ->
  s_pos_list sf = s_pos_list s ++ flat_map (fun src => u_table (build_dict sys_pos (snd (fst src)) (snd src))) us.
Proof. exact (fun sys_pos => stack_users_shape C12_fact_guards sys_pos C12_fact_preload). Qed.
Print Assumptions C12_pos_list_shape.

(* data of system words does not depend on the user dictionaries: same POS with any stack as with none *)
Theorem C12_system_words_unaffected :
  forall sys_reqs sys_idx plugins us s0 s j p,
  configure sys_reqs sys_idx plugins [] = Some s0 -> configure sys_reqs sys_idx plugins us = Some s ->
  declared sys_reqs sys_idx j = Some p ->
  word_pos s 0 (N.of_nat j) = word_pos s0 0 (N.of_nat j).
Proof.
  exact (fun sys_reqs sys_idx plugins us s0 s j p H0 H Hd =>
           eq_trans (proj1 (pos_strings_preserved C12_fact_guards C12_fact_preload sys_reqs sys_idx plugins us s H) j p Hd)
                    (eq_sym (proj1 (pos_strings_preserved C12_fact_guards C12_fact_preload sys_reqs sys_idx plugins [] s0 H0) j p Hd))).
Qed.
Print Assumptions C12_system_words_unaffected.

(* every entry found by lookup carries the position of the lexicon that supplied it ... *)
Theorem C12_dic_id_is_position : forall lexs text off l w e,
  lookup_set lexs text off = Some l -> In (w, e) l ->
  exists d L ld, nth_error lexs d = Some L /\ lex_lookup L (N.of_nat d) text off = Some ld /\ In (w, e) ld.
Proof. exact (fun lexs text off l w e H Hin => proj1 (lookup_set_in lexs text off l H w e) Hin). Qed.
Print Assumptions C12_dic_id_is_position.

(* ... and a morpheme with word id (d, raw), d < 15, reports dictionary d; an OOV node reports -1 *)
Theorem C12_reported_dictionary : forall d raw, d < 15 -> raw <= WORD_MASK -> reported_dic (stamp d raw) = Z.of_N d.
Proof. exact (reported_dic_stamp C12_fact_layout). Qed.
Print Assumptions C12_reported_dictionary.

Theorem C12_oov_reports_minus_one : forall p, p <= WORD_MASK -> reported_dic (oov_id p) = (-1)%Z.
Proof. exact (reported_dic_oov C12_fact_layout). Qed.
Print Assumptions C12_oov_reports_minus_one.

(* references: (1, w) written by the builder for a word of the same user dictionary becomes (d, w) when the dictionary is
   loaded as number d; (0, w) keeps pointing at the system dictionary; nothing else can come out *)
Theorem C12_split_restamp : forall d w, d < 16 -> w <= WORD_MASK ->
  restamp d [stamp 1 w] = [stamp d w] /\ restamp d [stamp 0 w] = [stamp 0 w].
Proof. exact (split_restamp C12_fact_layout C12_fact_guards). Qed.
Print Assumptions C12_split_restamp.

Theorem C12_restamp_targets : forall d ids w, d < 16 -> In w (restamp d ids) -> dic_of w = 0 \/ dic_of w = d.
Proof. exact (restamp_targets C12_fact_layout C12_fact_guards). Qed.
Print Assumptions C12_restamp_targets.

(* capacity: the system dictionary plus 14 user dictionaries are accepted, a 15th user dictionary is rejected *)
Theorem C12_fifteenth_rejected : forall s us,
  length (s_words s) = 1%nat -> ((exists s', merge_all s us = Some s') <-> (length us <= 14)%nat).
Proof. exact (fifteenth_rejected C12_fact_guards). Qed.
Print Assumptions C12_fifteenth_rejected.

(* ---- tokens made by path rewrite plugins (JoinKatakanaOovPlugin: concat_oov_nodes; JoinNumericPlugin: concat_nodes) ---- *)
(* shapes re-read from analysis/node.rs, config.rs and dictionary.rs: the joined node carries the maximum of its parts' word ids
   ((dic, MAX_WORD) when that is not OOV) resp. WordId::INVALID; every configured userDict entry is one dictionary of the stack *)
Fact C12_fact_join_rule : join_shapes_ok = true.
Proof. vm_compute. reflexivity. Qed.
Fact C12_fact_joined_invalid_is_oov : reported_dic Generated.LexFacts.JOINED_INVALID = (-1)%Z.
Proof. vm_compute. reflexivity. Qed.

(* a joined token with an out-of-vocabulary part is out of vocabulary and reports -1, wherever that part stands *)
Theorem C12_joined_oov_reports_minus_one : forall ws w,
  Forall (fun x => x < 4294967296) ws -> In w ws -> is_oov w = true ->
  is_oov (join_oov_wid ws) = true /\ reported_dic (join_oov_wid ws) = (-1)%Z.
Proof. exact (joined_oov_reports_minus_one C12_fact_layout). Qed.
Print Assumptions C12_joined_oov_reports_minus_one.

(* a joined token made of dictionary words only reports the dictionary of one of its parts *)
Theorem C12_joined_dictionary_parts : forall ws,
  ws <> [] -> Forall (fun x => x < 4294967296) ws -> Forall (fun x => is_oov x = false) ws ->
  exists w, In w ws /\ reported_dic (join_oov_wid ws) = Z.of_N (dic_of w).
Proof. exact (joined_dictionary_parts C12_fact_layout). Qed.
Print Assumptions C12_joined_dictionary_parts.

(* ---- the public accessors (Morpheme::dictionary_id, Morpheme::is_oov) ---- *)
Fact C12_fact_accessor_shape : accessor_shape_ok = true.
Proof. vm_compute. reflexivity. Qed.

(* for every dictionary number 0..14 -- also 8..14, whose number has the top bit of the 4-bit field set -- the accessor returns
   that number; for the OOV sentinel it returns -1; and -1 is returned for nothing else *)
Theorem C12_dictionary_id_accessor :
  (forall d raw, d < 15 -> raw <= WORD_MASK -> reported_dic (stamp d raw) = Z.of_N d /\ is_oov (stamp d raw) = false) /\
  (forall p, p <= WORD_MASK -> reported_dic (oov_id p) = (-1)%Z /\ is_oov (oov_id p) = true) /\
  (forall w, reported_dic w = (-1)%Z <-> is_oov w = true).
Proof. exact (dictionary_id_accessor C12_fact_layout). Qed.
Print Assumptions C12_dictionary_id_accessor.

(* ---- inline split references (composition with C05's resolution model, Model/CodecResolve.v) ---- *)
(* shapes re-read from lexicon_set.rs / build/lexicon.rs / build/parse.rs: each of the three reference lists is re-stamped under
   its own subset flag (behaviour: every word is read under single-list subsets by the correspondence run); a split unit is a
   word id literal only when the whole unit matches ^U?[0-9]+$ (words named `5`, `U1` are referenced inline by generated rows) *)
Fact C12_fact_reference_shapes : reference_shapes_ok = true.
Proof. vm_compute. reflexivity. Qed.

(* a user dictionary loaded as dictionary d whose row holds the inline reference (surface, POS, reading): the loaded word
   reports for it (d, i) with row i of the SAME dictionary the first row that has exactly these three, or -- only when no
   row of the dictionary has them -- (0, i) with system word i the first that has them; in particular never a word of
   the dictionary that merely shares the surface *)
Theorem C12_inline_reference_names_word : forall d own sys s p rd w,
  0 < d < 15 -> N.of_nat (length own) <= 268435456 -> N.of_nat (length sys) <= 268435456 ->
  LexSetResolve.loaded_refs d own sys [CodecResolve.SInline s p rd] = Some [w] ->
  (exists i, dic_of w = d /\ word_of w = N.of_nat i /\ CodecResolveProofs.first_match own i s p rd)
  \/ ((forall k, In k own -> ~ CodecResolveProofs.key_is k s p rd) /\
      exists i, dic_of w = 0 /\ word_of w = N.of_nat i /\ CodecResolveProofs.first_match sys i s p rd).
Proof. exact (LexSetResolveProofs.inline_reference_loaded C12_fact_layout C12_fact_guards). Qed.
Print Assumptions C12_inline_reference_names_word.

(* ---- the plugin set-up sequence over the POS table (plugin/mod.rs Plugins::load) ---- *)
(* Plugins::load sets the OOV providers up BEFORE the path-rewrite plugins (order of the struct fields, re-read every run) *)
Fact C12_fact_plugin_order : plugin_order_ok = true.
Proof. vm_compute. reflexivity. Qed.

(* so the set-up the code performs is "providers first" *)
Theorem C12_setup_is_oov_first : forall pl oov rw, setup pl oov rw = setup_oov_first pl oov rw.
Proof. exact (setup_is_oov_first C12_fact_plugin_order). Qed.
Print Assumptions C12_setup_is_oov_first.

(* for ANY POS table, providers and path-rewrite plugins: when the providers load, every POS a path-rewrite plugin names that is
   in the dictionary or was asked for by ANY provider (registered with userPOS allow, or known) resolves, the whole set-up
   succeeds, and every path-rewrite id names the POS asked for *)
Theorem C12_setup_registered_pos_resolvable : forall pl oov rw pl' ids,
  load_plugins pl oov = Some (pl', ids) ->
  (forall p, In p rw -> In p pl \/ exists allow, In (p, allow) oov) ->
  exists rids, setup_oov_first pl oov rw = Some (pl', ids, rids) /\
               forall k p, nth_error rw k = Some p -> nth_error pl' (N.to_nat (nth k rids 0)) = Some p.
Proof. exact (setup_oov_first_total C12_fact_guards). Qed.
Print Assumptions C12_setup_registered_pos_resolvable.

(* ids handed out earlier never change (the providers only append; compare C12_plugin_pos_preserved / C12_pos_list_shape):
   ids of the dictionary's own POS, of every provider and of every path-rewrite plugin name the same POS after the set-up *)
Theorem C12_setup_ids_stable : forall pl oov rw pl' ids rids,
  setup_oov_first pl oov rw = Some (pl', ids, rids) ->
  (forall i p, nth_error pl i = Some p -> nth_error pl' i = Some p) /\
  (forall k p allow, nth_error oov k = Some (p, allow) -> nth_error pl' (N.to_nat (nth k ids 0)) = Some p) /\
  (forall k p, nth_error rw k = Some p -> nth_error pl' (N.to_nat (nth k rids 0)) = Some p).
Proof. exact (setup_ids_stable C12_fact_guards). Qed.
Print Assumptions C12_setup_ids_stable.

(* the documented order loads everything the swapped order loads, with the same table and ids ... *)
Theorem C12_setup_rewrite_first_weaker : forall pl oov rw r,
  setup_rewrite_first pl oov rw = Some r -> setup_oov_first pl oov rw = Some r.
Proof. exact (setup_rewrite_first_weaker C12_fact_guards). Qed.
Print Assumptions C12_setup_rewrite_first_weaker.

(* ... and strictly more: the swapped order is refuted by a configuration the documented order loads
   (dictionary POS [0]; a provider registers 5 with userPOS allow; a path-rewrite plugin names 5) *)
Theorem C12_setup_swapped_refuted :
  exists pl oov rw, setup_oov_first pl oov rw <> None /\ setup_rewrite_first pl oov rw = None.
Proof. exact setup_swapped_refuted. Qed.
Print Assumptions C12_setup_swapped_refuted.
