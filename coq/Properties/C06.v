(* C06 — The dictionary compiler is total and never emits an invalid dictionary.
   Only the property theorems: each is a generic lemma of Proofs/BuildProofs.v applied to the fact record regenerated from
   the sources (Model.Build.gen_bfacts), under decidable obligations on that record closed by vm_compute. *)
From Coq Require Import List ZArith NArith Bool.
From SudachiVerif Require Import Model.GuardLang Model.Params Model.Build Proofs.GuardProofs Proofs.BuildProofs.
From SudachiVerif Require Import Model.BuildHistory Proofs.BuildHistoryProofs Generated.FieldOrder.
Import ListNotations.
Open Scope Z_scope.

(* obligations on the generated facts: validate_entries rejects left_id >= num_right and, for indexed entries, right_id
   outside 0..num_left; should_index is left_id >= 0; validate_wid rejects word >= max; list length limit <= 127; input
   without a matrix header and a lexicon without indexed entries are errors, not panics; the matrix header rejects negative
   sizes; write_elem rejects coordinates outside the declared dimensions; both index formulas are right*num_left+left; the
   lattice passes (left node's right_id, right node's left_id) *)
Fact C06_generated_guards_ok : bfacts_ok gen_bfacts = true.
Proof. vm_compute. reflexivity. Qed.

(* every panic!/todo!/unwrap/expect/assert!/index site of the anchored builder files is one the model accounts for *)
Fact C06_panic_sites_classified : panic_sites_ok = true.
Proof. vm_compute. reflexivity. Qed.

(* the length prefix of every string the compiler writes (Utf16Writer::write_len: one byte below short_below, else two bytes
   with the high bit of the first one set) is read back as the same number by string_length_parser (a first byte from
   long_from on announces a second one): every one-byte length is below the reader's threshold, every two-byte length fits
   15 bits.  The codec itself is C05's; here it is the part of `success => the dictionary loads` that the run ties with
   strings of 126 .. 32767 code units *)
Fact C06_length_prefix_agrees_with_reader :
  (FieldOrder.short_below <= FieldOrder.long_from)%N /\ (FieldOrder.long_from = 128)%N /\ (FieldOrder.len_max = 32767)%N.
Proof. vm_compute. repeat split; discriminate. Qed.

(* for any matrix text and any rows, compilation ends in success or an error value, never a panic *)
Theorem C06_compile_never_panics : forall inp, build inp <> Panic.
Proof. exact (build_never_panics gen_bfacts C06_generated_guards_ok). Qed.
Print Assumptions C06_compile_never_panics.

(* whenever it reports success the dictionary is valid: indexed entries' ids inside the matrix, references exist, arrays
   and costs within the format limits, every matrix line stored in a cell of the matrix, at least one indexed entry *)
Theorem C06_success_means_valid : forall inp d, input_wf inp -> build inp = Ok d ->
  dict_valid d = true /\ stores_in_range d = true
  /\ 0 <= d_nl d <= 32767 /\ 0 <= d_nr d <= 32767
  /\ map e_splits_concat (d_entries d) = map r_splits_concat (i_recs inp)
  /\ existsb (fun e => 0 <=? e_left e) (d_entries d) = true.
Proof. exact (build_valid gen_bfacts C06_generated_guards_ok). Qed.
Print Assumptions C06_success_means_valid.

(* the arrays of the index respect the format limit as well: the ids of all indexed entries with one (byte-identical)
   surface form one array of the word-id table, and success means that none of them has more than 127 elements -- under
   the facts that IndexBuilder::build_word_id_table writes every such array through write_u32_array and that
   write_u32_array rejects more than 127 elements (both part of C06_generated_guards_ok) *)
Theorem C06_index_arrays_within_limit : forall inp d, build inp = Ok d -> index_lists_ok d = true.
Proof. exact (build_index_ok gen_bfacts C06_generated_guards_ok). Qed.
Print Assumptions C06_index_arrays_within_limit.

(* a compiled dictionary always has the row and column of the BOS/EOS id 0 (the well-formedness C20 assumes of a grammar) *)
Theorem C06_compiled_matrix_nonempty : forall inp d, input_wf inp -> build inp = Ok d -> 1 <= d_nl d /\ 1 <= d_nr d.
Proof. exact (compiled_matrix_nonempty gen_bfacts C06_generated_guards_ok). Qed.
Print Assumptions C06_compiled_matrix_nonempty.

(* consequently the connection lookup analysis performs for any two indexed entries indexes inside the matrix *)
Theorem C06_validated_ids_index_safe : forall inp d a b, input_wf inp -> build inp = Ok d ->
  In a (d_entries d) -> In b (d_entries d) -> 0 <= e_left a -> 0 <= e_left b ->
  let i := iexp_eval (b_matrix_index gen_bfacts) (entry_id (b_arg_left gen_bfacts) a) (entry_id (b_arg_right gen_bfacts) b) (d_nl d) (d_nr d) in
  0 <= entry_id (b_arg_left gen_bfacts) a < d_nl d /\ 0 <= entry_id (b_arg_right gen_bfacts) b < d_nr d /\ 0 <= i < d_nl d * d_nr d.
Proof. exact (validated_ids_index_safe gen_bfacts C06_generated_guards_ok). Qed.
Print Assumptions C06_validated_ids_index_safe.

(* a sink failure is never reported as success, and does not turn into a panic *)
Theorem C06_sink_failure_propagates : forall inp total k d, k < total -> build_sink inp total k <> Ok d.
Proof. exact (sink_failure_propagates gen_bfacts). Qed.
Print Assumptions C06_sink_failure_propagates.

Theorem C06_sink_never_panics : forall inp total k, build_sink inp total k <> Panic.
Proof. exact (sink_never_panics gen_bfacts C06_generated_guards_ok). Qed.
Print Assumptions C06_sink_never_panics.

(* the full statement also asks that the dictionary analyses text without failure, which needs split units that spell the
   headword; the compiler does not check that (known finding c06_split_surface_mismatch, refuted in Witness/C06.v) *)
Definition C06_success_means_valid_full : Prop :=
  forall inp d, input_wf inp -> build inp = Ok d -> dict_valid_full d = true.

Theorem C06_success_means_valid_full_partial : forall inp d, input_wf inp -> build inp = Ok d ->
  forallb r_splits_concat (i_recs inp) = true -> dict_valid_full d = true.
Proof. exact (build_valid_full_partial gen_bfacts C06_generated_guards_ok). Qed.
Print Assumptions C06_success_means_valid_full_partial.

(* ---- repeated compile calls on one builder (compile takes &mut self; a caller may retry after a sink failure) ---- *)

(* facts: ConnBuffer::write_to writes &self.matrix and leaves it in place; nothing reachable from DictBuilder::compile takes
   &mut self of, assigns to, or moves out of builder state (the reporter aside) *)
Fact C06_write_to_keeps_matrix : BuildGuards.conn_write_keeps_matrix = true.
Proof. vm_compute. reflexivity. Qed.

Fact C06_compile_mutates_no_builder_state : BuildGuards.compile_mutated_state = [].
Proof. vm_compute. reflexivity. Qed.

Lemma session_is_keeping : session = run_session gen_bfacts true.
Proof. unfold session. rewrite C06_write_to_keeps_matrix. reflexivity. Qed.

(* idempotence of compile: whatever calls were made before (successes, sink failures at any byte), each call on the same
   builder gives exactly what it gives on the untouched builder *)
Theorem C06_compile_idempotent : forall ks b total moff,
  session b total moff ks = map (fun k => snd (compile_step gen_bfacts true b total moff k)) ks.
Proof. rewrite session_is_keeping. exact (session_idempotent gen_bfacts). Qed.
Print Assumptions C06_compile_idempotent.

(* after any history of calls on a builder, a call that reports success has written the complete dictionary of a fresh build
   of the same input (and its sink took all of it): never success with a different / truncated dictionary *)
Theorem C06_retry_is_fresh_build : forall inp ks total moff k d c,
  nth_error (session (fresh_builder inp) total moff (ks ++ [k])) (List.length ks) = Some (Ok (d, c)) ->
  c = true /\ build inp = Ok d /\ total <= k.
Proof. rewrite session_is_keeping. exact (retry_is_fresh_build gen_bfacts). Qed.
Print Assumptions C06_retry_is_fresh_build.

(* ======================================================================================================================
   The header (Header::write_to, the first thing compile writes; its returned size is the base of every later offset) *)

(* facts: the guard compares the BYTE length of the description with DESCRIPTION_SIZE using `>`, the padding is
   DESCRIPTION_SIZE - len by plain subtraction, STORAGE_SIZE = 8 + 8 + DESCRIPTION_SIZE; every other shape of write_to /
   header_parser / compile's use of the returned size was recognised *)
Fact C06_header_facts_ok : hfacts_ok gen_hfacts = true.
Proof. vm_compute. reflexivity. Qed.

Fact C06_header_shapes_recognised : BuildGuards.header_unrecognised = [].
Proof. vm_compute. reflexivity. Qed.

(* the layout: a description of at most 256 UTF-8 bytes gives exactly STORAGE_SIZE = 272 bytes -- version, time, the
   description bytes, zero padding; a longer one gives an error value: never success with a shifted layout *)
Theorem C06_header_layout : forall v t d,
  let lb := Z.of_nat (List.length (utf8 d)) in
  (lb <= h_size gen_hfacts ->
     header v t d = Ok (le_bytes 8 v ++ le_bytes 8 t ++ utf8 d ++ repeat 0%N (Z.to_nat (h_size gen_hfacts - lb)))
     /\ Z.of_nat (List.length (le_bytes 8 v ++ le_bytes 8 t ++ utf8 d ++ repeat 0%N (Z.to_nat (h_size gen_hfacts - lb)))) = h_storage gen_hfacts)
  /\ (h_size gen_hfacts < lb -> header v t d = Err).
Proof. exact (header_layout gen_hfacts C06_header_facts_ok). Qed.
Print Assumptions C06_header_layout.

Theorem C06_header_never_panics : forall v t d, header v t d <> Panic.
Proof. exact (header_write_never_panics gen_hfacts C06_header_facts_ok). Qed.
Print Assumptions C06_header_never_panics.

(* round trip through Header::parse (description without NUL, 64-bit version and time) *)
Theorem C06_header_roundtrip : forall v t d bs rest,
  (v < 18446744073709551616)%N -> (t < 18446744073709551616)%N -> ~ In 0%N (utf8 d) ->
  header v t d = Ok bs -> header_parse gen_hfacts (bs ++ rest) = Some (v, t, utf8 d).
Proof. exact (header_roundtrip gen_hfacts C06_header_facts_ok). Qed.
Print Assumptions C06_header_roundtrip.

(* ======================================================================================================================
   Call histories on one builder: read_conn / read_lexicon / resolve / compile in any order and repetition, every call
   carried out whatever the earlier ones returned (with what a failing call leaves behind) *)

(* facts: read_conn hands the buffer's dimensions to the lexicon also when reading failed half-way, leaves the limits of a
   user dictionary alone; read_lexicon clears `resolved`; compile validates unconditionally (build_unrecognised = []) *)
Fact C06_history_facts_ok :
  BuildGuards.conn_limits_follow_on_error = true /\ BuildGuards.conn_limits_fixed_for_user = true
  /\ BuildGuards.read_lexicon_clears_resolved = true /\ BuildGuards.build_unrecognised = [].
Proof. repeat split; vm_compute; reflexivity. Qed.

(* the two routes of DictBuilder::read_conn / read_lexicon (a file path, bytes in memory): neither arm of read_conn returns or
   propagates on its own when reading failed -- the dimensions are handed to the lexicon on success AND on failure whichever
   route was taken, nothing of a failed call is kept by one route only --, and both routes of both calls end in the same
   parser (ConnBuffer::read_file -> read, LexiconReader::read_file -> read_bytes, nothing else touching the reader) *)
Fact C06_data_source_routes_agree :
  BuildGuards.conn_file_route_returns_early = false /\ BuildGuards.conn_bytes_route_returns_early = false
  /\ BuildGuards.read_routes_reach_same_parser = true.
Proof. repeat split; vm_compute; reflexivity. Qed.

Lemma history_is_following : history = run_history gen_bfacts true true false false.
Proof.
  unfold history. destruct C06_history_facts_ok as (-> & -> & _). destruct C06_data_source_routes_agree as (-> & -> & _). reflexivity.
Qed.

(* consequently the kind of data source of a call does not matter: every history gives what the same calls give with all
   data handed over as bytes in memory, and the theorems below hold for both routes *)
Theorem C06_history_source_irrelevant : forall ops st, history st ops = history st (map as_bytes ops).
Proof. rewrite history_is_following. exact (history_source_irrelevant gen_bfacts _ _). Qed.
Print Assumptions C06_history_source_irrelevant.

(* C06_success_means_valid for every call history: whatever was called before, in whatever order and with whatever outcome,
   a compile that reports success once a matrix is known (a read_conn got past its header line, or the dictionary is a user
   dictionary) has produced a valid dictionary -- and no call of any history panics *)
Theorem C06_history_success_means_valid : forall ops st, Inv st -> 0 <= hs_nsys st ->
  (forall i r, nth_error (history st ops) i = Some r -> r <> Panic)
  /\ forall i d, nth_error (history st ops) i = Some (Ok (Some d)) ->
       matrix_known (final_state gen_bfacts true true false false st (firstn i ops)) = true ->
       dict_valid d = true /\ stores_in_range d = true.
Proof. rewrite history_is_following. exact (history_success_means_valid gen_bfacts C06_generated_guards_ok). Qed.
Print Assumptions C06_history_success_means_valid.

(* ... and its index arrays are within the limit, however the rows were spread over read_lexicon calls *)
Theorem C06_history_index_arrays_within_limit : forall ops st i d,
  nth_error (history st ops) i = Some (Ok (Some d)) -> index_lists_ok d = true.
Proof. exact (history_index_ok gen_bfacts C06_generated_guards_ok _ _ _ _). Qed.
Print Assumptions C06_history_index_arrays_within_limit.

(* the invariant holds for a fresh system-dictionary builder and for a user-dictionary builder on any loaded grammar *)
Theorem C06_fresh_builders_satisfy_invariant :
  Inv init_system /\ forall a b n, 0 <= a <= 32767 -> 0 <= b <= 32767 -> Inv (init_user a b n).
Proof. exact (conj Inv_init_system Inv_init_user). Qed.
Print Assumptions C06_fresh_builders_satisfy_invariant.

(* ======================================================================================================================
   The other public routes to the compiler (command-line tool `sudachi build` / `ubuild`, Python build_system_dic /
   build_user_dic) wrap compile in a BufWriter.  Fact: each of them flushes the writer after compile and checks the result
   (a BufWriter flushed by Drop ignores I/O errors), so C06_sink_failure_propagates reaches the caller of the route; the
   routes themselves are exercised by the run (normal output = the library's bytes; failing output file => error). *)
Fact C06_front_ends_flush_their_writers : BuildGuards.front_end_unflushed_writers = [].
Proof. vm_compute. reflexivity. Qed.
