(* C14 — Path-rewrite plugins only merge adjacent tokens and preserve the text.
   Only the property theorems; each is closed by `exact` of a lemma proved in Proofs/RewriteProofs.v.
   The model (Model/Rewrite.v) consumes Generated/RewriteFacts.v (category bits, OOV reading of WordId::INVALID, merge
   thresholds, resume indices) and, through the numeral parser, Generated/NumericFacts.v; the theorems below hold for
   every value of those facts, for every fuel, path, plugin chain and setting. *)
From Coq Require Import List NArith.
From SudachiVerif Require Import Model.Rewrite Proofs.RewriteProofs.
Import ListNotations.

(* [grouping A p q]: q is p with consecutive NON-EMPTY groups replaced by one node each; a replaced group's node covers
   the union of the code-point ranges and of the reported byte ranges (begin of the first, end of the last), its dictionary-side surface is the concatenation, its
   part of speech is one of A; every other node of q IS the node of p (unchanged in every field).  A single numeral that
   JoinNumeric re-normalises is a one-element group (DESIGN section 6). *)
Theorem C14_rewrite_is_grouping :
  forall pls p q, run_plugins pls p = Some (Ok q) -> grouping (allowed_by pls) p q.
Proof. exact rewrite_is_grouping. Qed.
Print Assumptions C14_rewrite_is_grouping.

(* token boundaries with the plugins are a subset of the boundaries without them *)
Theorem C14_boundaries_subset :
  forall pls p q m, run_plugins pls p = Some (Ok q) -> In m q ->
  (exists n, In n p /\ nb n = nb m /\ bb n = bb m) /\ (exists n, In n p /\ ne n = ne m /\ be n = be m).
Proof. exact rewrite_boundaries_subset. Qed.
Print Assumptions C14_boundaries_subset.

(* nothing is dropped, moved or split: the dictionary-side surfaces concatenate to the same text, and the path never grows *)
Theorem C14_text_preserved :
  forall pls p q, run_plugins pls p = Some (Ok q) -> concat (map surf q) = concat (map surf p).
Proof. exact rewrite_preserves_surface. Qed.
Print Assumptions C14_text_preserved.

Theorem C14_never_longer :
  forall pls p q, run_plugins pls p = Some (Ok q) -> length q <= length p.
Proof. exact rewrite_never_longer. Qed.
Print Assumptions C14_never_longer.

(* each loop separately, from any intermediate state and for any fuel *)
Theorem C14_katakana_loop_grouping :
  forall ml op (A : N -> Prop), A op ->
  forall fuel p0 p i q, grouping A p0 p -> kat_loop ml op fuel p i = Some (Ok q) -> grouping A p0 q.
Proof. exact kat_loop_grouping. Qed.
Print Assumptions C14_katakana_loop_grouping.

Theorem C14_numeric_loop_grouping :
  forall en npos (A : N -> Prop), A npos ->
  forall fuel p0 st q, grouping A p0 (np st) -> num_loop en npos fuel st = Some (Ok q) -> grouping A p0 q.
Proof. exact num_loop_grouping. Qed.
Print Assumptions C14_numeric_loop_grouping.

(* Termination within the fuel used by the model (|p|+1 iterations for the katakana loop, 2|p|^2+2|p|+2 for the numeric
   loop) and absence of InvalidRange / index panics are NOT proved here: they are tested by every correspondence case
   (a run that exhausts its fuel or reaches ErrRange / PanicIndex makes check_rewrite false). *)
Definition C14_terminates_full : Prop :=
  forall pls p, exists q, run_plugins pls p = Some (Ok q).
