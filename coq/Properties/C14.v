(* C14 — Path-rewrite plugins only merge adjacent tokens and preserve the text.
   Only the property theorems; each is closed by `exact` of a lemma proved in Proofs/RewriteProofs.v.
   The model (Model/Rewrite.v) consumes Generated/RewriteFacts.v (category bits, OOV reading of WordId::INVALID, merge
   thresholds, resume indices) and, through the numeral parser, Generated/NumericFacts.v; the theorems below hold for
   every value of those facts, for every fuel, path, plugin chain and setting. *)
From Coq Require Import List NArith.
From SudachiVerif Require Import Model.Rewrite Proofs.RewriteProofs.
Import ListNotations.

(* [grouping A p q]: q is p with consecutive NON-EMPTY groups replaced by one node each; a replaced group's node covers
   the union of the code-point ranges and of the reported byte ranges (begin of the first, end of the last), its dictionary-side surface is the concatenation, its
   part of speech is one of A; every other node of q IS the node of p (unchanged in every field).  A single numeral that
   JoinNumeric re-normalises is a one-element group (DESIGN section 6). *)
Theorem C14_rewrite_is_grouping :
  forall pls p q, run_plugins pls p = Some (Ok q) -> grouping (allowed_by pls) p q.
Proof. exact rewrite_is_grouping. Qed.
Print Assumptions C14_rewrite_is_grouping.

(* token boundaries with the plugins are a subset of the boundaries without them *)
Theorem C14_boundaries_subset :
  forall pls p q m, run_plugins pls p = Some (Ok q) -> In m q ->
  (exists n, In n p /\ nb n = nb m /\ bb n = bb m) /\ (exists n, In n p /\ ne n = ne m /\ be n = be m).
Proof. exact rewrite_boundaries_subset. Qed.
Print Assumptions C14_boundaries_subset.

(* nothing is dropped, moved or split: the dictionary-side surfaces concatenate to the same text, and the path never grows *)
Theorem C14_text_preserved :
  forall pls p q, run_plugins pls p = Some (Ok q) -> concat (map surf q) = concat (map surf p).
Proof. exact rewrite_preserves_surface. Qed.
Print Assumptions C14_text_preserved.

Theorem C14_never_longer :
  forall pls p q, run_plugins pls p = Some (Ok q) -> length q <= length p.
Proof. exact rewrite_never_longer. Qed.
Print Assumptions C14_never_longer.

(* every token of the result is a token of the input, or was built by a plugin and then carries no A/B split lists, no
   word structure and no synonym group ids (field [extra]): merged tokens are not split again in modes A / B *)
Theorem C14_built_tokens_have_no_splits :
  forall pls p q m, run_plugins pls p = Some (Ok q) -> In m q -> In m p \/ extra m = 0%N.
Proof. exact rewrite_built_nodes_have_no_splits. Qed.
Print Assumptions C14_built_tokens_have_no_splits.

(* each loop separately, from any intermediate state and for any fuel *)
Theorem C14_katakana_loop_grouping :
  forall ml op (A : N -> Prop), A op ->
  forall fuel p0 p i q, grouping A p0 p -> kat_loop ml op fuel p i = Some (Ok q) -> grouping A p0 q.
Proof. exact kat_loop_grouping. Qed.
Print Assumptions C14_katakana_loop_grouping.

Theorem C14_numeric_loop_grouping :
  forall en npos (A : N -> Prop), A npos ->
  forall fuel p0 st q, grouping A p0 (np st) -> num_loop en npos fuel st = Some (Ok q) -> grouping A p0 q.
Proof. exact num_loop_grouping. Qed.
Print Assumptions C14_numeric_loop_grouping.

(* ---- termination and absence of InvalidRange / index panics ------------------------------------------------------ *)
From SudachiVerif Require Import Proofs.RewriteTermination.

(* decidable obligations on the facts re-extracted from the source: the katakana loop resumes at least one node after
   the merged one; the numeral loop restarts a run only while the offending separator still counts as a digit (the
   repaired code), its resume offsets are non-negative, and a fresh numeral parser rejects a bare ',' and '.' *)
Fact C14_rewrite_facts_ok : rewrite_facts_ok.
Proof.
  unfold rewrite_facts_ok, num_facts_ok. repeat split; try (vm_compute; reflexivity); try (vm_compute; discriminate).
  vm_compute. repeat constructor.
Qed.

(* concat_nodes / concat_oov_nodes can fail in exactly one way, the `begin >= end` guard the model's ErrRange stands for
   (no second `Err(..)`, no `?`): with C14_no_invalid_range the path-rewrite stage never turns an analysis that
   succeeded into an error *)
Fact C14_fact_concat_error_returns :
  (RF.concat_nodes_error_returns, RF.concat_nodes_question_marks, RF.concat_oov_nodes_error_returns, RF.concat_oov_nodes_question_marks)
  = (1, 0, 1, 0)%N.
Proof. vm_compute. reflexivity. Qed.

(* JoinNumericPlugin without an `enableNormalize` key in its settings normalises (the documented default): the harness
   configures the key as true / false / absent and expects absent = true *)
Fact C14_fact_enable_normalize_default : RF.enable_normalize_when_absent = true.
Proof. vm_compute. reflexivity. Qed.

(* the katakana loop finishes within |p|+1 iterations and every concat_oov_nodes call has begin < end <= |p| *)
Theorem C14_katakana_terminates :
  forall ml op p, exists q, join_katakana ml op p = Some (Ok q).
Proof. exact (fun ml op p => katakana_terminates ml op p (proj1 C14_rewrite_facts_ok)). Qed.
Print Assumptions C14_katakana_terminates.

(* the numeral loop finishes within 3(|p|+1)^2 iterations (lexicographic measure: distance of the earliest possible run
   start from the end of the path, separators still counted as digits, nodes left in this pass) and every concat_nodes
   call has begin < end <= |p| *)
Theorem C14_numeric_terminates :
  forall en npos p, exists q, join_numeric en npos p = Some (Ok q).
Proof. exact (fun en npos p => numeric_terminates en npos p (proj2 C14_rewrite_facts_ok)). Qed.
Print Assumptions C14_numeric_terminates.

(* hence the fuelled model is total: the fuel is never exhausted ... *)
Theorem C14_terminates : forall pls p, exists q, run_plugins pls p = Some (Ok q).
Proof. exact (fun pls p => rewrite_total pls p C14_rewrite_facts_ok). Qed.
Print Assumptions C14_terminates.

(* ... concat is never called with begin >= end (ErrRange = SudachiError::InvalidRange) nor beyond the path ... *)
Theorem C14_no_invalid_range :
  forall pls p, run_plugins pls p <> None /\ run_plugins pls p <> Some ErrRange /\ run_plugins pls p <> Some PanicIndex.
Proof. exact (fun pls p => no_invalid_range pls p C14_rewrite_facts_ok). Qed.
Print Assumptions C14_no_invalid_range.

(* ... and the grouping theorem holds without any hypothesis, i.e. for the unfuelled semantics *)
Theorem C14_rewrite_is_grouping_total :
  forall pls p, exists q, run_plugins pls p = Some (Ok q) /\ grouping (allowed_by pls) p q.
Proof. exact (fun pls p => rewrite_is_grouping_total pls p C14_rewrite_facts_ok). Qed.
Print Assumptions C14_rewrite_is_grouping_total.

(* ================================================================== the part of speech a plugin is configured with
   JoinKatakanaOovPlugin's oovPOS and JoinNumericPlugin's 名詞,数詞,*,*,*,* are turned into ids by
   Grammar::get_part_of_speech_id at set-up (Model/PosLookup.v, component level).  The id is that of the FIRST row of the
   grammar's POS table that EQUALS the configured six components; "*" is an ordinary component, not a wildcard -- so a
   merged token carries exactly the configured part of speech, also for a conjugating one such as
   動詞,非自立可能,*,*,五段-カ行,連用形-促音便 whose family has an earlier member in the table. *)
From Coq Require Import String.
From SudachiVerif Require Import Model.PosLookup Proofs.PosLookupProofs.
From SudachiVerif Require Generated.PosLookupFacts.

(* the source compares the WHOLE requested vector with every row, after the length guard, rows in table order, first match
   returned; POS_DEPTH is six; no part in front of a "*" is cut out *)
Fact C14_fact_pos_lookup_compares_whole_vector :
  Generated.PosLookupFacts.lookup_compares = "requested"%string
  /\ Generated.PosLookupFacts.lookup_length_guard = true
  /\ Generated.PosLookupFacts.lookup_first_match_in_table_order = true
  /\ Generated.PosLookupFacts.lookup_prefix_before_star = false
  /\ Generated.PosLookupFacts.pos_depth = 6.
Proof. vm_compute. repeat split; reflexivity. Qed.

Theorem C14_pos_lookup_exact :
  forall tbl p i,
    Forall (fun row => List.length row = Generated.PosLookupFacts.pos_depth) tbl ->
    (lookup tbl p = Some i <->
     List.length p = Generated.PosLookupFacts.pos_depth /\ nth_error tbl i = Some p
     /\ forall j, j < i -> nth_error tbl j <> Some p).
Proof.
  exact (lookup_exact (proj1 C14_fact_pos_lookup_compares_whole_vector) (proj1 (proj2 C14_fact_pos_lookup_compares_whole_vector))).
Qed.
Print Assumptions C14_pos_lookup_exact.

Theorem C14_pos_lookup_none :
  forall tbl p,
    Forall (fun row => List.length row = Generated.PosLookupFacts.pos_depth) tbl ->
    (lookup tbl p = None <-> List.length p <> Generated.PosLookupFacts.pos_depth \/ ~ In p tbl).
Proof.
  exact (lookup_none (proj1 C14_fact_pos_lookup_compares_whole_vector) (proj1 (proj2 C14_fact_pos_lookup_compares_whole_vector))).
Qed.
Print Assumptions C14_pos_lookup_none.

Theorem C14_pos_lookup_star_is_ordinary :
  forall tbl p i row,
    Forall (fun row => List.length row = Generated.PosLookupFacts.pos_depth) tbl ->
    lookup tbl p = Some i -> nth_error tbl i = Some row -> row = p.
Proof.
  exact (star_is_ordinary (proj1 C14_fact_pos_lookup_compares_whole_vector) (proj1 (proj2 C14_fact_pos_lookup_compares_whole_vector))).
Qed.
Print Assumptions C14_pos_lookup_star_is_ordinary.

(* JoinKatakanaOovPlugin has no defaults (minLength and oovPOS are required: every stack spells them out); JoinNumericPlugin normalises when enableNormalize is absent
   (Generated/PluginDefaults.v reads both spellings of every settings struct: Option + unwrap_or, serde default) *)
From SudachiVerif Require Generated.PluginDefaults.
Fact C14_fact_plugin_setting_defaults :
  forallb (fun kv => existsb (fun x => (String.eqb (fst x) (fst kv) && String.eqb (snd x) (snd kv))%bool) Generated.PluginDefaults.when_absent)
          [("join_katakana_oov.minLength", "required"); ("join_katakana_oov.oovPOS", "required"); ("join_numeric.enableNormalize", "true")]%string = true.
Proof. vm_compute. reflexivity. Qed.
