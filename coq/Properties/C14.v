(* C14 — Path-rewrite plugins only merge adjacent tokens and preserve the text. (theorems added below) *)
From Coq Require Import List NArith.
From SudachiVerif Require Import Model.Rewrite.
