(* C02 — the chosen segmentation is a minimum-cost lattice path (Viterbi optimality).
   Only property theorems (closed by `exact`) and the decidable obligations on regenerated facts. *)
From Coq Require Import List ZArith NArith String Lia.
From SudachiVerif Require Import Model.Lattice Model.LatticeM Model.BuildLattice Proofs.LatticeProofs Proofs.LatticeMProofs
     Proofs.BuildLatticeProofs Proofs.BuildOptimal.
From SudachiVerif Require Generated.ConnFacts Generated.OovFacts Generated.CategoryFacts Generated.IndexFacts.
Open Scope Z_scope.

(* For every connection-cost function and every candidate set inserted in the order Lattice::insert requires:
   EosBosDisconnect iff no chain of candidates covers [0, len); otherwise the EOS cost is attained by a covering chain
   and is <= the cost (word costs + BOS, inner and EOS connections) of EVERY covering chain. *)
Theorem C02_viterbi_optimal :
  forall (conn : N -> N -> Z) len ns,
    nodes_ok len ns ->
    match connect_eos conn (insert_all conn (reset len) ns) with
    | None => forall p, ~ chain ns 0 len p
    | Some (_, _, c) => (exists p, chain ns 0 len p /\ path_cost conn p = c) /\
                        (forall p, chain ns 0 len p -> c <= path_cost conn p)
    end.
Proof. exact viterbi_optimal. Qed.
Print Assumptions C02_viterbi_optimal.

(* The path read back through the back pointers (fill_top_path) is a covering chain of that cost, and the total stored with
   its k-th node -- what a morpheme reports as its cumulative cost in mode C -- is the prefix sum along the path. *)
Theorem C02_total_cost_along_path :
  forall (conn : N -> N -> Z) len ns r i c,
    nodes_ok len ns -> (0 < len)%nat ->
    connect_eos conn (insert_all conn (reset len) ns) = Some (r, i, c) ->
    exists es p, top_path conn (insert_all conn (reset len) ns) = Some es /\
                 map enode es = map Some p /\ chain ns 0 len p /\ path_cost conn p = c /\
                 map etotal es = map Some (prefix_costs conn 0%N 0 p).
Proof. exact total_cost_along_path. Qed.
Print Assumptions C02_total_cost_along_path.

(* The i32 lattice of the code (i32::MAX sentinel, checked or wrapping additions) never panics and equals the exact
   lattice whenever (len + 1) * (max |connection cost| + max |word cost|) < i32::MAX. *)
Theorem C02_i32_exact_if_bounded :
  forall (checked : bool) (conn : N -> N -> Z) K1 K2,
    (forall l r, - K1 <= conn l r <= K1) -> 0 <= K1 -> 0 <= K2 ->
    forall len ns,
    (forall n, In n ns -> (nbeg n < nend n)%nat /\ (nend n <= len)%nat /\ - K2 <= ncost n <= K2) ->
    (Z.of_nat len + 1) * (K1 + K2) < MAX32 ->
    let L := insert_all conn (reset len) ns in
    exists cs, minsert_all checked conn (mreset len) ns = Ok (embL L, cs) /\
               mconnect_eos checked conn (embL L) = Ok (connect_eos conn L).
Proof. exact i32_exact_if_bounded. Qed.
Print Assumptions C02_i32_exact_if_bounded.

(* The same for the tokenizer's own loop (LatticeBuilder::build_lattice): positions where no word ends are skipped, the
   last provider is asked again when nothing was created.  Whatever the dictionary and the OOV providers offer at each
   position, the EOS cost is attained by a chain of offered candidates covering the text and is <= the cost of every such
   chain; and an EosBosDisconnect (when every position offers something) means that no such chain exists. *)
Theorem C02_build_optimal :
  forall (conn : N -> N -> Z) (cands : nat -> list node) (fallback : nat -> option node) (n : nat),
    (forall p m, In m (offered cands fallback p) -> node_wf n p m) ->
    forall L r i c, (0 < n)%nat -> build conn cands fallback n = Some (L, (r, i, c)) ->
    (exists p, chainP (Offered cands fallback) 0 n p /\ path_cost conn p = c) /\
    (forall p, chainP (Offered cands fallback) 0 n p -> c <= path_cost conn p).
Proof. exact build_optimal. Qed.
Print Assumptions C02_build_optimal.

Theorem C02_build_disconnect_means_no_chain :
  forall (conn : N -> N -> Z) (cands : nat -> list node) (fallback : nat -> option node) (n : nat),
    (forall p m, In m (offered cands fallback p) -> node_wf n p m) ->
    (0 < n)%nat -> (forall p, (p < n)%nat -> offered cands fallback p <> nil) ->
    build conn cands fallback n = None -> forall p, ~ chainP (Offered cands fallback) 0 n p.
Proof. exact build_disconnect_means_no_chain. Qed.
Print Assumptions C02_build_disconnect_means_no_chain.

(* ---- obligations on facts regenerated from the source on every run ---- *)
(* the matrix index stays inside num_left * num_right for in-range ids *)
Lemma C02_fact_conn_index_in_range :
  forall l r nl nr, (l < nl)%N -> (r < nr)%N -> (Generated.ConnFacts.conn_index l r nl nr < nl * nr)%N.
Proof. intros l r nl nr Hl Hr. unfold Generated.ConnFacts.conn_index. nia. Qed.
(* connect_node passes (right id of the left node, left id of the right node); EOS/BOS parameters are 0.
   (The comparison operator is extracted too but carries no obligation: ties may be broken arbitrarily.) *)
Lemma C02_fact_connect_call : Generated.ConnFacts.connect_call = "l_node.right_id,r_node.left_id"%string.
Proof. reflexivity. Qed.
Lemma C02_fact_eos_bos :
  (Generated.ConnFacts.eos_left, Generated.ConnFacts.eos_right, Generated.ConnFacts.eos_cost,
   Generated.ConnFacts.bos_right, Generated.ConnFacts.bos_total) = (0%N, 0%N, 0, 0%N, 0).
Proof. reflexivity. Qed.
(* which candidates enter the lattice (the `cands` / `fallback` of C02_build_optimal): at every position that a word ends at,
   dictionary words whose end may begin a word, every OOV provider unless the character carries a NOOOVBOW marker class -- not
   the weaker "may begin a word" test --, and the LAST provider when nothing was offered; C04 and C13 say what each source
   offers, these obligations tie the loop itself *)
Lemma C02_fact_provider_gate :
  Generated.OovFacts.oov_gate_mask = N.lor Generated.CategoryFacts.NOOOVBOW Generated.CategoryFacts.NOOOVBOW2.
Proof. vm_compute. reflexivity. Qed.
(* every feature the extractor looks for was recognised in the source (an unrecognised one is written with its expected
   value and listed here, so that the other obligations cannot pass by default) *)
Lemma C02_fact_oov_facts_recognised : Generated.OovFacts.unrecognised = nil.
Proof. vm_compute. reflexivity. Qed.
Lemma C02_fact_lattice_loop :
  (Generated.OovFacts.lattice_loop_recognised, Generated.OovFacts.fallback_provider, Generated.OovFacts.lexicon_end_needs_bow)
  = (true, "last"%string, true).
Proof. vm_compute. reflexivity. Qed.
Lemma C02_fact_lookup_shape :
  Generated.IndexFacts.lattice_lookup_shape = "lookup(mod_c2b[ch_off]);skip(end<len&&!can_bow(end));node(ch_off,mod_b2c[end])"%string.
Proof. vm_compute. reflexivity. Qed.
