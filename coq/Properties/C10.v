(* C10 — results do not depend on what a tokenizer or result list processed before.
   Only the property theorems; each is closed by `exact` of a lemma of Proofs/TokStateProofs.v.
   Vocabulary (Model/TokState.v): F0 = the facts regenerated from the source (which fields every reset / build step
   clears), E = any dictionary + plugin set (pure functions), run_ops = a sequence of {set_mode, set_subset, analyse,
   new list, collect into a list, split_into, lookup}, probe t = analyse t and collect, fresh m ss = a newly created
   tokenizer with mode m and field request ss. *)
From Coq Require Import List NArith Bool String.
From SudachiVerif Require Import Model.TokState Proofs.TokStateProofs.
Import ListNotations.

(* fact obligations: the regenerated clear lists / guards / step order are the ones the theorems are proved for, and
   the Rust structs have exactly the fields of the model's records *)
Fact C10_facts : facts_ok F0 = true.
Proof. vm_compute. reflexivity. Qed.

Fact C10_inventories : inventories_ok = true.
Proof. vm_compute. reflexivity. Qed.

(* after any sequence of operations, on any dictionary / plugin set, analysing t and collecting the result yields the
   outcome (Ok / Err / Panic) and, on Ok, the buffer view, state, nodes and subset that a freshly created tokenizer
   with the same mode and accumulated field request yields *)
Theorem C10_history_independent :
  forall E ops m0 t,
    let y := run_ops F0 E ops (mkSys (create m0) []) in
    probe F0 E t (tk y) = probe F0 E t (fresh (mode (tk y)) (subset (tk y))).
Proof. exact (fun E ops m0 t => history_independent F0 E ops m0 t C10_facts). Qed.
Print Assumptions C10_history_independent.

(* an analysis that fails (input too long at start_build or commit, plugin error, disconnected lattice, path rewrite
   error after the result vector was taken, panic while splitting) leaves the tokenizer usable *)
Theorem C10_failed_analysis_usable :
  forall E ops m0 t1 t,
    let y := run_ops F0 E ops (mkSys (create m0) []) in
    let s1 := snd (analyse F0 E t1 (tk y)) in
    fst (analyse F0 E t1 (tk y)) <> ROk ->
    probe F0 E t s1 = probe F0 E t (fresh (mode (tk y)) (subset (tk y))).
Proof. exact (fun E ops m0 t1 t => failed_analysis_usable F0 E ops m0 t1 t C10_facts). Qed.
Print Assumptions C10_failed_analysis_usable.

(* the invariant behind both: no operation leaves pending edits or pending path ids anywhere *)
Theorem C10_invariant :
  forall E ops m0, inv_sys (run_ops Fexp E ops (mkSys (create m0) [])).
Proof. exact (fun E ops m0 => inv_run_ops E ops _ (inv_initial m0)). Qed.
Print Assumptions C10_invariant.
