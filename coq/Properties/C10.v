(* C10 — results do not depend on what a tokenizer or result list processed before.
   Only the property theorems; each is closed by `exact` of a lemma of Proofs/TokStateProofs.v.
   Vocabulary (Model/TokState.v): F0 = the facts regenerated from the source (which fields every reset / build step
   clears), E = any dictionary + plugin set (pure functions), run_ops = a sequence of {set_mode, set_subset, analyse,
   new list, collect into a list, split_into, lookup}, probe t = analyse t and collect, fresh m ss = a newly created
   tokenizer with mode m and field request ss. *)
From Coq Require Import List NArith Bool String.
From SudachiVerif Require Import Model.TokState Proofs.TokStateProofs.
From SudachiVerif Require Model.Cli Model.CliLoop Proofs.CliLoopProofs.
Import ListNotations.

(* fact obligations: the regenerated clear lists / guards / step order are the ones the theorems are proved for, and
   the Rust structs have exactly the fields of the model's records *)
Fact C10_facts : facts_ok F0 = true.
Proof. vm_compute. reflexivity. Qed.

Fact C10_inventories : inventories_ok = true.
Proof. vm_compute. reflexivity. Qed.

(* after any sequence of operations, on any dictionary / plugin set, analysing t and collecting the result yields the
   outcome (Ok / Err / Panic) and, on Ok, the buffer view, state, nodes and subset that a freshly created tokenizer
   with the same mode and accumulated field request yields *)
Theorem C10_history_independent :
  forall E ops m0 t,
    let y := run_ops F0 E ops (mkSys (create m0) []) in
    probe F0 E t (tk y) = probe F0 E t (fresh (mode (tk y)) (subset (tk y))).
Proof. exact (fun E ops m0 t => history_independent F0 E ops m0 t C10_facts). Qed.
Print Assumptions C10_history_independent.

(* an analysis that fails (input too long at start_build or commit, plugin error, disconnected lattice, path rewrite
   error after the result vector was taken, panic while splitting) leaves the tokenizer usable *)
Theorem C10_failed_analysis_usable :
  forall E ops m0 t1 t,
    let y := run_ops F0 E ops (mkSys (create m0) []) in
    let s1 := snd (analyse F0 E t1 (tk y)) in
    fst (analyse F0 E t1 (tk y)) <> ROk ->
    probe F0 E t s1 = probe F0 E t (fresh (mode (tk y)) (subset (tk y))).
Proof. exact (fun E ops m0 t1 t => failed_analysis_usable F0 E ops m0 t1 t C10_facts). Qed.
Print Assumptions C10_failed_analysis_usable.

(* the invariant behind both: no operation leaves pending edits or pending path ids anywhere *)
Theorem C10_invariant :
  forall E ops m0, inv_sys (run_ops Fexp E ops (mkSys (create m0) [])).
Proof. exact (fun E ops m0 => inv_run_ops E ops _ (inv_initial m0)). Qed.
Print Assumptions C10_invariant.

(* ---------------------------------------------------------------------------------------------------------------
   The state machine instantiated with the concrete stage models (Proofs/TokStateConcrete.v): its abstract
   parameters are given by Tokenizer.tokenize_model's stages (builder A: input-text plugins committed through the
   buffer model, dictionary + OOV candidates, Viterbi, resolve_best_path, Rewrite.run_plugins) with word infos read
   under the loaded subset (builder B's SubsetPipeline: getinfo L w) and Split.tokenize_mode.  `base` = everything of
   the tokenizer that no operation changes, `gi` = LexiconSet::get_word_info_subset, `tk_at base gi mode L` = A's
   tokenizer record for that mode and loaded subset, `report_probe` = what Morpheme::{begin, end, begin_c, end_c,
   surface, word_id} report for the collected probe. *)
From SudachiVerif Require Import Proofs.TokStateConcrete.

(* fact obligation: the regenerated buffer constants are the ones the buffer theorems need and its two length guards are
   the ones ResetFacts records for the state machine *)
Fact C10_buffer_facts_agree : cfg_agrees = true.
Proof. vm_compute. reflexivity. Qed.

(* after ANY finite sequence of operations on the instantiated machine, the probe is Tokenizer.tokenize_model run from
   scratch with the tokenizer's mode and accumulated field request: C10 and C01's end-to-end theorem speak about the
   same function *)
Theorem C10_history_independent_concrete :
  forall base gi ops m0 t,
    let y := run_ops F0 (E_conc base gi) ops (mkSys (create m0) []) in
    report_probe (probe F0 (E_conc base gi) t (tk y)) =
    Tokenizer.tokenize_model cfg (tk_at base gi (smode (mode (tk y))) (subset (tk y))) t.
Proof. exact (history_independent_concrete C10_buffer_facts_agree C10_facts). Qed.
Print Assumptions C10_history_independent_concrete.

(* the analyses that answer with an error value are exactly those for which tokenize_model answers Err (input too long
   at start_build, too long after rewriting at commit, lattice that cannot be connected) ... *)
Theorem C10_error_outcomes_concrete :
  forall base gi ops m0 t,
    let y := run_ops F0 (E_conc base gi) ops (mkSys (create m0) []) in
    fst (analyse F0 (E_conc base gi) t (tk y)) = RErr <->
    Tokenizer.tokenize_model cfg (tk_at base gi (smode (mode (tk y))) (subset (tk y))) t = Buffer.Err.
Proof. exact (error_outcomes_concrete C10_buffer_facts_agree C10_facts). Qed.
Print Assumptions C10_error_outcomes_concrete.

(* ... and after any failed analysis (error value or panic) the next probe is again tokenize_model from scratch *)
Theorem C10_failed_analysis_usable_concrete :
  forall base gi ops m0 t1 t,
    let y := run_ops F0 (E_conc base gi) ops (mkSys (create m0) []) in
    let s1 := snd (analyse F0 (E_conc base gi) t1 (tk y)) in
    fst (analyse F0 (E_conc base gi) t1 (tk y)) <> ROk ->
    report_probe (probe F0 (E_conc base gi) t s1) =
    Tokenizer.tokenize_model cfg (tk_at base gi (smode (mode (tk y))) (subset (tk y))) t.
Proof. exact (failed_analysis_usable_concrete C10_buffer_facts_agree C10_facts). Qed.
Print Assumptions C10_failed_analysis_usable_concrete.

(* ---- the command-line tool: one tokenizer and ONE result list over all lines of the input (sudachi-cli/src/main.rs, analysis.rs) ---- *)

(* extracted from analysis.rs on every run: every `self.output.write(writer, &self.morphemes)` of AnalyzeNonSplitted::analyze is
   executed only after reset().push_str(line), do_tokenize() and collect_results(..) of the CURRENT line (no branch skips the
   analysis and still writes), the function writes nothing else, and AnalyzeSplitted::analyze only iterates it over the sentences *)
Fact C10_cli_loop_facts : CliLoop.loop_facts_ok = true.
Proof. vm_compute. reflexivity. Qed.

(* the loop as a fold over the lines with the reused list as state: for every analysis function, output format and sentence
   splitter, with or without sentence splitting, every file and whatever the list held initially, the bytes written are the
   concatenation of what each line prints on its own *)
Theorem C10_cli_output_is_per_line :
  forall (res : Type) (analyse : CliLoop.ltext -> res) (render : res -> list N) (sentences : CliLoop.ltext -> list CliLoop.ltext)
         (skipped : CliLoop.ltext -> bool) (split : bool) (held : res) (file : list N),
    CliLoop.run_file res analyse render sentences skipped CliLoop.loop_facts_ok split held file
    = List.concat (map (CliLoop.output_of_line res analyse render sentences split) (Cli.cli_texts file)).
Proof. exact (CliLoopProofs.cli_output_is_per_line C10_cli_loop_facts). Qed.
Print Assumptions C10_cli_output_is_per_line.

(* ... which is what a fresh process (list created empty) prints for that line alone *)
Theorem C10_cli_line_as_fresh_process :
  forall (res : Type) (analyse : CliLoop.ltext -> res) (render : res -> list N) (sentences : CliLoop.ltext -> list CliLoop.ltext)
         (skipped : CliLoop.ltext -> bool) (split : bool) (held empty : res) (file : list N),
    CliLoop.run_file res analyse render sentences skipped CliLoop.loop_facts_ok split held file
    = List.concat (map (fun l => snd (CliLoop.run_lines res analyse render sentences skipped CliLoop.loop_facts_ok split empty [l]))
                       (Cli.cli_texts file)).
Proof. exact (CliLoopProofs.cli_line_as_fresh_process C10_cli_loop_facts). Qed.
Print Assumptions C10_cli_line_as_fresh_process.

(* a blank line prints the rendering of the analysis of the empty text, never what the list held from the line before *)
Theorem C10_cli_blank_line :
  forall (res : Type) (analyse : CliLoop.ltext -> res) (render : res -> list N) (sentences : CliLoop.ltext -> list CliLoop.ltext)
         (skipped : CliLoop.ltext -> bool) (held : res),
    snd (CliLoop.analyze_line res analyse render sentences skipped CliLoop.loop_facts_ok false held []) = render (analyse []).
Proof. exact (CliLoopProofs.cli_blank_line C10_cli_loop_facts). Qed.
Print Assumptions C10_cli_blank_line.
