(* C08 — Code-point offsets agree with byte offsets; the offset map is monotone and anchored.
   Only the property theorems; each is closed by `exact` of a lemma of Proofs/BufferProofs.v.

   Vocabulary (Model/Buffer.v): a text is its list of UTF-8 bytes; `wf_text o` = non-empty texts start with a lead byte
   (true of every Rust String); `is_boundary t i` = str::is_char_boundary; `Reach cfg o s` = s is obtained from
   start_build on o by any number of batches of ordered, non-overlapping edits on character boundaries (`edits_ok`:
   deletions, insertions, shorter / longer / equal replacements, adjacent edits, at start / middle / end), each accepted
   by commit and leaving the text non-empty; `the_cfg` = the guards / index choices / sentinels read from the Rust
   source by gen/factmods/BufferFacts.py on this run. *)
From Coq Require Import List NArith Arith.
From SudachiVerif Require Import Model.Buffer Proofs.BufferProofs.
Import ListNotations.
Open Scope nat_scope.

(* decidable side condition on the regenerated facts: identity map 0..=len, first entry forced to 0, replacement maps
   first byte -> map[start], others -> map[end], loop from 1, sentinels *)
Fact C08_facts_ok : cfg_ok the_cfg = true.
Proof. vm_compute. reflexivity. Qed.

(* after any sequence of batches: right length, start -> start, end -> end, monotone, boundaries -> boundaries *)
Theorem C08_inv_all_batches :
  forall o s, wf_text o = true -> Reach the_cfg o s ->
    orig s = o /\
    length (m2o s) = length (cur s) + 1 /\
    nth 0 (m2o s) 0 = 0 /\
    nth (length (cur s)) (m2o s) 0 = length o /\
    (forall i j, i <= j -> j <= length (cur s) -> nth i (m2o s) 0 <= nth j (m2o s) 0) /\
    (forall p, is_boundary (cur s) p = true -> is_boundary o (nth p (m2o s) 0) = true).
Proof. exact (inv_all_batches the_cfg C08_facts_ok). Qed.
Print Assumptions C08_inv_all_batches.

(* fill_orig_b2c: on every character boundary b of the original the table holds the number of code points before b *)
Theorem C08_orig_b2c_counts_codepoints :
  forall o b, is_boundary o b = true -> nth_error (orig_b2c the_cfg o) b = Some (Some (codepoints_before o b)).
Proof. exact (orig_b2c_counts_codepoints the_cfg C08_facts_ok). Qed.
Print Assumptions C08_orig_b2c_counts_codepoints.

(* Morpheme::begin_c / end_c (what Python exposes as begin() / end()): for every character index of the rewritten text
   the accessors do not panic, the byte offset is a boundary of the original and the code-point offset is the number of
   code points of the original before that byte offset *)
Theorem C08_begin_c_counts_codepoints :
  forall o s ci, wf_text o = true -> Reach the_cfg o s -> ci <= count_leads (cur s) ->
    exists b, to_orig_byte_idx s ci = Some b /\ is_boundary o b = true /\
              to_orig_char_idx the_cfg s ci = Some (codepoints_before o b).
Proof. exact (begin_c_counts_codepoints the_cfg C08_facts_ok). Qed.
Print Assumptions C08_begin_c_counts_codepoints.

(* slicing the original by the reported code-point offsets gives the same bytes as slicing by the byte offsets,
   for every query range on character positions *)
Theorem C08_char_slice_eq_byte_slice :
  forall o s ci cj, wf_text o = true -> Reach the_cfg o s -> ci <= cj -> cj <= count_leads (cur s) ->
    exists bi bj ai aj,
      to_orig_byte_idx s ci = Some bi /\ to_orig_byte_idx s cj = Some bj /\
      to_orig_char_idx the_cfg s ci = Some ai /\ to_orig_char_idx the_cfg s cj = Some aj /\
      cp_slice o ai aj = byte_slice o (bi, bj).
Proof. exact (char_slice_eq_byte_slice_reach the_cfg C08_facts_ok). Qed.
Print Assumptions C08_char_slice_eq_byte_slice.

(* "maps each unreplaced character to itself" (reading of DESIGN section 6, made precise per byte):
   `Tracks cfg o s q p ex` follows byte q of the original through batches none of which replaces it (`kept`), p is its
   offset in the rewritten text (`newpos`), ex records that it never became the first byte of the rewritten text.
   Such a byte is still there; its mapped range [m2o p, m2o (p+1)) contains its original range [q, q+1); and its mapped
   start is exactly q unless a deletion in front of it once made it the first byte of the text (then "start maps to
   start" wins and the entry was forced to 0) *)
Theorem C08_unreplaced_maps_to_self :
  forall o s q p ex, wf_text o = true -> Tracks the_cfg o s q p ex ->
    Reach the_cfg o s /\
    nth_error (cur s) p = nth_error o q /\ q < length o /\
    nth p (m2o s) 0 <= q /\ S q <= nth (S p) (m2o s) 0 /\
    (ex = true \/ q = 0 -> nth p (m2o s) 0 = q).
Proof. exact (unreplaced_maps_to_self the_cfg C08_facts_ok). Qed.
Print Assumptions C08_unreplaced_maps_to_self.

(* the bytes of one unreplaced character stay adjacent: edits begin and end on character boundaries, so nothing can be
   inserted between a kept byte and a following kept continuation byte.  Together with the previous theorem: the first
   byte of an unreplaced character at q..q+w gives m2o p <= q (= q when exact), its last byte gives q+w <= m2o (p+w) *)
Theorem C08_kept_character_stays_contiguous :
  forall src es start q,
    edits_ok_from src start es = true -> start <= q -> kept es q = true -> kept es (S q) = true ->
    is_boundary src (S q) = false -> newpos_from es start (S q) = S (newpos_from es start q).
Proof. exact newpos_succ. Qed.
Print Assumptions C08_kept_character_stays_contiguous.

(* the decidable predicate `inv_b` that the correspondence run evaluates on the implementation's own offset map is
   satisfied by every reachable state of the model: an implementation output that fails it is not a model state *)
Theorem C08_reachable_satisfies_runtime_predicate :
  forall o s, wf_text o = true -> Reach the_cfg o s -> inv_b o (cur s) (m2o s) = true.
Proof. exact (reachable_satisfies_inv_b the_cfg C08_facts_ok). Qed.
Print Assumptions C08_reachable_satisfies_runtime_predicate.
