(* C08 — Code-point offsets agree with byte offsets; the offset map is monotone and anchored.
   Only the property theorems; each is closed by `exact` of a lemma of Proofs/BufferProofs.v.

   Vocabulary (Model/Buffer.v): a text is its list of UTF-8 bytes; `wf_text o` = non-empty texts start with a lead byte
   (true of every Rust String); `is_boundary t i` = str::is_char_boundary; `Reach cfg o s` = s is obtained from
   start_build on o by any number of batches of ordered, non-overlapping edits on character boundaries (`edits_ok`:
   deletions, insertions, shorter / longer / equal replacements, adjacent edits, at start / middle / end), each accepted
   by commit and leaving the text non-empty; `the_cfg` = the guards / index choices / sentinels read from the Rust
   source by gen/factmods/BufferFacts.py on this run. *)
From Coq Require Import List NArith Arith.
From SudachiVerif Require Import Model.Buffer Proofs.BufferProofs.
Import ListNotations.
Open Scope nat_scope.

(* decidable side condition on the regenerated facts: identity map 0..=len, first entry forced to 0, replacement maps
   first byte -> map[start], others -> map[end], loop from 1, sentinels *)
Fact C08_facts_ok : cfg_ok the_cfg = true.
Proof. vm_compute. reflexivity. Qed.

(* after any sequence of batches: right length, start -> start, end -> end, monotone, boundaries -> boundaries *)
Theorem C08_inv_all_batches :
  forall o s, wf_text o = true -> Reach the_cfg o s ->
    orig s = o /\
    length (m2o s) = length (cur s) + 1 /\
    nth 0 (m2o s) 0 = 0 /\
    nth (length (cur s)) (m2o s) 0 = length o /\
    (forall i j, i <= j -> j <= length (cur s) -> nth i (m2o s) 0 <= nth j (m2o s) 0) /\
    (forall p, is_boundary (cur s) p = true -> is_boundary o (nth p (m2o s) 0) = true).
Proof. exact (inv_all_batches the_cfg C08_facts_ok). Qed.
Print Assumptions C08_inv_all_batches.

(* fill_orig_b2c: on every character boundary b of the original the table holds the number of code points before b *)
Theorem C08_orig_b2c_counts_codepoints :
  forall o b, is_boundary o b = true -> nth_error (orig_b2c the_cfg o) b = Some (Some (codepoints_before o b)).
Proof. exact (orig_b2c_counts_codepoints the_cfg C08_facts_ok). Qed.
Print Assumptions C08_orig_b2c_counts_codepoints.

(* Morpheme::begin_c / end_c (what Python exposes as begin() / end()): for every character index of the rewritten text
   the accessors do not panic, the byte offset is a boundary of the original and the code-point offset is the number of
   code points of the original before that byte offset *)
Theorem C08_begin_c_counts_codepoints :
  forall o s ci, wf_text o = true -> Reach the_cfg o s -> ci <= count_leads (cur s) ->
    exists b, to_orig_byte_idx s ci = Some b /\ is_boundary o b = true /\
              to_orig_char_idx the_cfg s ci = Some (codepoints_before o b).
Proof. exact (begin_c_counts_codepoints the_cfg C08_facts_ok). Qed.
Print Assumptions C08_begin_c_counts_codepoints.

(* slicing the original by the reported code-point offsets gives the same bytes as slicing by the byte offsets,
   for every query range on character positions *)
Theorem C08_char_slice_eq_byte_slice :
  forall o s ci cj, wf_text o = true -> Reach the_cfg o s -> ci <= cj -> cj <= count_leads (cur s) ->
    exists bi bj ai aj,
      to_orig_byte_idx s ci = Some bi /\ to_orig_byte_idx s cj = Some bj /\
      to_orig_char_idx the_cfg s ci = Some ai /\ to_orig_char_idx the_cfg s cj = Some aj /\
      cp_slice o ai aj = byte_slice o (bi, bj).
Proof. exact (char_slice_eq_byte_slice_reach the_cfg C08_facts_ok). Qed.
Print Assumptions C08_char_slice_eq_byte_slice.
