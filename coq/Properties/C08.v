(* C08 placeholder; theorems follow *)
From SudachiVerif Require Import Model.Buffer.
