(* C08 — Code-point offsets agree with byte offsets; the offset map is monotone and anchored.
   Only the property theorems; each is closed by `exact` of a lemma of Proofs/BufferProofs.v.

   Vocabulary (Model/Buffer.v): a text is its list of UTF-8 bytes; `wf_text o` = non-empty texts start with a lead byte
   (true of every Rust String); `is_boundary t i` = str::is_char_boundary; `Reach cfg o s` = s is obtained from
   start_build on o by any number of batches of ordered, non-overlapping edits on character boundaries (`edits_ok`:
   deletions, insertions, shorter / longer / equal replacements, adjacent edits, at start / middle / end), each accepted
   by commit and leaving the text non-empty; `the_cfg` = the guards / index choices / sentinels read from the Rust
   source by gen/factmods/BufferFacts.py on this run. *)
From Coq Require Import List NArith Arith.
From SudachiVerif Require Import Model.Buffer Proofs.BufferProofs.
Import ListNotations.
Open Scope nat_scope.

(* decidable side condition on the regenerated facts: identity map 0..=len, first entry forced to 0, replacement maps
   first byte -> map[start], others -> map[end], loop from 1, sentinels *)
Fact C08_facts_ok : cfg_ok the_cfg = true.
Proof. vm_compute. reflexivity. Qed.

(* after any sequence of batches: right length, start -> start, end -> end, monotone, boundaries -> boundaries *)
Theorem C08_inv_all_batches :
  forall o s, wf_text o = true -> Reach the_cfg o s ->
    orig s = o /\
    length (m2o s) = length (cur s) + 1 /\
    nth 0 (m2o s) 0 = 0 /\
    nth (length (cur s)) (m2o s) 0 = length o /\
    (forall i j, i <= j -> j <= length (cur s) -> nth i (m2o s) 0 <= nth j (m2o s) 0) /\
    (forall p, is_boundary (cur s) p = true -> is_boundary o (nth p (m2o s) 0) = true).
Proof. exact (inv_all_batches the_cfg C08_facts_ok). Qed.
Print Assumptions C08_inv_all_batches.

(* fill_orig_b2c: on every character boundary b of the original the table holds the number of code points before b *)
Theorem C08_orig_b2c_counts_codepoints :
  forall o b, is_boundary o b = true -> nth_error (orig_b2c the_cfg o) b = Some (Some (codepoints_before o b)).
Proof. exact (orig_b2c_counts_codepoints the_cfg C08_facts_ok). Qed.
Print Assumptions C08_orig_b2c_counts_codepoints.

(* Morpheme::begin_c / end_c (what Python exposes as begin() / end()): for every character index of the rewritten text
   the accessors do not panic, the byte offset is a boundary of the original and the code-point offset is the number of
   code points of the original before that byte offset *)
Theorem C08_begin_c_counts_codepoints :
  forall o s ci, wf_text o = true -> Reach the_cfg o s -> ci <= count_leads (cur s) ->
    exists b, to_orig_byte_idx s ci = Some b /\ is_boundary o b = true /\
              to_orig_char_idx the_cfg s ci = Some (codepoints_before o b).
Proof. exact (begin_c_counts_codepoints the_cfg C08_facts_ok). Qed.
Print Assumptions C08_begin_c_counts_codepoints.

(* slicing the original by the reported code-point offsets gives the same bytes as slicing by the byte offsets,
   for every query range on character positions *)
Theorem C08_char_slice_eq_byte_slice :
  forall o s ci cj, wf_text o = true -> Reach the_cfg o s -> ci <= cj -> cj <= count_leads (cur s) ->
    exists bi bj ai aj,
      to_orig_byte_idx s ci = Some bi /\ to_orig_byte_idx s cj = Some bj /\
      to_orig_char_idx the_cfg s ci = Some ai /\ to_orig_char_idx the_cfg s cj = Some aj /\
      cp_slice o ai aj = byte_slice o (bi, bj).
Proof. exact (char_slice_eq_byte_slice_reach the_cfg C08_facts_ok). Qed.
Print Assumptions C08_char_slice_eq_byte_slice.

(* "maps each unreplaced character to itself" (reading of DESIGN section 6, made precise per byte):
   `Tracks cfg o s q p ex` follows byte q of the original through batches none of which replaces it (`kept`), p is its
   offset in the rewritten text (`newpos`), ex records that it never became the first byte of the rewritten text.
   Such a byte is still there; its mapped range [m2o p, m2o (p+1)) contains its original range [q, q+1); and its mapped
   start is exactly q unless a deletion in front of it once made it the first byte of the text (then "start maps to
   start" wins and the entry was forced to 0) *)
Theorem C08_unreplaced_maps_to_self :
  forall o s q p ex, wf_text o = true -> Tracks the_cfg o s q p ex ->
    Reach the_cfg o s /\
    nth_error (cur s) p = nth_error o q /\ q < length o /\
    nth p (m2o s) 0 <= q /\ S q <= nth (S p) (m2o s) 0 /\
    (ex = true \/ q = 0 -> nth p (m2o s) 0 = q).
Proof. exact (unreplaced_maps_to_self the_cfg C08_facts_ok). Qed.
Print Assumptions C08_unreplaced_maps_to_self.

(* the bytes of one unreplaced character stay adjacent: edits begin and end on character boundaries, so nothing can be
   inserted between a kept byte and a following kept continuation byte.  Together with the previous theorem: the first
   byte of an unreplaced character at q..q+w gives m2o p <= q (= q when exact), its last byte gives q+w <= m2o (p+w) *)
Theorem C08_kept_character_stays_contiguous :
  forall src es start q,
    edits_ok_from src start es = true -> start <= q -> kept es q = true -> kept es (S q) = true ->
    is_boundary src (S q) = false -> newpos_from es start (S q) = S (newpos_from es start q).
Proof. exact newpos_succ. Qed.
Print Assumptions C08_kept_character_stays_contiguous.

(* the decidable predicate `inv_b` that the correspondence run evaluates on the implementation's own offset map is
   satisfied by every reachable state of the model: an implementation output that fails it is not a model state *)
Theorem C08_reachable_satisfies_runtime_predicate :
  forall o s, wf_text o = true -> Reach the_cfg o s -> inv_b o (cur s) (m2o s) = true.
Proof. exact (reachable_satisfies_inv_b the_cfg C08_facts_ok). Qed.
Print Assumptions C08_reachable_satisfies_runtime_predicate.

(* ================================================================== the character-level side of InputBuffer::build and
   the accessors on it (Proofs/BufferCharProofs.v).  Texts are byte lists whose non-empty ones start with a lead byte
   (`wf_text`), i.e. in particular every UTF-8 text. *)
From SudachiVerif Require Import Proofs.BufferCharProofs.

(* the loop bounds of get_word_candidate_length re-read from the source: for i in (char_idx + 1)..char_len *)
Fact C08_char_facts_ok : SudachiVerif.Generated.BufferFacts.wcl_first_offset = 1.
Proof. vm_compute. reflexivity. Qed.

(* mod_b2c: every byte carries the index of its character, constant inside a character, one more at every boundary *)
Theorem C08_ch_idx_inside_character :
  forall t p, S p < length t -> is_boundary t (S p) = false -> ch_idx the_cfg t (S p) = ch_idx the_cfg t p.
Proof. exact (ch_idx_inside_char the_cfg). Qed.
Print Assumptions C08_ch_idx_inside_character.

Theorem C08_ch_idx_steps_at_boundaries :
  forall t p k, wf_text t = true -> S p < length t -> is_boundary t (S p) = true ->
    ch_idx the_cfg t p = Some k -> ch_idx the_cfg t (S p) = Some (S k).
Proof. exact (ch_idx_step the_cfg). Qed.
Print Assumptions C08_ch_idx_steps_at_boundaries.

(* ch_idx (to_curr_byte_idx i) = i, and to_curr_byte_idx (ch_idx p) = p on character boundaries (non-empty text) *)
Theorem C08_ch_idx_of_to_curr_byte_idx :
  forall t ci p, wf_text t = true -> t <> [] -> to_curr_byte_idx t ci = Some p -> ch_idx the_cfg t p = Some ci.
Proof. exact (ch_idx_of_to_curr_byte_idx the_cfg C08_facts_ok). Qed.
Print Assumptions C08_ch_idx_of_to_curr_byte_idx.

Theorem C08_to_curr_byte_idx_of_ch_idx :
  forall t p k, wf_text t = true -> t <> [] -> is_boundary t p = true ->
    ch_idx the_cfg t p = Some k -> to_curr_byte_idx t k = Some p.
Proof. exact (to_curr_byte_idx_of_ch_idx the_cfg C08_facts_ok). Qed.
Print Assumptions C08_to_curr_byte_idx_of_ch_idx.

(* to_curr_byte_idx is total on 0..=char_len, strictly monotone, and lands on character boundaries *)
Theorem C08_to_curr_byte_idx_strictly_monotone :
  forall t ci cj p q, ci < cj -> to_curr_byte_idx t ci = Some p -> to_curr_byte_idx t cj = Some q ->
    p < q /\ is_boundary t p = true /\ is_boundary t q = true /\ q <= length t.
Proof.
  exact (fun t ci cj p q H Hp Hq =>
    conj (to_curr_byte_idx_strict t ci cj p q H Hp Hq)
      (conj (proj1 (to_curr_byte_idx_props t ci p Hp))
        (conj (proj1 (to_curr_byte_idx_props t cj q Hq)) (proj1 (proj2 (to_curr_byte_idx_props t cj q Hq)))))).
Qed.
Print Assumptions C08_to_curr_byte_idx_strictly_monotone.

(* to_orig_byte_idx and to_orig_char_idx are total and monotone on 0..=char_len of every reachable buffer, and the
   char->byte table of the ORIGINAL inverts the reported code-point offset to the reported byte offset *)
Theorem C08_to_orig_indices_monotone_and_inverse :
  forall o s ci cj, wf_text o = true -> Reach the_cfg o s -> ci <= cj -> cj <= char_len (cur s) ->
    exists bi bj ai aj,
      to_orig_byte_idx s ci = Some bi /\ to_orig_byte_idx s cj = Some bj /\ bi <= bj /\
      to_orig_char_idx the_cfg s ci = Some ai /\ to_orig_char_idx the_cfg s cj = Some aj /\ ai <= aj /\
      nth ai (mod_c2b o) 0 = bi /\ nth aj (mod_c2b o) 0 = bj.
Proof.
  exact (fun o s ci cj Hwf HR => to_orig_idx_mono the_cfg C08_facts_ok o s ci cj (reach_inv the_cfg C08_facts_ok o s Hwf HR)).
Qed.
Print Assumptions C08_to_orig_indices_monotone_and_inverse.

(* curr_slice_c(a..b) is the byte slice between the two character offsets (= curr_slice of those offsets) *)
Theorem C08_curr_slice_c_is_byte_slice :
  forall t a b, a <= b -> b <= char_len t ->
    exists x y, to_curr_byte_idx t a = Some x /\ to_curr_byte_idx t b = Some y /\ x <= y /\
                curr_slice_c t a b = Some (byte_slice t (x, y)) /\ curr_slice_c t a b = curr_slice t x y.
Proof. exact curr_slice_c_spec. Qed.
Print Assumptions C08_curr_slice_c_is_byte_slice.

(* orig_slice_c(a..b) = orig_slice(mod_c2b[a]..mod_c2b[b]) = the original's bytes between the mapped offsets *)
Theorem C08_orig_slice_c_is_byte_slice :
  forall o s a b, wf_text o = true -> Reach the_cfg o s -> a <= b -> b <= char_len (cur s) ->
    exists x y, to_curr_byte_idx (cur s) a = Some x /\ to_curr_byte_idx (cur s) b = Some y /\
                orig_slice_c s a b = orig_slice s x y /\
                orig_slice_c s a b = Some (byte_slice o (map_range (m2o s) (x, y))).
Proof.
  exact (fun o s a b Hwf HR => orig_slice_c_spec o s a b (reach_inv the_cfg C08_facts_ok o s Hwf HR)).
Qed.
Print Assumptions C08_orig_slice_c_is_byte_slice.

(* char_distance(cpt, offset): the number of characters one can advance, capped by the end of the text *)
Theorem C08_char_distance :
  forall t cpt off, cpt <= char_len t ->
    exists d, char_distance t cpt off = Some d /\ d <= off /\ cpt + d <= char_len t /\ (d = off \/ cpt + d = char_len t).
Proof. exact char_distance_spec. Qed.
Print Assumptions C08_char_distance.

(* get_word_candidate_length(c): distance to the next character that can begin a word, or to the end of the text *)
Theorem C08_word_candidate_length :
  forall t bow ci, length bow = length t -> ci < char_len t ->
    exists d, word_candidate_length t bow ci = Some d /\ 1 <= d /\ ci + d <= char_len t /\
      (forall j p, 0 < j -> j < d -> to_curr_byte_idx t (ci + j) = Some p -> nth_error bow p = Some false) /\
      (ci + d < char_len t -> forall p, to_curr_byte_idx t (ci + d) = Some p -> nth_error bow p = Some true).
Proof. exact word_candidate_length_spec. Qed.
Print Assumptions C08_word_candidate_length.

(* cat_of_range(a..b): the classes common to all characters of a non-empty range *)
Theorem C08_cat_of_range :
  forall cats a b, a < b -> b <= length cats ->
    exists r, cat_of_range cats a b = Some r /\
      forall k, N.testbit r k = true <->
        (N.testbit cat_all k = true /\ forall i, a <= i -> i < b -> N.testbit (nth i cats 0%N) k = true).
Proof. exact cat_of_range_spec. Qed.
Print Assumptions C08_cat_of_range.

(* ------------------------------------------------------------------ Morpheme::begin / end / begin_c / end_c / surface
   (user level; Python's Morpheme.begin() / end() are begin_c / end_c).  For every reachable buffer and every result node
   whose character and byte coordinates agree (`rnode_ok`: mod_c2b[begin] = begin_bytes, mod_c2b[end] = end_bytes):
   nothing panics, begin <= end are character boundaries of the original, begin_c / end_c are the numbers of code points of
   the original before begin / end, the surface is the original's bytes begin..end, and slicing the original by the
   code-point offsets gives the same bytes *)
Theorem C08_morpheme_offsets :
  forall o s n, wf_text o = true -> Reach the_cfg o s -> rnode_ok (cur s) n ->
    exists b e,
      morpheme_begin s n = Some b /\ morpheme_end s n = Some e /\ b <= e /\
      is_boundary o b = true /\ is_boundary o e = true /\
      morpheme_begin_c the_cfg s n = Some (codepoints_before o b) /\
      morpheme_end_c the_cfg s n = Some (codepoints_before o e) /\
      morpheme_surface s n = Some (byte_slice o (b, e)) /\
      cp_slice o (codepoints_before o b) (codepoints_before o e) = byte_slice o (b, e).
Proof.
  exact (fun o s n Hwf HR => morpheme_offsets the_cfg C08_facts_ok o s n (reach_inv the_cfg C08_facts_ok o s Hwf HR)).
Qed.
Print Assumptions C08_morpheme_offsets.

(* ... and every byte range on character boundaries of a non-empty rewritten text is the range of such a node, whose
   character coordinates are ch_idx of its ends *)
Theorem C08_every_boundary_range_is_a_node :
  forall t x y, wf_text t = true -> t <> [] -> is_boundary t x = true -> is_boundary t y = true -> x <= y ->
    exists bc ec, ch_idx the_cfg t x = Some bc /\ ch_idx the_cfg t y = Some ec /\ rnode_ok t (mkRN bc ec x y).
Proof. exact (byte_range_node the_cfg C08_facts_ok). Qed.
Print Assumptions C08_every_boundary_range_is_a_node.

(* ================================================================== C07's offset bookkeeping is C08's offset map
   (Proofs/OffsetsLink.v).  Model/Normalize.v describes, on the code-point level, where each character of a plugin's
   output comes from (`offsets_after t es`: a byte offset of the text t the plugin saw, per output character and for the
   end).  For the byte-level batch `tr_edits t es` that Proofs/NormalizeBuffer.v derives from the same edits, the map that
   `commit` builds, read at the byte offset of every character of the new text and at its end (the entries of
   mod_c2b (cur s')), is exactly offsets_after looked up in the previous map -- for every buffer state satisfying the
   invariant, hence also through stacked plugins; on a fresh buffer it is offsets_after itself. *)
From SudachiVerif Require Proofs.OffsetsLink Proofs.NormalizeBuffer Model.Normalize Proofs.PipelineFull.
From SudachiVerif Require Generated.NormalizeFacts.

Theorem C08_offsets_after_is_m2o :
  forall o t s es r s', wf_text o = true -> Reach the_cfg o s ->
    cur s = PipelineFull.enc t -> Normalize.apply_edits t es = Some r ->
    commit the_cfg s (NormalizeBuffer.tr_edits t es) = Ok s' ->
    cur s' = PipelineFull.enc r /\
    map (fun p => nth p (m2o s') 0) (mod_c2b (cur s'))
    = map (fun x => nth (N.to_nat x) (m2o s) 0) (Normalize.offsets_after t es).
Proof.
  exact (fun o t s es r s' Hwf HR =>
    OffsetsLink.offsets_after_is_m2o the_cfg C08_facts_ok o t s es r s' (reach_inv the_cfg C08_facts_ok o s Hwf HR)).
Qed.
Print Assumptions C08_offsets_after_is_m2o.

Theorem C08_offsets_after_is_m2o_on_a_fresh_buffer :
  forall t s0 es r s',
    start_build the_cfg (PipelineFull.enc t) = Ok s0 -> Normalize.apply_edits t es = Some r ->
    commit the_cfg s0 (NormalizeBuffer.tr_edits t es) = Ok s' ->
    cur s' = PipelineFull.enc r /\
    map (fun p => nth p (m2o s') 0) (mod_c2b (cur s')) = map N.to_nat (Normalize.offsets_after t es).
Proof. exact (OffsetsLink.offsets_after_is_m2o_fresh the_cfg C08_facts_ok). Qed.
Print Assumptions C08_offsets_after_is_m2o_on_a_fresh_buffer.

(* for the three real plugins (facts about their source re-read on this run): after the plugin's own edits the text is the
   encoding of its specification and the new map is the plugin's offsets_after composed with the old map *)
Fact C08_normalize_facts_ok :
  Generated.NormalizeFacts.slow_search_earliest = false /\ Generated.NormalizeFacts.lowercase_guard_is_uppercase = false /\
  Generated.NormalizeFacts.path_guard_is_uppercase = false.
Proof. vm_compute. repeat split; reflexivity. Qed.

Theorem C08_plugin_offsets :
  forall p o t s s', NormalizeBuffer.plugin_wf p -> wf_text o = true -> Reach the_cfg o s ->
    cur s = PipelineFull.enc t ->
    commit the_cfg s (NormalizeBuffer.tr_edits t (NormalizeBuffer.plugin_edits p t)) = Ok s' ->
    cur s' = PipelineFull.enc (NormalizeBuffer.plugin_spec p t) /\
    map (fun q => nth q (m2o s') 0) (mod_c2b (cur s'))
    = map (fun x => nth (N.to_nat x) (m2o s) 0) (Normalize.offsets_after t (NormalizeBuffer.plugin_edits p t)).
Proof.
  exact (fun p o t s s' Hp Hwf HR Hc =>
    OffsetsLink.offsets_after_is_m2o the_cfg C08_facts_ok o t s _ _ s' (reach_inv the_cfg C08_facts_ok o s Hwf HR) Hc
      (NormalizeBuffer.plugin_apply (proj1 C08_normalize_facts_ok) (proj1 (proj2 C08_normalize_facts_ok))
         (proj2 (proj2 C08_normalize_facts_ok)) p t Hp)).
Qed.
Print Assumptions C08_plugin_offsets.

(* ================================================================== with_editor with a failing closure
   InputBuffer::with_editor(func) commits the recorded replacements only when the closure answers Ok; when it answers Err the
   batch is rolled back.  In the model (`with_editor cfg s fails es`): a rejected batch answers Err and leaves text, offset
   map and original exactly as they were -- nothing of it can leak into a later batch or a later text -- and reachability,
   over which all theorems above are stated, is closed under with_editor whatever the closure answers.  The implementation
   is compared with this after every batch of every text on a reused InputBuffer (check_c08_session). *)
Theorem C08_failed_batch_is_noop :
  forall s es,
    with_editor the_cfg s true es = Err /\
    cur (after s (with_editor the_cfg s true es)) = cur s /\ m2o (after s (with_editor the_cfg s true es)) = m2o s /\
    orig (after s (with_editor the_cfg s true es)) = orig s.
Proof. exact (failed_batch_is_noop the_cfg). Qed.
Print Assumptions C08_failed_batch_is_noop.

Theorem C08_reach_closed_under_with_editor :
  forall o s fails es,
    Reach the_cfg o s ->
    (fails = false -> edits_ok (cur s) es = true) ->
    (forall s', with_editor the_cfg s fails es = Ok s' -> cur s' <> []) ->
    Reach the_cfg o (after s (with_editor the_cfg s fails es)).
Proof. exact (reach_with_editor the_cfg). Qed.
Print Assumptions C08_reach_closed_under_with_editor.

(* ================================================================== the size behind the 65535-byte guard is a size in BYTES
   resolve_edits keeps a running size `cur_len` and InputBuffer::commit compares what it returns with REALLY_MAX_LENGTH;
   the u16 byte offsets of ResultNode are valid only because that size is the TRUE byte length of the rewritten text.
   For EVERY batch of ordered edits on character boundaries, whatever the replacement texts are (the model's e_w is the
   UTF-8 encoding of the replacement: 1..4 bytes for ReplaceTgt::Char, any length for Str / Ref):
     - an accepted batch reports exactly the byte length of the rewritten text, = old length + sum of the byte deltas;
     - a rejected batch reports the byte length reached after the edits seen so far, and that is over the limit.
   The fact obligation below ties the three match arms of resolve_edits, add_replace and commit to that unit. *)
From Coq Require Import ZArith String.
From Coq Require Import List.
Local Close Scope string_scope.
Theorem C08_reported_size_is_byte_length :
  forall src smap edits t m l,
    length smap = length src + 1 -> wf_text src = true -> edits_ok src edits = true ->
    resolve the_cfg src smap edits 0 (Z.of_nat (length src)) = ROk t m l ->
    l = Z.of_nat (length t) /\ l = (Z.of_nat (length src) + delta_bytes edits)%Z.
Proof. exact (resolve_reports_byte_length the_cfg C08_facts_ok). Qed.
Print Assumptions C08_reported_size_is_byte_length.

Theorem C08_rejected_size_is_byte_length :
  forall src smap edits start cl l,
    resolve the_cfg src smap edits start cl = RTooLong l ->
    exists es1 e es2, edits = es1 ++ e :: es2 /\ l = (cl + delta_bytes (es1 ++ [e]))%Z /\
                      cmp_eval (c_resolve_cmp the_cfg) l (Z.of_N (c_resolve_limit the_cfg)) = true.
Proof. exact (resolve_too_long_is_byte_length the_cfg). Qed.
Print Assumptions C08_rejected_size_is_byte_length.

(* edit.rs / mod.rs as read on this run: every kind of replacement text (Str, Ref, Char) goes through add_replace as a &str
   of that text, add_replace answers with.len() - what.len() (byte lengths), and commit compares the RETURNED size (after
   an early return the target holds only a prefix of the rewritten text) *)
Fact C08_fact_sizes_in_bytes :
  SudachiVerif.Generated.BufferFacts.resolve_arm_units = [("Str", "bytes"); ("Ref", "bytes"); ("Char", "bytes")]%string /\
  SudachiVerif.Generated.BufferFacts.repl_delta_unit = "bytes"%string /\
  SudachiVerif.Generated.BufferFacts.commit_size_source = "returned_by_resolve_edits"%string.
Proof. vm_compute. repeat split; reflexivity. Qed.

(* ================================================================== results of a REUSED tokenizer belong to their own text
   (Model/TokResult.v, Proofs/TokResultProofs.v).  A morpheme's offsets are those of a ResultNode read through the input
   buffer of the list that holds it; they describe the text only if the node was produced from that text.  The tokenizer
   recycles one vector (top_path) for its results: reset() clears it, resolve_best_path takes it and pushes the nodes of the
   new analysis onto it, swap_result / collect_results / into_morpheme_list hand it over, and a result may never be taken.
   For EVERY session -- any number of rounds (reset + text k, do_tokenize with any outcome, result taken by collect_results,
   by swap_result with ANY vector of the caller, by into_morpheme_list, or not at all), from ANY state -- every delivered
   list is the path of the text it is delivered for (empty when the normalised text is empty or the analysis failed before
   resolve_best_path): no node of an earlier analysis, whichever way earlier results were or were not taken. *)
From SudachiVerif Require Import Model.TokResult Proofs.TokResultProofs.

Fact C08_result_facts_ok : rcfg_ok the_rcfg = true.
Proof. vm_compute. reflexivity. Qed.

Theorem C08_reset_leaves_empty_top_path :
  forall (A : Type) (s : st A) (k : N),
    top A (do_reset A the_rcfg s k) = Some [] /\ txt A (do_reset A the_rcfg s k) = k.
Proof. exact (fun A => reset_leaves_empty_top_path A the_rcfg C08_result_facts_ok). Qed.
Print Assumptions C08_reset_leaves_empty_top_path.

Theorem C08_session_delivers_own_paths :
  forall (A : Type) (path : N -> list A) (rs : list (round A)) (s : st A),
    run A path the_rcfg s rs = spec_run A path rs.
Proof. exact (fun A path => session_delivers_own_paths A path the_rcfg C08_result_facts_ok). Qed.
Print Assumptions C08_session_delivers_own_paths.

Theorem C08_delivered_nodes_belong_to_their_text :
  forall (A : Type) (path : N -> list A) (rs : list (round A)) (s : st A) (k : N) (ns : list A),
    In (RList k ns) (run A path the_rcfg s rs) -> ns = path k \/ ns = [].
Proof. exact (fun A path => delivered_nodes_belong_to_their_text A path the_rcfg C08_result_facts_ok). Qed.
Print Assumptions C08_delivered_nodes_belong_to_their_text.

(* stateful_tokenizer.rs / mlist.rs as read on this run: reset clears top_path and re-creates it when it is None;
   resolve_best_path pushes one node per path element onto the vector it took (or a new one) and returns it; do_tokenize
   returns on an empty text before touching top_path and ASSIGNS the finished path; swap_result swaps input and vector;
   into_morpheme_list moves top_path and the input; collect_results is swap_result with the list's own parts *)
Fact C08_fact_result_handover :
  SudachiVerif.Generated.ResultFacts.reset_top_path = "clear_or_recreate"%string /\
  SudachiVerif.Generated.ResultFacts.do_tokenize_stores = "assign"%string /\
  SudachiVerif.Generated.ResultFacts.into_list_shape = "moves_top_path_and_input"%string /\
  SudachiVerif.Generated.ResultFacts.collect_is_swap_with_own_parts = true.
Proof. vm_compute. repeat split; reflexivity. Qed.
