(* C15 — Joined numerals are normalised to their decimal value.
   Only the property theorems; each is closed by `exact` of a lemma proved in Proofs/NumericProofs.v.
   Every theorem is about the model instantiated with the facts of the CURRENT source ([gen_cfg]); the generic lemmas
   hold for any configuration equal to [std_cfg], and that equality is the decidable obligation below. *)
From Coq Require Import List NArith Bool.
From SudachiVerif Require Import Model.Numeric Model.NumericRef Proofs.NumericProofs Proofs.NumericRefProofs Proofs.NumericGrouped.
From SudachiVerif Require Import Model.NumericCanon Proofs.NumericCanonProofs.
Import ListNotations.

(* the facts re-extracted from numeric_parser/{mod.rs,string_number.rs} (character table, unit predicates, separators,
   group lengths, comparison operators, initial field values) are the ones the proofs were written for *)
Fact C15_facts_as_modelled : gen_cfg = std_cfg.
Proof. vm_compute. reflexivity. Qed.

(* a JoinNumericPlugin whose settings do not mention `enableNormalize` normalises (Generated/RewriteFacts.v reads both
   spellings of the settings struct): the pipeline cases configure the key as true and as absent with the same expectation *)
From SudachiVerif Require Generated.RewriteFacts.
Fact C15_fact_enable_normalize_default : Generated.RewriteFacts.enable_normalize_when_absent = true.
Proof. vm_compute. reflexivity. Qed.

(* The string arithmetic of StringNumber refines exact decimals (digit strings before / after the point, of any length):
   the abstraction commutes with normalize_scale (identity), append (one more digit), shift_scale (x 10^k, "empty means
   1"), set_point, add (succeeds exactly when the integer part of the addend fits below the current scale, and then the
   accumulator is hi*10^n and the result is hi followed by the addend: exact addition without carries, also numerically)
   and to_string (the rendering: trailing fractional zeros and a bare point dropped, leading zeros kept). *)
Theorem C15_string_arith_refines_decimal : refines_decimal gen_cfg.
Proof. exact (string_arith_refines_decimal gen_cfg C15_facts_as_modelled). Qed.
Print Assumptions C15_string_arith_refines_decimal.

(* plain digit strings of ANY length, Arabic / kanji digits mixed: accepted, normalised form = the digits, leading zeros kept *)
Theorem C15_plain_digits :
  forall cs ds, Forall2 digit_of cs ds -> ds <> [] -> parse gen_cfg cs = (true, 0%N, map digit_char ds).
Proof. exact (fun cs ds => plain_digits gen_cfg cs ds C15_facts_as_modelled). Qed.
Print Assumptions C15_plain_digits.

(* digits '.' digits, any lengths: the integer digits, then '.' and the fraction without trailing zeros (nothing when the
   fraction is all zeros) *)
Theorem C15_fraction :
  forall ic fc ip fp, Forall2 digit_of ic ip -> Forall2 digit_of fc fp -> ip <> [] -> fp <> [] ->
  parse gen_cfg (ic ++ 46%N :: fc) = (true, 0%N, render (ip, fp)).
Proof. exact (fun ic fc ip fp => fraction gen_cfg ic fc ip fp C15_facts_as_modelled). Qed.
Print Assumptions C15_fraction.

(* unit notation [d]千[d]百[d]十[d] with absent / implicit / explicit (Arabic or kanji) coefficients: all 151 999 numerals,
   normalised form = decimal digits of the value *)
Theorem C15_small_units :
  forall a b c o, In a slots -> In b slots -> In c slots -> In o ones ->
  is_absent a && is_absent b && is_absent c && is_absent o = false ->
  parse gen_cfg (su_text a b c o) = (true, 0%N, map digit_char (dec4 (su_val a b c o))).
Proof. exact (fun a b c o => small_units gen_cfg a b c o C15_facts_as_modelled). Qed.
Print Assumptions C15_small_units.

(* ---- every reachable state is well-formed; end-to-end value of accepted strings -------------------------------------- *)

(* Every state the parser reaches from NumericParser::new by a sequence of accepted characters satisfies [pinv]: the three
   accumulators are well-formed ([wf]: point within the significand), hold decimal digits only, and the number being read
   has scale 0.  These are exactly the hypotheses of the operation-level lemmas of C15_string_arith_refines_decimal, which
   are thereby discharged for all reachable states. *)
Theorem C15_wf_reachable :
  forall cs p, p_feed gen_cfg (p_new gen_cfg) cs = (true, p) -> pinv p.
Proof. exact (fun cs p => wf_reachable gen_cfg cs p C15_facts_as_modelled). Qed.
Print Assumptions C15_wf_reachable.

(* The reference evaluator [r_parse] (Model/NumericRef.v) has the control skeleton of the parser -- same flags, character
   table, unit predicates, separator rules -- but computes with exact decimals: digit strings before / after the point and
   the room below the last unit; shift is multiplication by 10^k, add is exact addition (C15_reference_add_exact).
   For EVERY string over any alphabet (digits, kanji digits, ',', '.', small units 十百千 AND large units 万億兆) the model
   parser and the reference agree on acceptance and on the error state, and an accepted string is normalised to the
   rendering of the reference value. *)
Theorem C15_parse_refines_reference :
  forall cs,
  let '(ok, e, out) := parse gen_cfg cs in
  let '(ok', e', v) := r_parse gen_cfg cs in
  ok = ok' /\ e = e' /\ (ok = true -> out = render_r v).
Proof. exact (fun cs => parse_refines gen_cfg cs C15_facts_as_modelled). Qed.
Print Assumptions C15_parse_refines_reference.

Theorem C15_accepted_value :
  forall cs e out, parse gen_cfg cs = (true, e, out) ->
  exists v, r_parse gen_cfg cs = (true, e, v) /\ out = render_r v.
Proof. exact (fun cs e out => accepted_value gen_cfg cs e out C15_facts_as_modelled). Qed.
Print Assumptions C15_accepted_value.

(* the value returned for an accepted string is an exact decimal with its room: integer part non-empty and ending in k
   zeros, no fraction when k > 0 *)
Theorem C15_accepted_value_is_decimal :
  forall cs e v, r_parse gen_cfg cs = (true, e, v) -> rn_ok v.
Proof. exact (fun cs e v => accepted_value_ok gen_cfg cs e v C15_facts_as_modelled). Qed.
Print Assumptions C15_accepted_value_is_decimal.

(* the reference addition, where defined, IS addition of the integer parts (and the accumulator has no fraction) *)
Theorem C15_reference_add_exact :
  forall ips fps ks ipn fpn kn c,
  rn_ok (RNum ips fps ks) -> rn_ok (RNum ipn fpn kn) -> r_add (RNum ips fps ks) (RNum ipn fpn kn) = Some c ->
  exists ipc, c = RNum ipc fpn kn /\ fps = [] /\ (to_N ips + to_N ipn = to_N ipc)%N /\ length ipc = length ips.
Proof. exact r_add_exact. Qed.
Print Assumptions C15_reference_add_exact.

(* ---- thousands separators ------------------------------------------------------------------------------------------ *)

(* g0 , g1 , ... , gn (n >= 1; groups of Arabic / kanji digits of ANY length, possibly empty):
   accepted iff well-formed, and then the normalised form is the digits without the separators; otherwise the parser
   rejects with the COMMA error (so JoinNumericPlugin falls back to separate pieces). *)
Theorem C15_grouped :
  forall g0c g0 gsc gs,
  Forall2 digit_of g0c g0 -> Forall2 (Forall2 digit_of) gsc gs -> gs <> [] ->
  let inp := g0c ++ concat (map (cons 44%N) gsc) in
  if groups_ok g0 gs
  then parse gen_cfg inp = (true, 0%N, map digit_char (g0 ++ concat gs))
  else fst (parse gen_cfg inp) = (false, 2%N).
Proof. exact (fun g0c g0 gsc gs => grouped gen_cfg g0c g0 gsc gs C15_facts_as_modelled). Qed.
Print Assumptions C15_grouped.

Theorem C15_grouped_accepted_iff :
  forall g0c g0 gsc gs,
  Forall2 digit_of g0c g0 -> Forall2 (Forall2 digit_of) gsc gs -> gs <> [] ->
  fst (fst (parse gen_cfg (g0c ++ concat (map (cons 44%N) gsc)))) = groups_ok g0 gs.
Proof. exact (fun g0c g0 gsc gs => grouped_accepted_iff gen_cfg g0c g0 gsc gs C15_facts_as_modelled). Qed.
Print Assumptions C15_grouped_accepted_iff.

(* what well-formed means: first group 1..3 digits and not all zeros, every later group exactly three digits *)
Theorem C15_groups_ok_spec :
  forall g0 gs, gs <> [] ->
  (groups_ok g0 gs = true <-> (1 <= length g0 <= 3 /\ all_zero g0 = false /\ Forall (fun g => length g = 3) gs)).
Proof. exact groups_ok_spec. Qed.
Print Assumptions C15_groups_ok_spec.

(* ---- canonical writings of a value denote that value ---------------------------------------------------------------- *)

(* [dec16 n] is THE decimal rendering of 0 < n < 10^16: decimal digits, no leading zero, value n; and such a string is
   unique *)
Theorem C15_dec16_is_decimal_rendering :
  forall n, (0 < n < 10 ^ 16)%N ->
  to_N (dec16 n) = n /\ all_digits (dec16 n) /\ exists x t, dec16 n = x :: t /\ x <> 0%N.
Proof. exact dec16_spec. Qed.
Print Assumptions C15_dec16_is_decimal_rendering.

Theorem C15_decimal_rendering_unique :
  forall l1 l2 x1 t1 x2 t2, all_digits l1 -> all_digits l2 -> l1 = x1 :: t1 -> l2 = x2 :: t2 -> x1 <> 0%N -> x2 <> 0%N ->
  to_N l1 = to_N l2 -> l1 = l2.
Proof. exact decimal_rendering_unique. Qed.
Print Assumptions C15_decimal_rendering_unique.

(* For EVERY value 0 < n < 10^16 and every canonical writing of it (Model/NumericCanon.v: four groups 兆 / 億 / 万 / ones
   taken from the decimal digits of n; zero groups skipped; each group, independently, either in Arabic digits without
   leading zeros -- the mixed form 3億2000万 -- or with 千 百 十, zero digits skipped, the coefficient 1 of 千 / 百 / 十
   written as 一 or omitted independently per unit, coefficient digits kanji or Arabic): the model parser accepts the
   string and normalises it to the decimal rendering of n.  Proved by structural induction over the group decomposition
   (one lemma per coefficient slot, per group writer, per large-unit step), not by enumeration. *)
Theorem C15_canonical_value :
  forall kinds sty n, (0 < n < 10 ^ 16)%N ->
  parse gen_cfg (canon_of kinds sty n) = (true, 0%N, map digit_char (dec16 n)).
Proof. exact (fun kinds sty n => canonical_value gen_cfg kinds sty n C15_facts_as_modelled). Qed.
Print Assumptions C15_canonical_value.

(* the two spellings named in the task: standard kanji (千百十 without 一, kanji digits) and Arabic digits + large units *)
Theorem C15_kanji_value :
  forall n, (0 < n < 10 ^ 16)%N -> parse gen_cfg (kanji_of n) = (true, 0%N, map digit_char (dec16 n)).
Proof. exact (fun n => canonical_value gen_cfg _ _ n C15_facts_as_modelled). Qed.
Print Assumptions C15_kanji_value.

Theorem C15_mixed_value :
  forall n, (0 < n < 10 ^ 16)%N -> parse gen_cfg (mixed_of n) = (true, 0%N, map digit_char (dec16 n)).
Proof. exact (fun n => canonical_value gen_cfg _ _ n C15_facts_as_modelled). Qed.
Print Assumptions C15_mixed_value.

(* (c) thousands separators every three digits from the right: any digit string without leading zero and more than three
   digits (any length), and as a statement about values 1000 <= n < 10^16 *)
Theorem C15_grouped_canonical :
  forall ds x t, all_digits ds -> ds = x :: t -> x <> 0%N -> 3 < length ds ->
  parse gen_cfg (grouped_text ds) = (true, 0%N, map digit_char ds).
Proof. exact (fun ds x t => grouped_canonical gen_cfg ds x t C15_facts_as_modelled). Qed.
Print Assumptions C15_grouped_canonical.

Theorem C15_grouped_value :
  forall n, (1000 <= n < 10 ^ 16)%N -> parse gen_cfg (grouped_text (dec16 n)) = (true, 0%N, map digit_char (dec16 n)).
Proof. exact (fun n => grouped_value gen_cfg n C15_facts_as_modelled). Qed.
Print Assumptions C15_grouped_value.

(* (d) decimal fraction in Arabic digits *)
Theorem C15_fraction_canonical :
  forall ip fp, all_digits ip -> all_digits fp -> ip <> [] -> fp <> [] ->
  parse gen_cfg (fraction_text ip fp) = (true, 0%N, render (ip, fp)).
Proof. exact (fun ip fp => fraction_canonical gen_cfg ip fp C15_facts_as_modelled). Qed.
Print Assumptions C15_fraction_canonical.

(* ---- large units out of order ---------------------------------------------------------------------------------------- *)

(* both group writers are "group writers" in the sense of the theorems below; their room is at most 3 *)
Theorem C15_group_writers :
  (forall st, gw_ok (kanji_group st) groom) /\ gw_ok arabic_group (fun _ => 0) /\ (forall g, groom g <= 3).
Proof. exact (conj kanji_group_ok (conj arabic_group_ok groom_le)). Qed.
Print Assumptions C15_group_writers.

(* <group 1> U1 <group 2> U2 for ANY two large units U1 = 10^E1, U2 = 10^E2 (descending, repeated or increasing) and any
   two non-zero groups in any spelling: accepted iff the digits of group 2 plus E2 fit into the room of group 1 plus E1;
   the normalised form is then group 1 x 10^E1 with group 2 x 10^E2 written into its zero positions; otherwise the
   parser rejects with error state NONE (JoinNumericPlugin then leaves the tokens separate) *)
Theorem C15_unit_order_behaviour :
  forall w1 room1 w2 room2 g1 u1 E1 g2 u2 E2,
  gw_ok w1 room1 -> gw_ok w2 room2 -> gdigits g1 -> gdigits g2 -> gz g1 = false -> gz g2 = false ->
  large_unit u1 E1 -> large_unit u2 E2 ->
  if two_unit_fits room1 g1 E1 g2 E2
  then parse gen_cfg (two_unit_text w1 w2 g1 u1 g2 u2) = (true, 0%N, map digit_char (two_unit_digits g1 E1 g2 E2))
  else fst (parse gen_cfg (two_unit_text w1 w2 g1 u1 g2 u2)) = (false, 0%N).
Proof. exact (fun w1 room1 w2 room2 g1 u1 E1 g2 u2 E2 => unit_order gen_cfg w1 room1 w2 room2 g1 u1 E1 g2 u2 E2 C15_facts_as_modelled). Qed.
Print Assumptions C15_unit_order_behaviour.

(* an INCREASING large unit (億 after 万, 兆 after 億 / 万) is ALWAYS rejected *)
Theorem C15_increasing_unit_rejected :
  forall w1 room1 w2 room2 g1 u1 E1 g2 u2 E2,
  gw_ok w1 room1 -> gw_ok w2 room2 -> gdigits g1 -> gdigits g2 -> gz g1 = false -> gz g2 = false ->
  large_unit u1 E1 -> large_unit u2 E2 -> room1 g1 <= 3 -> E1 < E2 ->
  fst (parse gen_cfg (two_unit_text w1 w2 g1 u1 g2 u2)) = (false, 0%N).
Proof. exact (fun w1 room1 w2 room2 g1 u1 E1 g2 u2 E2 => increasing_unit_rejected_g gen_cfg w1 room1 w2 room2 g1 u1 E1 g2 u2 E2 C15_facts_as_modelled). Qed.
Print Assumptions C15_increasing_unit_rejected.

(* a REPEATED large unit is accepted exactly when group 2 has no more digits than the room below the last small unit of
   group 1: never after a ones digit or an Arabic group (1万2万, 12万3万: rejected), but 百万3万, 千万5百万, 二十万5万 are
   accepted ... *)
Theorem C15_repeated_unit_iff :
  forall w1 room1 w2 room2 g1 u E g2,
  gw_ok w1 room1 -> gw_ok w2 room2 -> gdigits g1 -> gdigits g2 -> gz g1 = false -> gz g2 = false -> large_unit u E ->
  fst (fst (parse gen_cfg (two_unit_text w1 w2 g1 u g2 u))) = Nat.leb (length (sdig g2)) (room1 g1).
Proof. exact (fun w1 room1 w2 room2 g1 u E g2 => repeated_unit_iff_g gen_cfg w1 room1 w2 room2 g1 u E g2 C15_facts_as_modelled). Qed.
Print Assumptions C15_repeated_unit_iff.

(* ... and then the value is the SUM of the two parts: no digit of group 1 is overwritten.  So a string with units out of
   order is never joined into a value other than the sum of its parts. *)
Theorem C15_two_unit_value_is_sum :
  forall room1 g1 E1 g2 E2,
  (exists h, sdig g1 = h ++ repeat 0%N (room1 g1)) -> two_unit_fits room1 g1 E1 g2 E2 = true ->
  to_N (two_unit_digits g1 E1 g2 E2) = (to_N (sdig g1 ++ repeat 0%N E1) + to_N (sdig g2 ++ repeat 0%N E2))%N.
Proof. exact two_unit_value_is_sum. Qed.
Print Assumptions C15_two_unit_value_is_sum.
