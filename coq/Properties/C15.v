(* C15 — Joined numerals are normalised to their decimal value. *)
From Coq Require Import List NArith.
From SudachiVerif Require Import Model.Numeric.

(* the facts re-extracted from numeric_parser/{mod.rs,string_number.rs} are the ones the proofs were written for *)
Fact C15_facts_as_modelled : gen_cfg = std_cfg.
Proof. vm_compute. reflexivity. Qed.
