(* C15 — Joined numerals are normalised to their decimal value.
   Only the property theorems; each is closed by `exact` of a lemma proved in Proofs/NumericProofs.v.
   Every theorem is about the model instantiated with the facts of the CURRENT source ([gen_cfg]); the generic lemmas
   hold for any configuration equal to [std_cfg], and that equality is the decidable obligation below. *)
From Coq Require Import List NArith Bool.
From SudachiVerif Require Import Model.Numeric Model.NumericRef Proofs.NumericProofs Proofs.NumericRefProofs Proofs.NumericGrouped.
Import ListNotations.

(* the facts re-extracted from numeric_parser/{mod.rs,string_number.rs} (character table, unit predicates, separators,
   group lengths, comparison operators, initial field values) are the ones the proofs were written for *)
Fact C15_facts_as_modelled : gen_cfg = std_cfg.
Proof. vm_compute. reflexivity. Qed.

(* The string arithmetic of StringNumber refines exact decimals (digit strings before / after the point, of any length):
   the abstraction commutes with normalize_scale (identity), append (one more digit), shift_scale (x 10^k, "empty means
   1"), set_point, add (succeeds exactly when the integer part of the addend fits below the current scale, and then the
   accumulator is hi*10^n and the result is hi followed by the addend: exact addition without carries, also numerically)
   and to_string (the rendering: trailing fractional zeros and a bare point dropped, leading zeros kept). *)
Theorem C15_string_arith_refines_decimal : refines_decimal gen_cfg.
Proof. exact (string_arith_refines_decimal gen_cfg C15_facts_as_modelled). Qed.
Print Assumptions C15_string_arith_refines_decimal.

(* plain digit strings of ANY length, Arabic / kanji digits mixed: accepted, normalised form = the digits, leading zeros kept *)
Theorem C15_plain_digits :
  forall cs ds, Forall2 digit_of cs ds -> ds <> [] -> parse gen_cfg cs = (true, 0%N, map digit_char ds).
Proof. exact (fun cs ds => plain_digits gen_cfg cs ds C15_facts_as_modelled). Qed.
Print Assumptions C15_plain_digits.

(* digits '.' digits, any lengths: the integer digits, then '.' and the fraction without trailing zeros (nothing when the
   fraction is all zeros) *)
Theorem C15_fraction :
  forall ic fc ip fp, Forall2 digit_of ic ip -> Forall2 digit_of fc fp -> ip <> [] -> fp <> [] ->
  parse gen_cfg (ic ++ 46%N :: fc) = (true, 0%N, render (ip, fp)).
Proof. exact (fun ic fc ip fp => fraction gen_cfg ic fc ip fp C15_facts_as_modelled). Qed.
Print Assumptions C15_fraction.

(* unit notation [d]千[d]百[d]十[d] with absent / implicit / explicit (Arabic or kanji) coefficients: all 151 999 numerals,
   normalised form = decimal digits of the value *)
Theorem C15_small_units :
  forall a b c o, In a slots -> In b slots -> In c slots -> In o ones ->
  is_absent a && is_absent b && is_absent c && is_absent o = false ->
  parse gen_cfg (su_text a b c o) = (true, 0%N, map digit_char (dec4 (su_val a b c o))).
Proof. exact (fun a b c o => small_units gen_cfg a b c o C15_facts_as_modelled). Qed.
Print Assumptions C15_small_units.

(* ---- every reachable state is well-formed; end-to-end value of accepted strings -------------------------------------- *)

(* Every state the parser reaches from NumericParser::new by a sequence of accepted characters satisfies [pinv]: the three
   accumulators are well-formed ([wf]: point within the significand), hold decimal digits only, and the number being read
   has scale 0.  These are exactly the hypotheses of the operation-level lemmas of C15_string_arith_refines_decimal, which
   are thereby discharged for all reachable states. *)
Theorem C15_wf_reachable :
  forall cs p, p_feed gen_cfg (p_new gen_cfg) cs = (true, p) -> pinv p.
Proof. exact (fun cs p => wf_reachable gen_cfg cs p C15_facts_as_modelled). Qed.
Print Assumptions C15_wf_reachable.

(* The reference evaluator [r_parse] (Model/NumericRef.v) has the control skeleton of the parser -- same flags, character
   table, unit predicates, separator rules -- but computes with exact decimals: digit strings before / after the point and
   the room below the last unit; shift is multiplication by 10^k, add is exact addition (C15_reference_add_exact).
   For EVERY string over any alphabet (digits, kanji digits, ',', '.', small units 十百千 AND large units 万億兆) the model
   parser and the reference agree on acceptance and on the error state, and an accepted string is normalised to the
   rendering of the reference value. *)
Theorem C15_parse_refines_reference :
  forall cs,
  let '(ok, e, out) := parse gen_cfg cs in
  let '(ok', e', v) := r_parse gen_cfg cs in
  ok = ok' /\ e = e' /\ (ok = true -> out = render_r v).
Proof. exact (fun cs => parse_refines gen_cfg cs C15_facts_as_modelled). Qed.
Print Assumptions C15_parse_refines_reference.

Theorem C15_accepted_value :
  forall cs e out, parse gen_cfg cs = (true, e, out) ->
  exists v, r_parse gen_cfg cs = (true, e, v) /\ out = render_r v.
Proof. exact (fun cs e out => accepted_value gen_cfg cs e out C15_facts_as_modelled). Qed.
Print Assumptions C15_accepted_value.

(* the value returned for an accepted string is an exact decimal with its room: integer part non-empty and ending in k
   zeros, no fraction when k > 0 *)
Theorem C15_accepted_value_is_decimal :
  forall cs e v, r_parse gen_cfg cs = (true, e, v) -> rn_ok v.
Proof. exact (fun cs e v => accepted_value_ok gen_cfg cs e v C15_facts_as_modelled). Qed.
Print Assumptions C15_accepted_value_is_decimal.

(* the reference addition, where defined, IS addition of the integer parts (and the accumulator has no fraction) *)
Theorem C15_reference_add_exact :
  forall ips fps ks ipn fpn kn c,
  rn_ok (RNum ips fps ks) -> rn_ok (RNum ipn fpn kn) -> r_add (RNum ips fps ks) (RNum ipn fpn kn) = Some c ->
  exists ipc, c = RNum ipc fpn kn /\ fps = [] /\ (to_N ips + to_N ipn = to_N ipc)%N /\ length ipc = length ips.
Proof. exact r_add_exact. Qed.
Print Assumptions C15_reference_add_exact.

(* ---- thousands separators ------------------------------------------------------------------------------------------ *)

(* g0 , g1 , ... , gn (n >= 1; groups of Arabic / kanji digits of ANY length, possibly empty):
   accepted iff well-formed, and then the normalised form is the digits without the separators; otherwise the parser
   rejects with the COMMA error (so JoinNumericPlugin falls back to separate pieces). *)
Theorem C15_grouped :
  forall g0c g0 gsc gs,
  Forall2 digit_of g0c g0 -> Forall2 (Forall2 digit_of) gsc gs -> gs <> [] ->
  let inp := g0c ++ concat (map (cons 44%N) gsc) in
  if groups_ok g0 gs
  then parse gen_cfg inp = (true, 0%N, map digit_char (g0 ++ concat gs))
  else fst (parse gen_cfg inp) = (false, 2%N).
Proof. exact (fun g0c g0 gsc gs => grouped gen_cfg g0c g0 gsc gs C15_facts_as_modelled). Qed.
Print Assumptions C15_grouped.

Theorem C15_grouped_accepted_iff :
  forall g0c g0 gsc gs,
  Forall2 digit_of g0c g0 -> Forall2 (Forall2 digit_of) gsc gs -> gs <> [] ->
  fst (fst (parse gen_cfg (g0c ++ concat (map (cons 44%N) gsc)))) = groups_ok g0 gs.
Proof. exact (fun g0c g0 gsc gs => grouped_accepted_iff gen_cfg g0c g0 gsc gs C15_facts_as_modelled). Qed.
Print Assumptions C15_grouped_accepted_iff.

(* what well-formed means: first group 1..3 digits and not all zeros, every later group exactly three digits *)
Theorem C15_groups_ok_spec :
  forall g0 gs, gs <> [] ->
  (groups_ok g0 gs = true <-> (1 <= length g0 <= 3 /\ all_zero g0 = false /\ Forall (fun g => length g = 3) gs)).
Proof. exact groups_ok_spec. Qed.
Print Assumptions C15_groups_ok_spec.
