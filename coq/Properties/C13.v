(* C13 — Unknown-word candidates follow the character-class definition.
   This file holds only the property theorems (each closed by `exact` of a lemma proved in Proofs/Oov*.v) and the decidable
   obligations on the facts re-read from the source (Generated/OovFacts.v, Generated/CategoryFacts.v). *)
From Coq Require Import List NArith ZArith String.
From SudachiVerif Require Generated.CategoryFacts Generated.OovFacts.
From SudachiVerif Require Import Model.Oov Proofs.OovContinuity Proofs.OovCreated Proofs.OovMecab Proofs.OovFallback.
From SudachiVerif Require Import Proofs.OovWf Proofs.OovMorpheme.
From SudachiVerif Require Model.Lattice Model.BuildLattice Proofs.LatticeProofs Proofs.BuildLatticeProofs Proofs.BuildOptimal
     Proofs.TotalitySimple Proofs.OovLattice.
Import ListNotations.
Open Scope N_scope.

Module CF := Generated.CategoryFacts.

(* ------------------------------------------------------------------ obligations on the generated facts *)
(* every source shape the fact translator looks at was recognised (otherwise the model runs on the values of the property
   statement and this obligation fails, naming the unrecognised shapes) *)
Fact fact_all_shapes_recognised : OF.unrecognised = [].
Proof. vm_compute. reflexivity. Qed.
Fact fact_regex_ignores_empty_match : OF.regex_ignores_empty_match = true.
Proof. vm_compute. reflexivity. Qed.
(* WordId packs the dictionary into the bits above the 28-bit word part; 0xf is the OOV dictionary *)
Fact fact_word_id_dic_shift : OF.word_id_dic_shift = 28.
Proof. vm_compute. reflexivity. Qed.
Fact fact_word_mask : OF.word_mask = N.ones 28.
Proof. vm_compute. reflexivity. Qed.
Fact fact_oov_dic_id : OF.oov_dic_id = 15.
Proof. vm_compute. reflexivity. Qed.
(* the word info of an OOV node: part of speech = word part of the word id, surface = slice of the analysed (normalised) text *)
Fact fact_oov_info_fields : OF.oov_info_fields = [("pos_id", "word_id.word:u16"); ("surface", "curr_slice_c")]%string.
Proof. vm_compute. reflexivity. Qed.
Fact fact_form_fallbacks :
  OF.form_fallbacks = [("normalized_form", "surface"); ("dictionary_form", "surface"); ("reading_form", "surface")]%string.
Proof. vm_compute. reflexivity. Qed.
Fact fact_oov_dictionary_id : OF.oov_dictionary_id = (-1)%Z.
Proof. vm_compute. reflexivity. Qed.
Fact fact_continuity_forward : OF.continuity_forward = true.
Proof. vm_compute. reflexivity. Qed.
Fact fact_mecab_break_cmp : OF.mecab_break_cmp = ">"%string.
Proof. vm_compute. reflexivity. Qed.
Fact fact_mecab_len_inclusive : OF.mecab_len_inclusive = true.
Proof. vm_compute. reflexivity. Qed.
(* since the fix of the clamped-distance loop the length loop also leaves when char_distance stops growing *)
Fact fact_mecab_break_on_clamp : OF.mecab_break_on_clamp = true.
Proof. vm_compute. reflexivity. Qed.
Fact fact_mecab_group_dec : OF.mecab_group_dec = 1%nat.
Proof. vm_compute. reflexivity. Qed.
Fact fact_has_word_maybe_cmp : OF.has_word_maybe_cmp = ">="%string.
Proof. vm_compute. reflexivity. Qed.
Fact fact_max_value_positive : 1 <= MAXV.
Proof. vm_compute. discriminate. Qed.
Fact fact_single_asserts_positive : OF.single_asserts_positive = true.
Proof. vm_compute. reflexivity. Qed.
Fact fact_fallback_is_last : OF.fallback_provider = "last"%string.
Proof. vm_compute. reflexivity. Qed.
Fact fact_bow_chain :
  exists ma, bow_chain = [RPrevForbids; RForbidThisAndNext CF.NOOOVBOW2; RForbidThis CF.NOOOVBOW; RNeedsClassChange ma].
Proof. eexists. vm_compute. reflexivity. Qed.
Fact fact_gate_mask : OF.oov_gate_mask = N.lor CF.NOOOVBOW CF.NOOOVBOW2.
Proof. vm_compute. reflexivity. Qed.
Fact fact_bow_chain_is_spec : bow_chain = spec_chain.
Proof. vm_compute. reflexivity. Qed.
Fact fact_gate_is_spec : OF.oov_gate_mask = spec_gate.
Proof. vm_compute. reflexivity. Qed.
(* every class of CategoryType except the composite ALL is a single bit not shared with an earlier class *)
Fact fact_single_bit_classes :
  simple_from [] flag_values = filter (fun f => negb (f =? CF.ALL)) flag_values.
Proof. vm_compute. reflexivity. Qed.

(* ------------------------------------------------------------------ class runs (continuity) *)
(* for every text: what fill_cat_continuity computes is the left-to-right specification *)
Theorem C13_continuity_eq_spec : forall cs, continuity cs = continuity_spec cs.
Proof. exact (continuity_eq_spec_generic fact_continuity_forward). Qed.
Print Assumptions C13_continuity_eq_spec.

(* the specification cuts the text, from its start, into maximal stretches whose characters have a class in common
   (Seg); the value at a position is the distance to the end of its stretch *)
Theorem C13_continuity_spec_is_segmentation :
  forall cs, exists ls, Seg cs ls /\ continuity_spec cs = flat_map countdown ls.
Proof. exact continuity_spec_is_segmentation. Qed.
Print Assumptions C13_continuity_spec_is_segmentation.

(* and that segmentation is the only one: the runs are determined left to right from the start of the text *)
Theorem C13_segmentation_unique : forall cs l1, Seg cs l1 -> forall l2, Seg cs l2 -> l1 = l2.
Proof. exact Seg_unique. Qed.
Print Assumptions C13_segmentation_unique.

(* a run never reaches past the end of the text and has at least one character *)
Theorem C13_continuity_bounds :
  forall cs i v, nth_error (continuity_spec cs) i = Some v -> (1 <= v /\ i + v <= List.length cs)%nat.
Proof. exact spec_bound. Qed.
Print Assumptions C13_continuity_bounds.

(* a base character (classes a <> 0) followed by a character carrying every class of it (a class-ALL combining mark or
   modifier) is in one run with it, whatever follows: it is never separated from the mark because of what comes after *)
Theorem C13_base_not_separated_from_marks :
  forall cs j a b v w,
    nth_error cs j = Some a -> nth_error cs (S j) = Some b -> a <> 0 -> N.land a b = a ->
    nth_error (continuity_spec cs) j = Some v -> nth_error (continuity_spec cs) (S j) = Some w -> v = S w.
Proof. exact mark_joins_run. Qed.
Print Assumptions C13_base_not_separated_from_marks.

(* ------------------------------------------------------------------ MeCab provider *)
(* for all definitions (several per class, any invoke/group/length flags), texts, offsets and created-words states:
   the candidates are exactly (as a set) those prescribed -- for each class of the character that is always invoked or
   invoked because nothing exists yet, and each unknown-word definition of that class: the grouped candidate spanning the
   class run and the candidates of 1..n characters within the run, with the ids, cost and part of speech of the definition *)
Theorem C13_mecab_candidates_spec :
  forall m cs off other ns,
    mecab_provide m cs (continuity cs) off other = ROk ns ->
    forall nd, In nd ns <->
      exists char_len c ctype ci oovs o l,
        nth_error (continuity_spec cs) off = Some char_len /\ nth_error cs off = Some c
        /\ In ctype (iter_flags c)
        /\ find_cinfo m ctype = Some ci
        /\ (ci_invoke ci = true \/ other = 0)
        /\ find_oovs m (ci_type ci) = Some oovs /\ In o oovs
        /\ nd = oov_node off (off + l)%nat o
        /\ ((ci_group ci = true /\ l = char_len)
            \/ ((1 <= l)%nat /\ N.of_nat l <= ci_length ci /\ (l <= (if ci_group ci then pred char_len else char_len))%nat)).
Proof.
  exact (mecab_candidates_explicit fact_mecab_break_cmp fact_mecab_len_inclusive fact_mecab_group_dec fact_mecab_break_on_clamp
                                  fact_continuity_forward).
Qed.
Print Assumptions C13_mecab_candidates_spec.

(* the produced list is even the prescribed list itself (same order): nothing is produced twice *)
Theorem C13_mecab_candidates_eq_prescribed :
  forall m cs off other ns,
    mecab_provide m cs (continuity cs) off other = ROk ns -> ns = prescribed m cs off other.
Proof.
  exact (fun m cs off other ns =>
           mecab_provide_eq_prescribed fact_mecab_break_cmp fact_mecab_len_inclusive fact_mecab_group_dec
                                       fact_mecab_break_on_clamp m cs off other ns
                                       (continuity_eq_spec_generic fact_continuity_forward cs)).
Qed.
Print Assumptions C13_mecab_candidates_eq_prescribed.

(* for distinct unk.def templates the candidate list of one class has no duplicates, whatever the `length` of the class
   (the pinned loop repeated the full-run candidate for every length beyond the end of the text) *)
Theorem C13_mecab_no_duplicates :
  forall m len off char_len other ctype,
    (1 <= char_len)%nat -> (off + char_len <= len)%nat ->
    (forall t oovs, In (t, oovs) (m_oovs m) -> NoDup oovs) ->
    NoDup (mecab_class m len off char_len other ctype).
Proof.
  exact (mecab_no_duplicates_generic fact_mecab_break_cmp fact_mecab_len_inclusive fact_mecab_group_dec fact_mecab_break_on_clamp).
Qed.
Print Assumptions C13_mecab_no_duplicates.

(* and it is bounded by the run length times the number of templates, independently of `length` (a u32, up to 4294967295):
   at most char_len x templates candidates per class -- in particular at most (run length + 1) x templates *)
Theorem C13_mecab_candidates_bounded :
  forall m len off char_len other ctype bound,
    (1 <= char_len)%nat -> (off + char_len <= len)%nat ->
    (forall t oovs, In (t, oovs) (m_oovs m) -> (List.length oovs <= bound)%nat) ->
    (List.length (mecab_class m len off char_len other ctype) <= char_len * bound)%nat.
Proof.
  exact (mecab_candidates_bounded_generic fact_mecab_break_cmp fact_mecab_len_inclusive fact_mecab_group_dec
                                          fact_mecab_break_on_clamp).
Qed.
Print Assumptions C13_mecab_candidates_bounded.

(* "each class of the character": a single-bit class is visited iff the character has it *)
Theorem C13_classes_iterated :
  forall c f, In f (simple_from [] flag_values) -> (In f (iter_flags c) <-> contains c f = true).
Proof. exact classes_iterated_generic. Qed.
Print Assumptions C13_classes_iterated.

(* ------------------------------------------------------------------ CreatedWords *)
(* No => no word of that length exists (from MAX_VALUE up: no long word at all); Yes => that length exists (only below
   MAX_VALUE, where the set is exact); Maybe => the length is >= MAX_VALUE and some word of length >= MAX_VALUE exists *)
Theorem C13_created_words_sound :
  forall lens cw l,
    cw_add_all 0 lens = Some cw -> (forall x, In x lens -> (0 < x)%nat) -> (0 < l)%nat ->
    match cw_has_word cw (N.of_nat l) with
    | Some HNo => ~ In l lens /\ (MAXV <= N.of_nat l -> forall x, In x lens -> N.of_nat x < MAXV)
    | Some HYes => In l lens /\ N.of_nat l < MAXV
    | Some HMaybe => MAXV <= N.of_nat l /\ exists x, In x lens /\ MAXV <= N.of_nat x
    | None => False
    end.
Proof. exact (created_words_sound_generic fact_has_word_maybe_cmp fact_max_value_positive). Qed.
Print Assumptions C13_created_words_sound.

(* ------------------------------------------------------------------ provider sequencing, fallback *)
(* at a processed position the fallback provider contributes exactly when the dictionary and the regular providers
   produced nothing; then the buffer is what the fallback provider yields on an empty state, and it is not empty *)
Theorem C13_fallback_iff_nothing :
  forall c ps off dict buf,
    position_step c ps off dict = ROk buf ->
    exists cw1 normal,
      normal_pass c ps off dict = ROk (cw1, normal)
      /\ ((normal <> [] /\ buf = normal)
          \/ (normal = [] /\ exists p extra, fallback_of ps = Some p /\ provide p c off 0 [] = ROk extra
                                             /\ extra <> [] /\ buf = extra)).
Proof. exact fallback_iff_nothing. Qed.
Print Assumptions C13_fallback_iff_nothing.

Theorem C13_fallback_is_last_provider : forall ps p, fallback_of (ps ++ [p]) = Some p.
Proof. exact (fun ps p => fallback_is_last ps p fact_fallback_is_last). Qed.
Print Assumptions C13_fallback_is_last_provider.

(* every position the lattice construction processes gets a candidate (else the analysis stops with an error) *)
Theorem C13_every_processed_position_has_candidate :
  forall c ps dict r, build_lattice c ps dict = ROk r -> Forall (fun x => x <> Some []) r.
Proof. exact lattice_positions_have_candidates. Qed.
Print Assumptions C13_every_processed_position_has_candidate.

(* the Simple provider: one candidate iff nothing was created yet; it ends at the next permissible word start (or the end
   of the text) and crosses no permissible start *)
Theorem C13_simple_candidate_spec :
  forall o cs off other, (off < List.length cs)%nat ->
    exists ns, simple_provide o (can_bow cs) off other = ROk ns
      /\ (other <> 0 -> ns = [])
      /\ (other = 0 -> exists e, ns = [oov_node off e o] /\ (off < e <= List.length cs)%nat
                         /\ (forall i, (off < i < e)%nat -> nth i (can_bow cs) true = false)
                         /\ (e = List.length cs \/ nth e (can_bow cs) false = true)).
Proof. exact simple_candidate_spec. Qed.
Print Assumptions C13_simple_candidate_spec.

(* with the Simple provider as fallback the construction cannot stop at a reachable position *)
Theorem C13_simple_fallback_total :
  forall c ps off dict o st,
    fallback_of ps = Some (PSimple o) -> (off < List.length (c_bows c))%nat ->
    normal_pass c ps off dict = ROk st ->
    exists buf, position_step c ps off dict = ROk buf
                /\ (snd st = [] -> buf = [oov_node off (off + word_candidate_length (c_bows c) off) o]).
Proof. exact simple_fallback_total. Qed.
Print Assumptions C13_simple_fallback_total.

(* the Regex provider (match = oracle): at most one candidate, spanning the match, never a span that already exists *)
Theorem C13_regex_no_duplicate :
  forall x conts off other result ns,
    cw_add_all 0 (map node_len result) = Some other ->
    (forall n, In n result -> n_begin n = off /\ (off < n_end n)%nat) ->
    regex_provide x conts off other result = ROk ns ->
    forall nd, In nd ns ->
      n_begin nd = off /\ (off < n_end nd)%nat /\ (forall n, In n result -> n_end n <> n_end nd)
      /\ ns = [nd] /\ exists mlen, nth_error (x_matches x) off = Some (Some (true, mlen)) /\ n_end nd = (off + mlen)%nat.
Proof. exact (regex_no_duplicate_generic fact_has_word_maybe_cmp fact_max_value_positive fact_single_asserts_positive). Qed.
Print Assumptions C13_regex_no_duplicate.

(* ------------------------------------------------------------------ permissible word starts *)
(* a NOOOVBOW / NOOOVBOW2 character is never a permissible word start; the providers are skipped there *)
Theorem C13_can_bow_never_gated :
  forall cs i c, nth_error (can_bow cs) i = Some true -> nth_error cs i = Some c -> inter c OF.oov_gate_mask = false.
Proof. exact (can_bow_never_gated CF.NOOOVBOW2 CF.NOOOVBOW fact_bow_chain fact_gate_mask). Qed.
Print Assumptions C13_can_bow_never_gated.

(* neither is the character that follows an (examined) NOOOVBOW2 character *)
Theorem C13_bow_next_forbidden :
  forall prev c d t, inter c CF.NOOOVBOW2 = true ->
    bow_loop bow_chain true prev (c :: d :: t) = false :: false :: bow_loop bow_chain true d t.
Proof. exact (bow_next_forbidden CF.NOOOVBOW2 CF.NOOOVBOW fact_bow_chain). Qed.
Print Assumptions C13_bow_next_forbidden.

(* the chain deciding permissible word starts is the one of the statement: forbidden by a preceding NOOOVBOW2 character,
   NOOOVBOW2 (this and next), NOOOVBOW (this), Latin/Greek/Cyrillic letters only at a class change, everything else free *)
Theorem C13_can_bow_eq_spec : forall cs, can_bow cs = can_bow_spec cs.
Proof. exact (can_bow_eq_spec_generic fact_bow_chain_is_spec). Qed.
Print Assumptions C13_can_bow_eq_spec.

(* the lattice loop skips the providers exactly at NOOOVBOW / NOOOVBOW2 characters and falls back to the last provider *)
Theorem C13_build_lattice_eq_spec : forall c ps dict, build_lattice c ps dict = build_lattice_spec c ps dict.
Proof. exact (build_lattice_eq_spec_generic fact_gate_is_spec fact_fallback_is_last). Qed.
Print Assumptions C13_build_lattice_eq_spec.

(* ------------------------------------------------------------------ well-formed candidates; the lattice built from them *)
(* every candidate that a provider model yields at character offset off of a text of length(cs) characters begins at off and
   ends strictly after off and not after the end of the text (Regex: under the oracle hypothesis that a reported match ends
   within the searched window; an empty match yields nothing) *)
Theorem C13_candidates_wf :
  forall p cs off other result ns,
    provider_oracle_ok p (List.length cs) ->
    provide p (mk_ctx cs) off other result = ROk ns ->
    forall nd, In nd ns -> n_begin nd = off /\ (off < n_end nd <= List.length cs)%nat.
Proof. exact (candidates_wf fact_continuity_forward fact_regex_ignores_empty_match). Qed.
Print Assumptions C13_candidates_wf.

(* the same for the whole node buffer of a position (well-formed dictionary candidates, every provider in order, fallback) *)
Theorem C13_position_candidates_wf :
  forall cs ps off dict buf,
    (forall p, In p ps -> provider_oracle_ok p (List.length cs)) ->
    Forall (cand_wf (List.length cs) off) dict ->
    position_step (mk_ctx cs) ps off dict = ROk buf -> Forall (cand_wf (List.length cs) off) buf.
Proof.
  exact (fun cs ps off dict buf H1 H2 H3 =>
           position_step_wf fact_continuity_forward fact_regex_ignores_empty_match OF.oov_gate_mask (fallback_of ps) cs ps off
                            dict buf H1 (fun p Hp => H1 p (fallback_of_in ps p Hp)) H2 H3).
Qed.
Print Assumptions C13_position_candidates_wf.

Module L := Model.Lattice.
Module BL := Model.BuildLattice.
Module BO := Proofs.BuildOptimal.
Module OL := Proofs.OovLattice.

(* converted to lattice nodes, what the provider model offers at a position is well formed: the hypothesis offered_wf of
   C02_build_optimal / cands_wf of C03_fallback_total, discharged for dictionary candidates assumed well formed + OOV providers *)
Theorem C13_oov_offered_wf :
  forall cs ps (dict : nat -> list node),
    (forall p m, In m (dict p) -> cand_wf (List.length cs) p m) ->
    (forall q, In q ps -> provider_oracle_ok q (List.length cs)) ->
    forall p m, In m (OL.oov_offered cs ps dict p) -> Proofs.BuildLatticeProofs.node_wf (List.length cs) p m.
Proof. exact (OL.oov_offered_wf fact_continuity_forward fact_regex_ignores_empty_match). Qed.
Print Assumptions C13_oov_offered_wf.

(* C02 instantiated: the lattice built from the dictionary candidates and the provider model (position_step at every position
   that something reaches) attains the minimum cost over all chains of offered candidates covering the text *)
Theorem C13_build_optimal_oov :
  forall cs ps (dict : nat -> list node),
    (forall p m, In m (dict p) -> cand_wf (List.length cs) p m) ->
    (forall q, In q ps -> provider_oracle_ok q (List.length cs)) ->
    forall (conn : N -> N -> Z) Lt r i c,
      (0 < List.length cs)%nat ->
      BL.build conn (OL.oov_offered cs ps dict) OL.no_fallback (List.length cs) = Some (Lt, (r, i, c)) ->
      (exists p, BO.chainP (BO.Offered (OL.oov_offered cs ps dict) OL.no_fallback) 0 (List.length cs) p
                 /\ L.path_cost conn p = c) /\
      (forall p, BO.chainP (BO.Offered (OL.oov_offered cs ps dict) OL.no_fallback) 0 (List.length cs) p ->
                 (c <= L.path_cost conn p)%Z).
Proof. exact (OL.build_optimal_oov fact_continuity_forward fact_regex_ignores_empty_match). Qed.
Print Assumptions C13_build_optimal_oov.

(* C03 instantiated: with the Simple provider as fallback (and no provider failing) the lattice gets connected, whatever
   the dictionary and the other providers offer *)
Theorem C13_lattice_total_oov :
  forall cs ps (dict : nat -> list node) o,
    (forall p m, In m (dict p) -> cand_wf (List.length cs) p m) ->
    (forall q, In q ps -> provider_oracle_ok q (List.length cs)) ->
    fallback_of ps = Some (PSimple o) ->
    (forall p, (p < List.length cs)%nat -> exists st, normal_pass (mk_ctx cs) ps p (dict p) = ROk st) ->
    forall conn : N -> N -> Z,
      exists Lt e, BL.build conn (OL.oov_offered cs ps dict) OL.no_fallback (List.length cs) = Some (Lt, e).
Proof. exact (OL.lattice_total_oov fact_continuity_forward fact_regex_ignores_empty_match). Qed.
Print Assumptions C13_lattice_total_oov.

(* ------------------------------------------------------------------ OOV morphemes of the result *)
(* an OOV node of the best path (word id = WordId::oov(pos), pos a u16) is reported as: is_oov, dictionary -1, part of
   speech pos, surface = the original text of its range, and the normalised text of its range as normalized, dictionary
   and reading form *)
Theorem C13_oov_morpheme_fields :
  forall orig norm pos b e,
    pos < 65536 ->
    oov_morpheme orig norm (wid_oov pos) b e =
    mkMV true (-1)%Z pos (slice orig b e) (slice norm b e) (slice norm b e) (slice norm b e).
Proof.
  exact (oov_morpheme_fields_generic fact_word_id_dic_shift fact_word_mask fact_oov_dic_id fact_oov_info_fields
                                     fact_form_fallbacks fact_oov_dictionary_id).
Qed.
Print Assumptions C13_oov_morpheme_fields.

(* and a dictionary word (dictionaries 0..14) is never taken for an OOV one and reports its dictionary *)
Theorem C13_dictionary_word_not_oov :
  forall dic word, dic < 15 ->
    wid_is_oov (wid_new dic word) = false /\ dictionary_id (wid_new dic word) = Z.of_N dic.
Proof. exact (dict_wid_not_oov fact_word_id_dic_shift fact_word_mask fact_oov_dic_id). Qed.
Print Assumptions C13_dictionary_word_not_oov.

(* ================================================================== OOV morphemes over the real buffer state; providers
   that cannot fail; the part of speech through the best path *)
From SudachiVerif Require Model.Buffer Proofs.BufferProofs Proofs.BufferCharProofs Model.OovBuffer Proofs.OovBufferProofs
     Proofs.OovTotal Proofs.OovBestPath Model.Tokenizer Model.LexSet Proofs.EndToEnd Proofs.LookupLattice Proofs.PipelineFull
     Model.Normalize.

Module Bf := Model.Buffer.
Module OB := Model.OovBuffer.
Module Tk := Model.Tokenizer.
Module BP := Proofs.OovBestPath.

Fact fact_buffer_cfg_ok : Bf.cfg_ok Bf.the_cfg = true.
Proof. vm_compute. reflexivity. Qed.
Fact fact_created_max_value : MAXV = 64.
Proof. vm_compute. reflexivity. Qed.

(* For every original text o, every buffer state s reachable from it by any stack of edit batches (Reach: start_build, then
   commits of well-formed batches -- length-changing normalisations included), and every result node n whose character and
   byte coordinates in the NORMALISED text agree: the Morpheme of an OOV node (word id WordId::oov(pos)) reports
     is_oov, dictionary -1, part of speech pos,
     surface            = the ORIGINAL bytes between the images b, e of the node's ends under the offset map
                          (b = Morpheme::begin, e = Morpheme::end: C08_morpheme_offsets),
     normalized_form = dictionary_form = reading_form = the NORMALISED bytes of the node's range (curr_slice_c). *)
Theorem C13_oov_morpheme_fields_buffer :
  forall o s n pos,
    Bf.wf_text o = true -> Proofs.BufferProofs.Reach Bf.the_cfg o s -> Proofs.BufferCharProofs.rnode_ok (Bf.cur s) n ->
    pos < 65536 ->
    exists b e,
      Bf.morpheme_begin s n = Some b /\ Bf.morpheme_end s n = Some e /\ (b <= e)%nat /\
      Bf.curr_slice_c (Bf.cur s) (Bf.rn_bc n) (Bf.rn_ec n) = Some (Bf.byte_slice (Bf.cur s) (Bf.rn_bb n, Bf.rn_eb n)) /\
      OB.oov_morpheme_buf s (wid_oov pos) n =
      Some (mkMV true (-1)%Z pos (Bf.byte_slice o (b, e))
                 (Bf.byte_slice (Bf.cur s) (Bf.rn_bb n, Bf.rn_eb n)) (Bf.byte_slice (Bf.cur s) (Bf.rn_bb n, Bf.rn_eb n))
                 (Bf.byte_slice (Bf.cur s) (Bf.rn_bb n, Bf.rn_eb n))).
Proof.
  exact (Proofs.OovBufferProofs.oov_morpheme_fields_buffer_generic fact_word_id_dic_shift fact_word_mask fact_oov_dic_id
           fact_oov_info_fields fact_form_fallbacks fact_oov_dictionary_id Bf.the_cfg fact_buffer_cfg_ok).
Qed.
Print Assumptions C13_oov_morpheme_fields_buffer.

(* and when the normalised text is the UTF-8 encoding of the code points t (always: C07 / PipelineFull.reachU_utf8), those
   normalised bytes are the encoding of t's code points bc..ec -- the lattice's character range of the node *)
Theorem C13_normalised_slice_is_enc :
  forall (t : list N) bc ec, t <> [] -> (bc <= ec)%nat -> (ec <= List.length t)%nat ->
    Bf.curr_slice_c (Proofs.PipelineFull.enc t) bc ec = Some (Proofs.PipelineFull.enc (Model.Normalize.slice t bc ec)).
Proof. exact (Proofs.OovBufferProofs.curr_slice_c_enc Bf.the_cfg fact_buffer_cfg_ok). Qed.
Print Assumptions C13_normalised_slice_is_enc.

(* ------------------------------------------------------------------ when does a provider fail? *)
(* MeCab and Simple never return an error or panic at an offset inside the text; Regex neither unless it runs in debug mode
   (provider_total: x_debug = false, the oracle answers for every offset) *)
Theorem C13_provider_never_fails :
  forall p cs off other result,
    (off < List.length cs)%nat -> Proofs.OovTotal.provider_total p (List.length cs) ->
    exists ns, provide p (mk_ctx cs) off other result = ROk ns.
Proof. exact (Proofs.OovTotal.provide_total fact_continuity_forward fact_regex_ignores_empty_match). Qed.
Print Assumptions C13_provider_never_fails.

(* the only error of the Regex provider, and its cause: debug mode and a match that does not start at the offset *)
Theorem C13_regex_error_cause :
  forall x conts off other result,
    (off < List.length conts)%nat -> (off < List.length (x_matches x))%nat ->
    (exists ns, regex_provide x conts off other result = ROk ns)
    \/ (regex_provide x conts off other result = RErr /\ x_debug x = true
        /\ exists mlen, nth_error (x_matches x) off = Some (Some (false, mlen))).
Proof. exact (Proofs.OovTotal.regex_result fact_regex_ignores_empty_match). Qed.
Print Assumptions C13_regex_error_cause.

(* the created-words carrier stays a u64 whatever lengths are added (bit min(len-1, 63)), and adding positive lengths
   never fails: no overflow below or above any limit *)
Theorem C13_created_words_fit_u64 :
  forall lens cw cw', cw < 2 ^ 64 -> cw_add_all cw lens = Some cw' -> cw' < 2 ^ 64.
Proof. exact (Proofs.OovTotal.cw_add_all_u64 fact_created_max_value). Qed.
Print Assumptions C13_created_words_fit_u64.

Theorem C13_created_words_total :
  forall lens cw, (forall l, In l lens -> (0 < l)%nat) -> exists cw', cw_add_all cw lens = Some cw'.
Proof. exact Proofs.OovTotal.cw_add_all_total. Qed.
Print Assumptions C13_created_words_total.

(* hence the regular pass of a position succeeds: well-formed dictionary candidates, any providers without a debug-mode
   regex whose oracle stays in the window -- the hypothesis `providers_ok` of C13_lattice_total_oov *)
Theorem C13_providers_never_fail :
  forall cs ps off dict,
    (off < List.length cs)%nat -> Forall (cand_wf (List.length cs) off) dict ->
    (forall p, In p ps -> Proofs.OovTotal.provider_total p (List.length cs) /\ provider_oracle_ok p (List.length cs)) ->
    exists st, normal_pass (mk_ctx cs) ps off dict = ROk st.
Proof.
  exact (fun cs ps off dict =>
           Proofs.OovTotal.providers_never_fail fact_continuity_forward fact_regex_ignores_empty_match OF.oov_gate_mask cs ps off dict).
Qed.
Print Assumptions C13_providers_never_fail.

(* ... and the third conjunct of H7 of C01_tokenizer_end_to_end, for every tokenizer whose provider list has no debug-mode
   regex (under its H5, H6 and the first conjunct of H7) *)
Theorem C13_e2e_providers_ok :
  forall tk t,
    Forall Proofs.EndToEnd.scalar t -> (forall L, In L (Tk.tk_lexs tk) -> Proofs.LookupLattice.lex_keys_utf8 L) ->
    (forall q, In q (Tk.tk_provs tk) ->
       Proofs.OovTotal.provider_total q (List.length t) /\ provider_oracle_ok q (List.length t)) ->
    forall p, (p < List.length t)%nat ->
      exists st, normal_pass (mk_ctx (Tk.classes tk t)) (Tk.tk_provs tk) p (Tk.dict_onodes Bf.the_cfg tk t p) = ROk st.
Proof.
  exact (BP.e2e_providers_ok fact_continuity_forward fact_regex_ignores_empty_match Bf.the_cfg fact_buffer_cfg_ok).
Qed.
Print Assumptions C13_e2e_providers_ok.

(* ------------------------------------------------------------------ the part of speech through the best path *)
(* every node of the path that tokenize_model reads back from the lattice (pre_split, before path rewriting), with the word
   id threaded along by loop_ids / wid_at, is a dictionary entry found by the lookup at its position, or a candidate of one of
   the configured providers: its word id is WordId::oov(part of speech of one of that provider's templates) and it carries
   that template's ids and cost *)
Theorem C13_oov_pos_on_best_path :
  forall tk t a,
    Forall Proofs.EndToEnd.scalar t -> (forall L, In L (Tk.tk_lexs tk) -> Proofs.LookupLattice.lex_keys_utf8 L) ->
    (forall q, In q (Tk.tk_provs tk) -> provider_oracle_ok q (List.length t)) ->
    Tk.pre_split Bf.the_cfg tk t = Bf.Ok a -> forall nd w, In (nd, w) (Tk.pr_path a) ->
    (exists wc, In wc (Tk.dict_ids Bf.the_cfg tk t (L.nbeg nd)) /\ w = fst wc /\ L.nend nd = snd wc)
    \/ (exists q o, In q (Tk.tk_provs tk) /\ In o (BP.provider_templates q) /\ w = Model.LexSet.oov_id (o_pos o)
                    /\ L.nleft nd = o_left o /\ L.nright nd = o_right o /\ L.ncost nd = o_cost o).
Proof.
  exact (BP.oov_pos_on_best_path_e2e fact_continuity_forward fact_regex_ignores_empty_match Bf.the_cfg fact_buffer_cfg_ok).
Qed.
Print Assumptions C13_oov_pos_on_best_path.

(* so an OOV word id on the path names the part of speech of a template of a configured provider (given that the lookup
   returns dictionary ids only: C04/C12) *)
Theorem C13_oov_id_on_best_path :
  forall tk t a,
    (forall p m, In m (Tk.offered_at Bf.the_cfg tk t p) -> Proofs.BuildLatticeProofs.node_wf (List.length t) p m) ->
    Tk.pre_split Bf.the_cfg tk t = Bf.Ok a -> forall nd w, In (nd, w) (Tk.pr_path a) -> Model.LexSet.is_oov w = true ->
    (forall wc, In wc (Tk.dict_ids Bf.the_cfg tk t (L.nbeg nd)) -> Model.LexSet.is_oov (fst wc) = false) ->
    exists q o, In q (Tk.tk_provs tk) /\ In o (BP.provider_templates q) /\ w = Model.LexSet.oov_id (o_pos o)
                /\ L.nleft nd = o_left o /\ L.nright nd = o_right o /\ L.ncost nd = o_cost o.
Proof. exact (fun tk t a H => BP.oov_id_on_best_path Bf.the_cfg tk t H a). Qed.
Print Assumptions C13_oov_id_on_best_path.

(* the two models of WordId::oov agree (Model/LexSet.v with C12's facts, Model/Oov.v with C13's) *)
Theorem C13_oov_id_models_agree : forall pos, Model.LexSet.oov_id pos = wid_oov pos.
Proof. exact (fun pos => eq_refl). Qed.
Print Assumptions C13_oov_id_models_agree.

(* ================================================================== which definition files the candidates come from
   The MeCab provider's charDef and unkDef and the dictionary's characterDefinitionFile are located by ONE function,
   Config::complete_path (Model/PathResolve.v, builder E's model for C17): no private search order.  Hence, for every
   settings file, resource directory, `path` and presence pattern of the files: the definitions come from the FIRST of
   `path`, the resource directory, the settings-file directory (in this order) that holds a file of the name, then from the
   working directory, else loading fails. *)
From SudachiVerif Require Model.PathResolve Proofs.PathResolveProofs Generated.PathResolveFacts.

(* both files of MeCabOovPlugin::set_up are `config.complete_path(<setting or default name>)`, opened as they are (exactly two
   File::open, no path building of its own); from_cfg_storage resolves characterDefinitionFile the same way *)
Fact C13_fact_definition_files_resolved_by_complete_path :
  OF.mecab_definition_files = [("charDef", "complete_path:char.def"); ("unkDef", "complete_path:unk.def")]%string
  /\ OF.character_definition_file_resolution = "complete_path"%string.
Proof. vm_compute. split; reflexivity. Qed.

(* ... and complete_path is the function the model describes: anchors added in the order path, resource directory, root
   (settings-file) directory; first existing anchor; then the working directory; then an error *)
Fact C13_fact_resolution_order :
  Generated.PathResolveFacts.anchor_order = ["path"; "resource_dir"; "rootDirectory"]%string
  /\ Generated.PathResolveFacts.first_existing_body = "self.all_candidates(path).find(|p|p.exists())"%string
  /\ Generated.PathResolveFacts.all_candidates_body = "self.roots.iter().map(move|root|root.join(path.clone()))"%string
  /\ Generated.PathResolveFacts.complete_path_steps
     = ["pref.is_absolute()=>Ok(file_path.into())"; "Some=self.resolver.first_existing(pref)=>Ok(p)";
        "pref.exists()=>Ok(file_path.into())"; "otherwise=>Err"]%string.
Proof. vm_compute. repeat split; reflexivity. Qed.

Theorem C13_definition_file_is_first_existing_anchor :
  forall (dir file : Type) (is_absolute : file -> bool) (exists_in : dir -> file -> bool) (exists_cwd : file -> bool)
         (roots : list dir) (f : file),
    match Model.PathResolve.complete_path dir file is_absolute exists_in exists_cwd roots f with
    | Model.PathResolve.AsIs => is_absolute f = true
    | Model.PathResolve.InAnchor d =>
        is_absolute f = false /\
        exists pre post, roots = (pre ++ d :: post)%list /\ exists_in d f = true /\ forall x, In x pre -> exists_in x f = false
    | Model.PathResolve.InCwd => is_absolute f = false /\ (forall x, In x roots -> exists_in x f = false) /\ exists_cwd f = true
    | Model.PathResolve.NotFound => is_absolute f = false /\ (forall x, In x roots -> exists_in x f = false) /\ exists_cwd f = false
    end.
Proof. exact Proofs.PathResolveProofs.complete_path_spec. Qed.
Print Assumptions C13_definition_file_is_first_existing_anchor.

(* with three different directories the anchors are path, resource directory, settings-file directory: the resource directory
   beats the settings-file directory, `path` beats both *)
Theorem C13_definition_file_anchor_order :
  forall (dir : Type) (eqb : dir -> dir -> bool) p r o,
    eqb r p = false -> eqb o p = false -> eqb o r = false ->
    Model.PathResolve.anchors dir eqb (Some p) r (Some o) = [p; r; o].
Proof. exact Proofs.PathResolveProofs.anchors_order. Qed.
Print Assumptions C13_definition_file_anchor_order.

(* what the OOV providers do when a key is absent from their settings: the Regex provider searches at most 32 characters, in strict boundary mode, not in debug mode; no provider may introduce a part of speech (userPOS forbid); the pattern is required
   (Generated/PluginDefaults.v reads both spellings of every settings struct: Option + unwrap_or, serde default) *)
From SudachiVerif Require Generated.PluginDefaults.
Fact C13_fact_provider_setting_defaults :
  forallb (fun kv => existsb (fun x => (String.eqb (fst x) (fst kv) && String.eqb (snd x) (snd kv))%bool) Generated.PluginDefaults.when_absent)
          [("regex_oov.maxLength", "32"); ("regex_oov.boundaries", "Strict"); ("regex_oov.debug", "false"); ("regex_oov.userPOS", "Forbid"); ("regex_oov.regex", "required"); ("simple_oov.userPOS", "Forbid"); ("mecab_oov.userPOS", "Forbid")]%string = true.
Proof. vm_compute. reflexivity. Qed.
