(* C13 — Unknown-word candidates follow the character-class definition. *)
From Coq Require Import List NArith.
From SudachiVerif Require Import Model.Oov.
