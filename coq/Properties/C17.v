(* C17 — Character classes of a code point are the union of all definitions covering it.
   This file holds only the property theorems; each is closed by `exact` of a lemma proved elsewhere. *)
From Coq Require Import List NArith.
From SudachiVerif Require Import Model.CharCat Proofs.CharCatProofs Model.CharDefText Proofs.CharDefTextProofs.
Open Scope N_scope.

(* every definition list with begin < end per line compiles (the `panic!` of compile is unreachable) *)
Theorem C17_compile_total :
  forall rs, (forall r, In r rs -> rb r < re r) -> exists cc, compile rs = Some cc.
Proof. exact compile_total. Qed.
Print Assumptions C17_compile_total.

(* for every definition list, in any order / overlap / adjacency / duplication, and every code point:
   the reported classes are the union of the classes of all covering lines, DEFAULT when that union is empty *)
Theorem C17_lookup_compile_is_union :
  forall rs cc c, (forall r, In r rs -> rb r < re r) -> compile rs = Some cc -> lookup cc c = spec rs c.
Proof. exact lookup_compile_is_union. Qed.
Print Assumptions C17_lookup_compile_is_union.

(* CharacterCategory::iter() (used to build the yomigana pattern): every yielded range carries the classes lookup reports
   inside it; the iterator fails (panics in the code) exactly on the table of an empty definition list *)
Theorem C17_iter_agrees_with_lookup :
  forall rs cc its l r x c, (forall r, In r rs -> rb r < re r) -> compile rs = Some cc -> iter cc = Some its ->
    In (l, r, x) its -> l <= c < r -> lookup cc c = x.
Proof. exact iter_agrees_with_lookup. Qed.
Print Assumptions C17_iter_agrees_with_lookup.

Theorem C17_iter_none_iff_default :
  forall rs cc, (forall r, In r rs -> rb r < re r) -> compile rs = Some cc -> (iter cc = None <-> rs = nil).
Proof. exact iter_none_iff_default. Qed.
Print Assumptions C17_iter_none_iff_default.

(* From the TEXT of the definition file (model of read_character_definition: lines, trimming, "0x" lines only, hex ranges,
   begin < end, scalar-value checks, class names up to a '#'): every file the reader accepts yields ranges that satisfy the
   hypothesis above, so for every accepted file and every code point the looked-up classes are the union of the covering
   lines (ASCII definition lines with plain class names; anything else is outside the model and only tested). *)
Theorem C17_loaded_file_is_wf :
  forall text rs, read_character_definition text = POk rs -> forall r, In r rs -> rb r < re r.
Proof. exact loaded_file_is_wf. Qed.
Print Assumptions C17_loaded_file_is_wf.

Theorem C17_file_lookup_is_union :
  forall text rs, read_character_definition text = POk rs ->
    exists cc, compile rs = Some cc /\ forall c, lookup cc c = spec rs c.
Proof. exact file_lookup_is_union. Qed.
Print Assumptions C17_file_lookup_is_union.

(* ==================================================================================================================
   Shape facts: what Model/CharCat.v (collect_boundaries / apply_loop / apply_range / merge / fix_empty / lookup_aux) and
   Model/Buffer.v (cat_of_range) were written for, re-extracted from dic/character_category.rs and
   input_text/buffer/mod.rs on every run (gen/factmods/CharCatShape.py; names of locals, white space and the order of
   independent statements do not matter). *)
From Coq Require Import String.
From SudachiVerif Require Generated.CharCatShape Generated.CategoryFacts.
From SudachiVerif Require Model.Buffer Proofs.BufferCharProofs Proofs.CatOfRangeProofs.
Import ListNotations.

(* boundaries = the sorted, duplicate-free set of all begins and ends (Model: collect_boundaries folds `ins` of rb and re) *)
Fact C17_fact_boundaries : Generated.CharCatShape.boundary_fields = ["begin"; "end"]%string.
Proof. vm_compute. reflexivity. Qed.
(* every line ORs its classes into every split it covers, leaving the loop only past its end: a union over ALL covering
   lines - not first match, not last match, no early exit (Model: apply_loop `if re r <? b then cs else N.lor c (rc r) :: ..`) *)
Fact C17_fact_fill_is_union :
  (Generated.CharCatShape.fill_break_condition, Generated.CharCatShape.fill_update)
  = ("boundaries[i]>range.end", "categories[i]|=range.categories;")%string.
Proof. vm_compute. reflexivity. Qed.
(* successive splits with equal classes are merged (Model: merge `if c =? lc`), empty sets become DEFAULT (fix_empty),
   ONE DEFAULT entry is always appended for everything above the last boundary (Model: `.. ++ [DEFAULT]`) *)
Fact C17_fact_merge_and_default_fill :
  (Generated.CharCatShape.merge_condition, Generated.CharCatShape.trailing_entry, Generated.CharCatShape.table_fields)
  = ("categories[i]==last_category", "final_categories.push(CategoryType::DEFAULT);",
     "boundaries:final_boundaries,categories:final_categories,")%string.
Proof. vm_compute. reflexivity. Qed.
(* lookup: binary search of the code point; found at idx -> categories[idx + 1], insertion point idx -> categories[idx]
   (Model: lookup_aux = "categories[number of boundaries <= c]") *)
Fact C17_fact_lookup :
  (Generated.CharCatShape.lookup_found, Generated.CharCatShape.lookup_not_found)
  = ("self.categories[idx+1]", "self.categories[idx]")%string.
Proof. vm_compute. reflexivity. Qed.
(* cat_of_range: no class for the empty range; otherwise the fold of `&` over the range starting from ALL declared bits
   (CategoryType::all(), Model/Buffer.v cat_all) ... *)
Fact C17_fact_cat_of_range :
  (Generated.CharCatShape.range_empty_answer, Generated.CharCatShape.range_fold_seed, Generated.CharCatShape.range_fold_step)
  = ("CategoryType::empty()", "CategoryType::all()", "acc&*x")%string.
Proof. vm_compute. reflexivity. Qed.
(* ... which contain the marker classes NOOOVBOW / NOOOVBOW2, while the named constant ALL does not *)
Fact C17_fact_all_bits_keep_markers :
  N.land Buffer.cat_all Generated.CategoryFacts.NOOOVBOW = Generated.CategoryFacts.NOOOVBOW
  /\ N.land Buffer.cat_all Generated.CategoryFacts.NOOOVBOW2 = Generated.CategoryFacts.NOOOVBOW2
  /\ N.land Generated.CategoryFacts.ALL (N.lor Generated.CategoryFacts.NOOOVBOW Generated.CategoryFacts.NOOOVBOW2) = 0.
Proof. vm_compute. repeat split; reflexivity. Qed.

(* cat_of_range over characters whose classes are declared class bits (what get_category_types reports): bit k is set
   iff EVERY character of the range has it - the intersection, markers included; for all ranges inside the text *)
Theorem C17_cat_of_range_is_intersection :
  forall (cats : list N) (a b : nat), (a < b)%nat -> (b <= List.length cats)%nat ->
    (forall i, (a <= i)%nat -> (i < b)%nat -> CatOfRangeProofs.declared (nth i cats 0)) ->
    exists r, Buffer.cat_of_range cats a b = Some r /\
      forall k, N.testbit r k = true <-> (forall i, (a <= i)%nat -> (i < b)%nat -> N.testbit (nth i cats 0) k = true).
Proof. exact CatOfRangeProofs.cat_of_range_is_intersection. Qed.
Print Assumptions C17_cat_of_range_is_intersection.

Theorem C17_cat_of_range_single :
  forall (cats : list N) (i : nat), (i < List.length cats)%nat -> CatOfRangeProofs.declared (nth i cats 0) ->
    Buffer.cat_of_range cats i (S i) = Some (nth i cats 0).
Proof. exact CatOfRangeProofs.cat_of_range_single. Qed.
Print Assumptions C17_cat_of_range_single.

Theorem C17_cat_of_range_empty :
  forall (cats : list N) (a b : nat), (b <= a)%nat -> Buffer.cat_of_range cats a b = Some 0.
Proof. exact BufferCharProofs.cat_of_range_empty. Qed.
Print Assumptions C17_cat_of_range_empty.

(* ==================================================================================================================
   Which file a relative `characterDefinitionFile` names (Model/PathResolve.v; the same route resolves systemDict, userDict
   and the plugins' definition files, so C13 / C07 may reuse the model).  The file system is abstract (exists_in,
   exists_cwd); anchors = `path`, resource directory, root directory in this order, duplicates dropped. *)
From SudachiVerif Require Import Model.PathResolve Proofs.PathResolveProofs.
From SudachiVerif Require Generated.PathResolveFacts.

(* the anchors are added in the order path, resource directory, root directory; first_existing tries them in that order;
   complete_path: absolute as it is, else the first existing anchor, else the working directory, else an error *)
Fact C17_fact_resolution_order :
  Generated.PathResolveFacts.anchor_order = ["path"; "resource_dir"; "rootDirectory"]%string
  /\ Generated.PathResolveFacts.first_existing_body = "self.all_candidates(path).find(|p|p.exists())"%string
  /\ Generated.PathResolveFacts.all_candidates_body = "self.roots.iter().map(move|root|root.join(path.clone()))"%string
  /\ Generated.PathResolveFacts.complete_path_steps
     = ["pref.is_absolute()=>Ok(file_path.into())"; "Some=self.resolver.first_existing(pref)=>Ok(p)";
        "pref.exists()=>Ok(file_path.into())"; "otherwise=>Err"]%string.
Proof. vm_compute. repeat split; reflexivity. Qed.

(* what complete_path answers: an absolute name as it is; otherwise the FIRST anchor (in the order above) that holds the
   file; the working directory only when no anchor holds it; an error only when nothing holds it *)
Theorem C17_resolved_file_is_first_existing_anchor :
  forall (dir file : Type) (is_absolute : file -> bool) (exists_in : dir -> file -> bool) (exists_cwd : file -> bool)
         (roots : list dir) (f : file),
    match complete_path dir file is_absolute exists_in exists_cwd roots f with
    | AsIs => is_absolute f = true
    | InAnchor d => is_absolute f = false /\
                    exists pre post, roots = (pre ++ d :: post)%list /\ exists_in d f = true /\ forall x, In x pre -> exists_in x f = false
    | InCwd => is_absolute f = false /\ (forall x, In x roots -> exists_in x f = false) /\ exists_cwd f = true
    | NotFound => is_absolute f = false /\ (forall x, In x roots -> exists_in x f = false) /\ exists_cwd f = false
    end.
Proof. exact complete_path_spec. Qed.
Print Assumptions C17_resolved_file_is_first_existing_anchor.

(* no lower-priority location is chosen when a higher one holds the file *)
Theorem C17_higher_anchor_wins :
  forall (dir file : Type) (is_absolute : file -> bool) (exists_in : dir -> file -> bool) (exists_cwd : file -> bool)
         (roots : list dir) (f : file) (i : nat) (d : dir),
    is_absolute f = false -> nth_error roots i = Some d -> exists_in d f = true ->
    exists j d', (j <= i)%nat /\ nth_error roots j = Some d' /\
                 complete_path dir file is_absolute exists_in exists_cwd roots f = InAnchor d'.
Proof. exact higher_anchor_wins. Qed.
Print Assumptions C17_higher_anchor_wins.

(* the anchors of a configuration with three different directories: path, resource directory, root directory *)
Theorem C17_anchor_order :
  forall (dir : Type) (eqb : dir -> dir -> bool) p r o,
    eqb r p = false -> eqb o p = false -> eqb o r = false -> anchors dir eqb (Some p) r (Some o) = [p; r; o].
Proof. exact anchors_order. Qed.
Print Assumptions C17_anchor_order.
