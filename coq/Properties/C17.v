(* C17 — Character classes of a code point are the union of all definitions covering it.
   This file holds only the property theorems; each is closed by `exact` of a lemma proved elsewhere. *)
From Coq Require Import List NArith.
From SudachiVerif Require Import Model.CharCat Proofs.CharCatProofs Model.CharDefText Proofs.CharDefTextProofs.
Open Scope N_scope.

(* every definition list with begin < end per line compiles (the `panic!` of compile is unreachable) *)
Theorem C17_compile_total :
  forall rs, (forall r, In r rs -> rb r < re r) -> exists cc, compile rs = Some cc.
Proof. exact compile_total. Qed.
Print Assumptions C17_compile_total.

(* for every definition list, in any order / overlap / adjacency / duplication, and every code point:
   the reported classes are the union of the classes of all covering lines, DEFAULT when that union is empty *)
Theorem C17_lookup_compile_is_union :
  forall rs cc c, (forall r, In r rs -> rb r < re r) -> compile rs = Some cc -> lookup cc c = spec rs c.
Proof. exact lookup_compile_is_union. Qed.
Print Assumptions C17_lookup_compile_is_union.

(* CharacterCategory::iter() (used to build the yomigana pattern): every yielded range carries the classes lookup reports
   inside it; the iterator fails (panics in the code) exactly on the table of an empty definition list *)
Theorem C17_iter_agrees_with_lookup :
  forall rs cc its l r x c, (forall r, In r rs -> rb r < re r) -> compile rs = Some cc -> iter cc = Some its ->
    In (l, r, x) its -> l <= c < r -> lookup cc c = x.
Proof. exact iter_agrees_with_lookup. Qed.
Print Assumptions C17_iter_agrees_with_lookup.

Theorem C17_iter_none_iff_default :
  forall rs cc, (forall r, In r rs -> rb r < re r) -> compile rs = Some cc -> (iter cc = None <-> rs = nil).
Proof. exact iter_none_iff_default. Qed.
Print Assumptions C17_iter_none_iff_default.

(* From the TEXT of the definition file (model of read_character_definition: lines, trimming, "0x" lines only, hex ranges,
   begin < end, scalar-value checks, class names up to a '#'): every file the reader accepts yields ranges that satisfy the
   hypothesis above, so for every accepted file and every code point the looked-up classes are the union of the covering
   lines (ASCII definition lines with plain class names; anything else is outside the model and only tested). *)
Theorem C17_loaded_file_is_wf :
  forall text rs, read_character_definition text = POk rs -> forall r, In r rs -> rb r < re r.
Proof. exact loaded_file_is_wf. Qed.
Print Assumptions C17_loaded_file_is_wf.

Theorem C17_file_lookup_is_union :
  forall text rs, read_character_definition text = POk rs ->
    exists cc, compile rs = Some cc /\ forall c, lookup cc c = spec rs c.
Proof. exact file_lookup_is_union. Qed.
Print Assumptions C17_file_lookup_is_union.

(* ==================================================================================================================
   Shape facts: what Model/CharCat.v (collect_boundaries / apply_loop / apply_range / merge / fix_empty / lookup_aux) and
   Model/Buffer.v (cat_of_range) were written for, re-extracted from dic/character_category.rs and
   input_text/buffer/mod.rs on every run (gen/factmods/CharCatShape.py; names of locals, white space and the order of
   independent statements do not matter). *)
From Coq Require Import String.
From SudachiVerif Require Generated.CharCatShape Generated.CategoryFacts.
From SudachiVerif Require Model.Buffer Proofs.BufferCharProofs Proofs.CatOfRangeProofs.
Import ListNotations.

(* boundaries = the sorted, duplicate-free set of all begins and ends (Model: collect_boundaries folds `ins` of rb and re) *)
Fact C17_fact_boundaries : Generated.CharCatShape.boundary_fields = ["begin"; "end"]%string.
Proof. vm_compute. reflexivity. Qed.
(* every line ORs its classes into every split it covers, leaving the loop only past its end: a union over ALL covering
   lines - not first match, not last match, no early exit (Model: apply_loop `if re r <? b then cs else N.lor c (rc r) :: ..`) *)
Fact C17_fact_fill_is_union :
  (Generated.CharCatShape.fill_break_condition, Generated.CharCatShape.fill_update)
  = ("boundaries[i]>range.end", "categories[i]|=range.categories;")%string.
Proof. vm_compute. reflexivity. Qed.
(* successive splits with equal classes are merged (Model: merge `if c =? lc`), empty sets become DEFAULT (fix_empty),
   ONE DEFAULT entry is always appended for everything above the last boundary (Model: `.. ++ [DEFAULT]`) *)
Fact C17_fact_merge_and_default_fill :
  (Generated.CharCatShape.merge_condition, Generated.CharCatShape.trailing_entry, Generated.CharCatShape.table_fields)
  = ("categories[i]==last_category", "final_categories.push(CategoryType::DEFAULT);",
     "boundaries:final_boundaries,categories:final_categories,")%string.
Proof. vm_compute. reflexivity. Qed.
(* lookup: binary search of the code point; found at idx -> categories[idx + 1], insertion point idx -> categories[idx]
   (Model: lookup_aux = "categories[number of boundaries <= c]") *)
Fact C17_fact_lookup :
  (Generated.CharCatShape.lookup_found, Generated.CharCatShape.lookup_not_found)
  = ("self.categories[idx+1]", "self.categories[idx]")%string.
Proof. vm_compute. reflexivity. Qed.
(* cat_of_range: no class for the empty range; otherwise the fold of `&` over the range starting from ALL declared bits
   (CategoryType::all(), Model/Buffer.v cat_all) ... *)
Fact C17_fact_cat_of_range :
  (Generated.CharCatShape.range_empty_answer, Generated.CharCatShape.range_fold_seed, Generated.CharCatShape.range_fold_step)
  = ("CategoryType::empty()", "CategoryType::all()", "acc&*x")%string.
Proof. vm_compute. reflexivity. Qed.
(* ... which contain the marker classes NOOOVBOW / NOOOVBOW2, while the named constant ALL does not *)
Fact C17_fact_all_bits_keep_markers :
  N.land Buffer.cat_all Generated.CategoryFacts.NOOOVBOW = Generated.CategoryFacts.NOOOVBOW
  /\ N.land Buffer.cat_all Generated.CategoryFacts.NOOOVBOW2 = Generated.CategoryFacts.NOOOVBOW2
  /\ N.land Generated.CategoryFacts.ALL (N.lor Generated.CategoryFacts.NOOOVBOW Generated.CategoryFacts.NOOOVBOW2) = 0.
Proof. vm_compute. repeat split; reflexivity. Qed.

(* cat_of_range over characters whose classes are declared class bits (what get_category_types reports): bit k is set
   iff EVERY character of the range has it - the intersection, markers included; for all ranges inside the text *)
Theorem C17_cat_of_range_is_intersection :
  forall (cats : list N) (a b : nat), (a < b)%nat -> (b <= List.length cats)%nat ->
    (forall i, (a <= i)%nat -> (i < b)%nat -> CatOfRangeProofs.declared (nth i cats 0)) ->
    exists r, Buffer.cat_of_range cats a b = Some r /\
      forall k, N.testbit r k = true <-> (forall i, (a <= i)%nat -> (i < b)%nat -> N.testbit (nth i cats 0) k = true).
Proof. exact CatOfRangeProofs.cat_of_range_is_intersection. Qed.
Print Assumptions C17_cat_of_range_is_intersection.

Theorem C17_cat_of_range_single :
  forall (cats : list N) (i : nat), (i < List.length cats)%nat -> CatOfRangeProofs.declared (nth i cats 0) ->
    Buffer.cat_of_range cats i (S i) = Some (nth i cats 0).
Proof. exact CatOfRangeProofs.cat_of_range_single. Qed.
Print Assumptions C17_cat_of_range_single.

Theorem C17_cat_of_range_empty :
  forall (cats : list N) (a b : nat), (b <= a)%nat -> Buffer.cat_of_range cats a b = Some 0.
Proof. exact BufferCharProofs.cat_of_range_empty. Qed.
Print Assumptions C17_cat_of_range_empty.
