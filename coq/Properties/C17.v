(* C17 — Character classes of a code point are the union of all definitions covering it.
   This file holds only the property theorems; each is closed by `exact` of a lemma proved elsewhere. *)
From Coq Require Import List NArith.
From SudachiVerif Require Import Model.CharCat Proofs.CharCatProofs Model.CharDefText Proofs.CharDefTextProofs.
Open Scope N_scope.

(* every definition list with begin < end per line compiles (the `panic!` of compile is unreachable) *)
Theorem C17_compile_total :
  forall rs, (forall r, In r rs -> rb r < re r) -> exists cc, compile rs = Some cc.
Proof. exact compile_total. Qed.
Print Assumptions C17_compile_total.

(* for every definition list, in any order / overlap / adjacency / duplication, and every code point:
   the reported classes are the union of the classes of all covering lines, DEFAULT when that union is empty *)
Theorem C17_lookup_compile_is_union :
  forall rs cc c, (forall r, In r rs -> rb r < re r) -> compile rs = Some cc -> lookup cc c = spec rs c.
Proof. exact lookup_compile_is_union. Qed.
Print Assumptions C17_lookup_compile_is_union.

(* CharacterCategory::iter() (used to build the yomigana pattern): every yielded range carries the classes lookup reports
   inside it; the iterator fails (panics in the code) exactly on the table of an empty definition list *)
Theorem C17_iter_agrees_with_lookup :
  forall rs cc its l r x c, (forall r, In r rs -> rb r < re r) -> compile rs = Some cc -> iter cc = Some its ->
    In (l, r, x) its -> l <= c < r -> lookup cc c = x.
Proof. exact iter_agrees_with_lookup. Qed.
Print Assumptions C17_iter_agrees_with_lookup.

Theorem C17_iter_none_iff_default :
  forall rs cc, (forall r, In r rs -> rb r < re r) -> compile rs = Some cc -> (iter cc = None <-> rs = nil).
Proof. exact iter_none_iff_default. Qed.
Print Assumptions C17_iter_none_iff_default.

(* From the TEXT of the definition file (model of read_character_definition: lines, trimming, "0x" lines only, hex ranges,
   begin < end, scalar-value checks, class names up to a '#'): every file the reader accepts yields ranges that satisfy the
   hypothesis above, so for every accepted file and every code point the looked-up classes are the union of the covering
   lines (ASCII definition lines with plain class names; anything else is outside the model and only tested). *)
Theorem C17_loaded_file_is_wf :
  forall text rs, read_character_definition text = POk rs -> forall r, In r rs -> rb r < re r.
Proof. exact loaded_file_is_wf. Qed.
Print Assumptions C17_loaded_file_is_wf.

Theorem C17_file_lookup_is_union :
  forall text rs, read_character_definition text = POk rs ->
    exists cc, compile rs = Some cc /\ forall c, lookup cc c = spec rs c.
Proof. exact file_lookup_is_union. Qed.
Print Assumptions C17_file_lookup_is_union.
