(* C09 — Modes A and B refine mode C with exactly the dictionary's split units.
   Only the property theorems; each is closed by `exact` of a lemma of Proofs/SplitProofs.v.
   Vocabulary (Model/Split.v): hw = head_word_length, t = modified text, units = declared (re-stamped) units of a word in
   the mode at hand, split_path = the last stage of do_tokenize for mode A/B, split_into = MorphemeList::split_into. *)
From Coq Require Import List NArith Bool.
From SudachiVerif Require Import Model.Split Proofs.SplitProofs.
From SudachiVerif Require Import Model.SplitLists Proofs.SplitListsProofs.
Import ListNotations.
Open Scope N_scope.

(* fact obligation: the guards re-read from split_path / split_into / update_dict_id, and the recognised shape of
   NodeSplitIterator::next, are the ones the theorems below are proved for *)
Fact C09_facts : split_facts_ok = true.
Proof. vm_compute. reflexivity. Qed.

(* every char / byte boundary of the C path is a boundary of the A/B path, and the A/B path is the C path with every
   token replaced by a non-empty piece which is the token itself when its word declares at most one unit *)
Theorem C09_split_refines :
  forall hw t units path path',
    split_path hw t units path = Some path' ->
    (forall x, In x (cbounds path) -> In x (cbounds path')) /\
    (forall x, In x (bbounds path) -> In x (bbounds path')) /\
    (exists pieces, path' = concat pieces /\ unchanged_pieces units path pieces).
Proof. exact (fun hw t units path path' => split_refines hw t units path path' C09_facts). Qed.
Print Assumptions C09_split_refines.

(* mode C reports the path as is; modes A and B are split_path of the same path (definitional in the model, tied to
   do_tokenize by Generated/SplitFacts.v) *)
Theorem C09_modes_refine_C :
  forall hw t ua ub m path path',
    tokenize_mode hw t ua ub m path = Some path' ->
    tokenize_mode hw t ua ub ModeC path = Some path /\
    (forall x, In x (cbounds path) -> In x (cbounds path')) /\
    (forall x, In x (bbounds path) -> In x (bbounds path')).
Proof. exact (fun hw t ua ub m path path' => modes_refine_C hw t ua ub m path path' C09_facts). Qed.
Print Assumptions C09_modes_refine_C.

(* well-formed declarations: the sub-tokens are the declared units in order, never panic, tile the parent's char and
   byte range without gaps or empty pieces, and each covers exactly the text of its unit's key *)
Theorem C09_split_partitions_parent :
  forall hw key t n us,
    (forall u, In u us -> hw u = blen (key u)) ->
    us <> [] ->
    units_wf key t n us ->
    exists subs,
      split_node hw t n us = Some subs /\
      map wid subs = us /\
      tiles (nb n) (bb n) (ne n) (be n) subs /\
      Forall2 (fun s u => slice t (nb s) (ne s) = key u) subs us.
Proof. exact split_partitions_parent. Qed.
Print Assumptions C09_split_partitions_parent.

(* two or more declared units: split_into appends exactly what tokenising that token in the mode yields *)
Theorem C09_split_into_eq_split_path :
  forall hw t units n out,
    (2 <= length (units (wid n)))%nat ->
    split_into hw t units n out =
    match split_path hw t units [n] with Some l => Some (true, out ++ l) | None => None end.
Proof. exact (fun hw t units n out => split_into_eq_split_path hw t units n out C09_facts). Qed.
Print Assumptions C09_split_into_eq_split_path.

(* whole path: A/B tokenisation = C tokenisation + on-demand split of every token (no word with exactly one unit) *)
Theorem C09_split_path_eq_resplit :
  forall hw t units path,
    (forall n, In n path -> length (units (wid n)) <> 1%nat) ->
    split_path hw t units path = resplit hw t units path.
Proof. exact (fun hw t units path => split_path_eq_resplit hw t units path C09_facts). Qed.
Print Assumptions C09_split_path_eq_resplit.

(* no declared unit: split_into reports false and leaves the output list alone *)
Theorem C09_split_none_reports_false :
  forall hw t units n out,
    units (wid n) = [] -> split_into hw t units n out = Some (false, out).
Proof. exact (fun hw t units n out => split_none_reports_false hw t units n out C09_facts). Qed.
Print Assumptions C09_split_none_reports_false.

(* re-stamping: a system unit id is kept, any other follows the dictionary the parent word was read from *)
Theorem C09_restamp_spec :
  forall d u,
    (dic_of u = 0 -> restamp d u = u) /\
    (dic_of u <> 0 -> dic_of (restamp d u) = d /\ word_of (restamp d u) = word_of u).
Proof. exact (fun d u => restamp_spec d u C09_facts). Qed.
Print Assumptions C09_restamp_spec.

(* ---------------------------------------------------------------------------------------------------------------
   Composition with the C05 codec model (Proofs/SplitDict.v): the hypotheses of the theorems above, derived from what a
   dictionary author writes.  ds = the stack of lexicon sources (rows: key = column 0, headword, POS, reading, split
   columns as written), cs = the compiled files, stack_compiled ds cs = each dictionary is what DictBuilder::resolve and
   the lexicon writer make of its rows (user dictionaries resolved against the system dictionary), srcs_ok ds = the
   rows are as the CSV reader builds them (written length = surface.len()) and no dictionary has 2^28 words.
   ld_hw / ld_units = head_word_length / unit lists the loaded LexiconSet reports. *)
From SudachiVerif Require Import Model.Codec Proofs.CodecProofs Model.CodecResolve Model.SplitSource Proofs.SplitDict.
From SudachiVerif Require Generated.FieldOrder.

(* fact obligations of the codec model, on the facts regenerated on this run *)
Fact C09_writer_order : Generated.FieldOrder.writer_fields = expected_writer.
Proof. vm_compute. reflexivity. Qed.
Fact C09_reader_order : reader_facts_ok.
Proof. split; vm_compute; reflexivity. Qed.
Fact C09_len_thresholds : len_thresholds_ok = true.
Proof. vm_compute. reflexivity. Qed.

(* head_word_length of every loaded word = UTF-8 length of its key, for every stack of dictionaries the writer accepts;
   the writer accepts a key only up to len_max (= i16::MAX) bytes: a longer one is a build error, never a truncation *)
Theorem C09_head_word_length_is_key_length :
  forall ds cs nsp po w r,
    stack_compiled ds cs -> srcs_ok ds ->
    src_row ds w = Some r ->
    ld_hw cs nsp po w = utf8_len (r_surface r) /\ utf8_len (r_surface r) <= Generated.FieldOrder.len_max.
Proof.
  exact (fun ds cs nsp po w r Hc Hs =>
           head_word_length_is_key_length C09_writer_order C09_reader_order C09_len_thresholds ds cs Hc Hs nsp po w r).
Qed.
Print Assumptions C09_head_word_length_is_key_length.

(* the unit lists the loaded dictionary reports are the declared ones: resolved as DictBuilder::resolve does (own rows
   first, then the system dictionary) and stamped with the dictionary the word was read from *)
Theorem C09_loaded_units_are_source_units :
  forall ds cs nsp po a w r,
    stack_compiled ds cs ->
    src_row ds w = Some r -> src_units ds a w = Some (ld_units cs nsp po a w).
Proof.
  exact (fun ds cs nsp po a w r Hc =>
           loaded_units_are_source_units C09_writer_order C09_reader_order C09_len_thresholds ds cs Hc nsp po a w r).
Qed.
Print Assumptions C09_loaded_units_are_source_units.

(* if, in the rows, the keys of the declared units concatenate to the key of the word (rows_units_ok, a boolean computed
   from the rows alone), the loaded dictionary satisfies units_wf and head_word_length = key length for every unit *)
Theorem C09_units_wf_of_rows :
  forall ds cs nsp po a t n,
    stack_compiled ds cs -> srcs_ok ds ->
    rows_units_ok ds a (wid n) = true ->
    covers t n (src_key ds (wid n)) ->
    units_wf (src_key ds) t n (ld_units cs nsp po a (wid n)) /\
    (forall u, In u (ld_units cs nsp po a (wid n)) -> ld_hw cs nsp po u = blen (src_key ds u)).
Proof.
  exact (fun ds cs nsp po a t n Hc Hs =>
           units_wf_of_rows C09_writer_order C09_reader_order C09_len_thresholds ds cs Hc Hs nsp po a t n).
Qed.
Print Assumptions C09_units_wf_of_rows.

(* corollary: with that source-level condition, splitting a C-mode token that covers its word's key yields exactly the
   declared units in order, without panic, tiling the parent's char and byte range, each covering its unit's key *)
Theorem C09_split_exact_from_source :
  forall ds cs nsp po a t n us,
    stack_compiled ds cs -> srcs_ok ds ->
    rows_units_ok ds a (wid n) = true ->
    covers t n (src_key ds (wid n)) ->
    src_units ds a (wid n) = Some us -> us <> [] ->
    ld_units cs nsp po a (wid n) = us /\
    exists subs,
      split_node (ld_hw cs nsp po) t n us = Some subs /\
      map wid subs = us /\
      tiles (nb n) (bb n) (ne n) (be n) subs /\
      Forall2 (fun s u => slice t (nb s) (ne s) = src_key ds u) subs us.
Proof.
  exact (fun ds cs nsp po a t n us Hc Hs =>
           split_exact_from_source C09_writer_order C09_reader_order C09_len_thresholds ds cs Hc Hs nsp po a t n us).
Qed.
Print Assumptions C09_split_exact_from_source.

(* ... and through MorphemeList::split_into *)
Theorem C09_split_into_exact_from_source :
  forall ds cs nsp po a t n us out,
    stack_compiled ds cs -> srcs_ok ds ->
    rows_units_ok ds a (wid n) = true ->
    covers t n (src_key ds (wid n)) ->
    src_units ds a (wid n) = Some us -> us <> [] ->
    exists subs,
      split_into (ld_hw cs nsp po) t (ld_units cs nsp po a) n out = Some (true, out ++ subs) /\
      map wid subs = us /\
      tiles (nb n) (bb n) (ne n) (be n) subs /\
      Forall2 (fun s u => slice t (nb s) (ne s) = src_key ds u) subs us.
Proof.
  exact (fun ds cs nsp po a t n us out Hc Hs =>
           split_into_exact_from_source C09_writer_order C09_reader_order C09_len_thresholds C09_facts ds cs nsp po Hc Hs a t n us out).
Qed.
Print Assumptions C09_split_into_exact_from_source.

(* ---- split_into between result lists (sudachi/src/analysis/mlist.rs, morpheme.rs): lists as values with their dictionaries ---- *)

(* extracted on every run: ResultNode::split gets its lexicon, its field request and its input text from `self` -- the list
   that holds the token --; the target list is only given the source's input part (assign_input) and appended to;
   Morpheme::split_into is MorphemeList::split_into on (the morpheme's list, its index) *)
Fact C09_split_into_sources : sources_ok = true.
Proof. vm_compute. reflexivity. Qed.

(* split_into between lists is Split.split_into run with the dictionary and text of the list that holds the token; the target
   contributes only its prior nodes (kept in front) and keeps its own dictionary *)
Theorem C09_split_into_lists_spec :
  forall m src idx out, split_into_lists m src idx out = split_into_spec m src idx out.
Proof. exact (split_into_lists_spec C09_split_into_sources). Qed.
Print Assumptions C09_split_into_lists_spec.

(* non-interference: two targets with arbitrary dictionaries, input parts and prior contents get the same answer and the same
   parts appended *)
Theorem C09_split_into_noninterference :
  forall m src idx out out',
    match split_into_lists m src idx out, split_into_lists m src idx out' with
    | None, None => True
    | Some (b, r), Some (b', r') =>
        b = b' /\
        exists l, ml_nodes r = ml_nodes out ++ l /\ ml_nodes r' = ml_nodes out' ++ l /\
                  ml_dict r = ml_dict out /\ ml_dict r' = ml_dict out' /\
                  (if b then ml_text r = ml_text src /\ ml_subset r = ml_subset src /\
                             ml_text r' = ml_text src /\ ml_subset r' = ml_subset src
                   else r = out /\ r' = out' /\ l = [])
    | _, _ => False
    end.
Proof. exact (split_into_noninterference C09_split_into_sources). Qed.
Print Assumptions C09_split_into_noninterference.

(* the answer and the parts are a function of (token, mode, the token's own dictionary and input) *)
Theorem C09_split_into_is_function_of_source :
  forall m src idx out n,
    nth_error (ml_nodes src) idx = Some n ->
    match split_into_lists m src idx out, parts_of (ml_dict src) (ml_text src) m n with
    | None, None => True
    | Some (b, r), Some (b', l) => b = b' /\ ml_nodes r = ml_nodes out ++ (if b then l else [])
    | _, _ => False
    end.
Proof. exact (split_into_is_function_of_source C09_split_into_sources). Qed.
Print Assumptions C09_split_into_is_function_of_source.

(* ---- Python: Dictionary.create(mode=C, fields=F) + Morpheme.split(X) (python/src/dictionary.rs parse_field_subset) ---- *)
From SudachiVerif Require Import Model.PyProjection Proofs.PyProjectionProofs Proofs.SplitPyFields.

(* fact obligations, on the tables regenerated on this run: the whole name -> flag table is the documented one; in particular
   split_a / split_b / word_structure / synonym_group_id map to their own InfoSubset flags, one name per flag; normalize's
   closure rules load what every requested accessor reads, and head_word_length with either split list *)
Fact C09_py_facts : py_facts_ok.
Proof. unfold py_facts_ok. repeat split; vm_compute; reflexivity. Qed.
Fact C09_split_field_names : split_field_names_ok = true.
Proof. vm_compute. reflexivity. Qed.
Fact C09_normalize_closure : closure_ok = true.
Proof. vm_compute. reflexivity. Qed.
Fact C09_split_loads_head_word_length : hw_closure_ok = true.
Proof. vm_compute. reflexivity. Qed.

(* for every fields argument that names split_a (split_b), and for no fields argument, with any surface projection: the field
   set the tokenizer loads contains SPLIT_A (SPLIT_B) and HEAD_WORD_LENGTH, and every word info loaded under it reports the
   split list of X and head_word_length exactly as the full word info -- the values ld_units / ld_hw of the theorems above are
   read from -- does; so Morpheme.split(X) of a mode-C token splits into exactly the declared units *)
Theorem C09_python_fields_load_split_list :
  forall (fields : option (list String.string)) (k : option pkind) (a : bool) (m : N),
    parse_field_subset fields = Some m ->
    match fields with None => True | Some names => In (split_field a) names end ->
    let L := loaded_subset m k in
    N.testbit L (acc_flag (split_acc a)) = true /\ N.testbit L (acc_flag A_hwlen) = true /\
    forall lx has_syn wid iA,
      lex_ok lx -> get_word_info lx has_syn wid ALL = Some iA ->
      exists iS, get_word_info lx has_syn wid L = Some iS /\
                 accessor (split_acc a) iS = accessor (split_acc a) iA /\
                 accessor A_hwlen iS = accessor A_hwlen iA.
Proof. exact (python_fields_load_split_list C09_py_facts C09_reader_order C09_normalize_closure C09_split_loads_head_word_length). Qed.
Print Assumptions C09_python_fields_load_split_list.
