(* C09 — Modes A and B refine mode C with exactly the dictionary's split units.
   Only the property theorems; each is closed by `exact` of a lemma of Proofs/SplitProofs.v.
   Vocabulary (Model/Split.v): hw = head_word_length, t = modified text, units = declared (re-stamped) units of a word in
   the mode at hand, split_path = the last stage of do_tokenize for mode A/B, split_into = MorphemeList::split_into. *)
From Coq Require Import List NArith Bool.
From SudachiVerif Require Import Model.Split Proofs.SplitProofs.
Import ListNotations.
Open Scope N_scope.

(* fact obligation: the guards re-read from split_path / split_into / update_dict_id, and the recognised shape of
   NodeSplitIterator::next, are the ones the theorems below are proved for *)
Fact C09_facts : split_facts_ok = true.
Proof. vm_compute. reflexivity. Qed.

(* every char / byte boundary of the C path is a boundary of the A/B path, and the A/B path is the C path with every
   token replaced by a non-empty piece which is the token itself when its word declares at most one unit *)
Theorem C09_split_refines :
  forall hw t units path path',
    split_path hw t units path = Some path' ->
    (forall x, In x (cbounds path) -> In x (cbounds path')) /\
    (forall x, In x (bbounds path) -> In x (bbounds path')) /\
    (exists pieces, path' = concat pieces /\ unchanged_pieces units path pieces).
Proof. exact (fun hw t units path path' => split_refines hw t units path path' C09_facts). Qed.
Print Assumptions C09_split_refines.

(* mode C reports the path as is; modes A and B are split_path of the same path (definitional in the model, tied to
   do_tokenize by Generated/SplitFacts.v) *)
Theorem C09_modes_refine_C :
  forall hw t ua ub m path path',
    tokenize_mode hw t ua ub m path = Some path' ->
    tokenize_mode hw t ua ub ModeC path = Some path /\
    (forall x, In x (cbounds path) -> In x (cbounds path')) /\
    (forall x, In x (bbounds path) -> In x (bbounds path')).
Proof. exact (fun hw t ua ub m path path' => modes_refine_C hw t ua ub m path path' C09_facts). Qed.
Print Assumptions C09_modes_refine_C.

(* well-formed declarations: the sub-tokens are the declared units in order, never panic, tile the parent's char and
   byte range without gaps or empty pieces, and each covers exactly the text of its unit's key *)
Theorem C09_split_partitions_parent :
  forall hw key t n us,
    (forall u, In u us -> hw u = blen (key u)) ->
    us <> [] ->
    units_wf key t n us ->
    exists subs,
      split_node hw t n us = Some subs /\
      map wid subs = us /\
      tiles (nb n) (bb n) (ne n) (be n) subs /\
      Forall2 (fun s u => slice t (nb s) (ne s) = key u) subs us.
Proof. exact split_partitions_parent. Qed.
Print Assumptions C09_split_partitions_parent.

(* two or more declared units: split_into appends exactly what tokenising that token in the mode yields *)
Theorem C09_split_into_eq_split_path :
  forall hw t units n out,
    (2 <= length (units (wid n)))%nat ->
    split_into hw t units n out =
    match split_path hw t units [n] with Some l => Some (true, out ++ l) | None => None end.
Proof. exact (fun hw t units n out => split_into_eq_split_path hw t units n out C09_facts). Qed.
Print Assumptions C09_split_into_eq_split_path.

(* whole path: A/B tokenisation = C tokenisation + on-demand split of every token (no word with exactly one unit) *)
Theorem C09_split_path_eq_resplit :
  forall hw t units path,
    (forall n, In n path -> length (units (wid n)) <> 1%nat) ->
    split_path hw t units path = resplit hw t units path.
Proof. exact (fun hw t units path => split_path_eq_resplit hw t units path C09_facts). Qed.
Print Assumptions C09_split_path_eq_resplit.

(* no declared unit: split_into reports false and leaves the output list alone *)
Theorem C09_split_none_reports_false :
  forall hw t units n out,
    units (wid n) = [] -> split_into hw t units n out = Some (false, out).
Proof. exact (fun hw t units n out => split_none_reports_false hw t units n out C09_facts). Qed.
Print Assumptions C09_split_none_reports_false.

(* re-stamping: a system unit id is kept, any other follows the dictionary the parent word was read from *)
Theorem C09_restamp_spec :
  forall d u,
    (dic_of u = 0 -> restamp d u = u) /\
    (dic_of u <> 0 -> dic_of (restamp d u) = d /\ word_of (restamp d u) = word_of u).
Proof. exact (fun d u => restamp_spec d u C09_facts). Qed.
Print Assumptions C09_restamp_spec.
