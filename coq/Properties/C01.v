(* C01 — Morphemes partition the original text byte-for-byte (lossless surfaces).
   Only the property theorems; each is closed by `exact` of a lemma of Proofs/BufferProofs.v.

   The unbounded statements live on the level of the offset map (Model/Buffer.v): whatever the lattice, the path-rewrite
   plugins and the A/B splitting produce, as long as the resulting path is a contiguous chain of byte ranges over the
   *rewritten* text that starts at 0, ends at its length and cuts on character boundaries (`path_ok_b`; empty ranges are
   allowed), mapping it through the offset map of any reachable buffer state gives a partition of the *original* text.
   That the real pipeline delivers such a chain (and reports exactly the mapped ranges) is checked on the implementation's
   output by the correspondence run (check_c01), for all modes / plugin stacks / dictionaries generated there. *)
From Coq Require Import List NArith Arith.
From Coq Require Import ZArith.
From SudachiVerif Require Import Model.Buffer Proofs.BufferProofs Model.Lattice Proofs.PipelineProofs.
Import ListNotations.
Open Scope nat_scope.

Fact C01_facts_ok : cfg_ok the_cfg = true.
Proof. vm_compute. reflexivity. Qed.

(* the reported ranges are in text order, the first begins at 0, each begins where the previous one ended, the last ends at
   the input length, every boundary is a character boundary of the original (partition_b);
   concatenating the surfaces reproduces the input byte for byte;
   and each surface, computed as Morpheme::surface does (orig_slice of the node's byte range), is exactly the original
   text of its reported range *)
Theorem C01_surfaces_partition :
  forall o s p, wf_text o = true -> Reach the_cfg o s -> path_ok_b (cur s) p = true ->
    partition_b o (map (map_range (m2o s)) p) = true /\
    concat (map (byte_slice o) (map (map_range (m2o s)) p)) = o /\
    (forall r, In r p -> orig_slice s (fst r) (snd r) = Some (byte_slice o (map_range (m2o s) r))).
Proof. exact (surfaces_partition_reach the_cfg C01_facts_ok). Qed.
Print Assumptions C01_surfaces_partition.

(* Morpheme::begin()/end() go through the character index of the node (mod_c2b then m2o), surface() through its byte
   range: when the node's character and byte coordinates agree both give the same original offset *)
Theorem C01_begin_char_eq_byte :
  forall s ci bb, nth_error (mod_c2b (cur s)) ci = Some bb -> to_orig_byte_idx s ci = nth_error (m2o s) bb.
Proof. exact begin_char_eq_byte. Qed.
Print Assumptions C01_begin_char_eq_byte.

(* no morphemes (the empty path) is a legal answer exactly for an empty rewritten text *)
Theorem C01_empty_path_iff_empty_text :
  forall c, path_ok_b c [] = true <-> c = [].
Proof. exact empty_path_iff_empty_text. Qed.
Print Assumptions C01_empty_path_iff_empty_text.

(* "every input that tokenization accepts": the guards read from the source (original longer than MAX_LENGTH rejected,
   resolve_edits leaves early once the running length exceeds REALLY_MAX_LENGTH, both limits <= 65535) keep the rewritten
   text, hence every byte and character offset of a node, within u16: the `as u16` casts of resolve_best_path,
   NodeSplitIterator and Node::new are the identity on every reachable state *)
Fact C01_guards_ok : guards_ok the_cfg = true.
Proof. vm_compute. reflexivity. Qed.

Theorem C01_offsets_fit_u16 :
  forall o s, wf_text o = true -> Reach the_cfg o s -> (N.of_nat (length (cur s)) <= 65535)%N.
Proof. exact (fun o s => reach_len_u16 the_cfg C01_facts_ok o s C01_guards_ok). Qed.
Print Assumptions C01_offsets_fit_u16.

(* Composition with the lattice model of C02: in mode C without path rewriting, for EVERY candidate set inserted in lattice
   order and EVERY connection-cost function, if the lattice is connected then the morphemes read back from it (character
   positions -> byte ranges through the char-to-byte table of build() -> original offsets through the offset map) partition
   the original text and their surfaces concatenate to it.  (Path rewriting and A/B splitting keep the chain property:
   C14_rewrite_is_grouping, C09_split_partitions_parent; that the real pipeline composes them this way is the checked part.) *)
Theorem C01_best_path_partitions_original :
  forall (conn : N -> N -> Z) o s ns r i c,
    wf_text o = true -> Reach the_cfg o s ->
    nodes_ok (nchars (cur s)) ns -> (0 < nchars (cur s))%nat ->
    connect_eos conn (insert_all conn (reset (nchars (cur s))) ns) = Some (r, i, c) ->
    exists es p, top_path conn (insert_all conn (reset (nchars (cur s))) ns) = Some es /\
                 map enode es = map Some p /\ path_cost conn p = c /\
                 let ranges := map (map_range (m2o s)) (map (node_bytes (cur s)) p) in
                 partition_b o ranges = true /\ concat (map (byte_slice o) ranges) = o.
Proof. exact (best_path_partitions_original the_cfg C01_facts_ok). Qed.
Print Assumptions C01_best_path_partitions_original.
