(* C01 — Morphemes partition the original text byte-for-byte (lossless surfaces).
   Only the property theorems; each is closed by `exact` of a lemma of Proofs/BufferProofs.v.

   The unbounded statements live on the level of the offset map (Model/Buffer.v): whatever the lattice, the path-rewrite
   plugins and the A/B splitting produce, as long as the resulting path is a contiguous chain of byte ranges over the
   *rewritten* text that starts at 0, ends at its length and cuts on character boundaries (`path_ok_b`; empty ranges are
   allowed), mapping it through the offset map of any reachable buffer state gives a partition of the *original* text.
   That the modelled pipeline (Lattice -> resolve_best_path -> path-rewrite plugins -> A/B split) delivers such a chain is
   PROVED at the end of this file (C01_pipeline_partitions_original, Proofs/PipelineFull.v); that the real tokenizer reports
   exactly these ranges is, in addition, checked on its output by the correspondence run (check_c01), for all modes /
   plugin stacks / dictionaries / reuse sessions generated there. *)
From Coq Require Import List NArith Arith.
From Coq Require Import ZArith.
From SudachiVerif Require Import Model.Buffer Proofs.BufferProofs Model.Lattice Proofs.PipelineProofs.
Import ListNotations.
Open Scope nat_scope.

Fact C01_facts_ok : cfg_ok the_cfg = true.
Proof. vm_compute. reflexivity. Qed.

(* the reported ranges are in text order, the first begins at 0, each begins where the previous one ended, the last ends at
   the input length, every boundary is a character boundary of the original (partition_b);
   concatenating the surfaces reproduces the input byte for byte;
   and each surface, computed as Morpheme::surface does (orig_slice of the node's byte range), is exactly the original
   text of its reported range *)
Theorem C01_surfaces_partition :
  forall o s p, wf_text o = true -> Reach the_cfg o s -> path_ok_b (cur s) p = true ->
    partition_b o (map (map_range (m2o s)) p) = true /\
    concat (map (byte_slice o) (map (map_range (m2o s)) p)) = o /\
    (forall r, In r p -> orig_slice s (fst r) (snd r) = Some (byte_slice o (map_range (m2o s) r))).
Proof. exact (surfaces_partition_reach the_cfg C01_facts_ok). Qed.
Print Assumptions C01_surfaces_partition.

(* Morpheme::begin()/end() go through the character index of the node (mod_c2b then m2o), surface() through its byte
   range: when the node's character and byte coordinates agree both give the same original offset *)
Theorem C01_begin_char_eq_byte :
  forall s ci bb, nth_error (mod_c2b (cur s)) ci = Some bb -> to_orig_byte_idx s ci = nth_error (m2o s) bb.
Proof. exact begin_char_eq_byte. Qed.
Print Assumptions C01_begin_char_eq_byte.

(* no morphemes (the empty path) is a legal answer exactly for an empty rewritten text *)
Theorem C01_empty_path_iff_empty_text :
  forall c, path_ok_b c [] = true <-> c = [].
Proof. exact empty_path_iff_empty_text. Qed.
Print Assumptions C01_empty_path_iff_empty_text.

(* "every input that tokenization accepts": the guards read from the source (original longer than MAX_LENGTH rejected,
   resolve_edits leaves early once the running length exceeds REALLY_MAX_LENGTH, both limits <= 65535) keep the rewritten
   text, hence every byte and character offset of a node, within u16: the `as u16` casts of resolve_best_path,
   NodeSplitIterator and Node::new are the identity on every reachable state *)
Fact C01_guards_ok : guards_ok the_cfg = true.
Proof. vm_compute. reflexivity. Qed.

Theorem C01_offsets_fit_u16 :
  forall o s, wf_text o = true -> Reach the_cfg o s -> (N.of_nat (length (cur s)) <= 65535)%N.
Proof. exact (fun o s => reach_len_u16 the_cfg C01_facts_ok o s C01_guards_ok). Qed.
Print Assumptions C01_offsets_fit_u16.

(* Composition with the lattice model of C02: in mode C without path rewriting, for EVERY candidate set inserted in lattice
   order and EVERY connection-cost function, if the lattice is connected then the morphemes read back from it (character
   positions -> byte ranges through the char-to-byte table of build() -> original offsets through the offset map) partition
   the original text and their surfaces concatenate to it.  (Path rewriting and A/B splitting keep the chain property:
   C14_rewrite_is_grouping, C09_split_partitions_parent; that the real pipeline composes them this way is the checked part.) *)
Theorem C01_best_path_partitions_original :
  forall (conn : N -> N -> Z) o s ns r i c,
    wf_text o = true -> Reach the_cfg o s ->
    nodes_ok (nchars (cur s)) ns -> (0 < nchars (cur s))%nat ->
    connect_eos conn (insert_all conn (reset (nchars (cur s))) ns) = Some (r, i, c) ->
    exists es p, top_path conn (insert_all conn (reset (nchars (cur s))) ns) = Some es /\
                 map enode es = map Some p /\ path_cost conn p = c /\
                 let ranges := map (map_range (m2o s)) (map (node_bytes (cur s)) p) in
                 partition_b o ranges = true /\ concat (map (byte_slice o) ranges) = o.
Proof. exact (best_path_partitions_original the_cfg C01_facts_ok). Qed.
Print Assumptions C01_best_path_partitions_original.

(* ================================================================== the whole pipeline (Proofs/PipelineFull.v)
   Common notion: a path is a list of byte ranges over the rewritten text.  `grouped p q`: q is p with consecutive
   non-empty groups replaced by (begin of the first, end of the last).  `tiled p q`: q is p with every range replaced by
   a contiguous chain from its begin to its end.  `stage t` = one grouping, or one tiling whose cuts are character
   boundaries of t. *)
From Coq Require Import Relations.
From SudachiVerif Require Import Proofs.PipelineFull.
From SudachiVerif Require Model.Rewrite Proofs.RewriteProofs Model.Split Proofs.SplitProofs.

(* (a) a grouping of a contiguous boundary-aligned chain is one *)
Theorem C01_grouping_preserves_path_ok :
  forall t p q, path_ok_b t p = true -> grouped p q -> path_ok_b t q = true.
Proof. exact path_ok_grouped. Qed.
Print Assumptions C01_grouping_preserves_path_ok.

(* (b) replacing ranges of such a chain by tilings on character boundaries gives such a chain *)
Theorem C01_tiling_preserves_path_ok :
  forall t p q, path_ok_b t p = true -> tiled p q -> forallb (bnd t) q = true -> path_ok_b t q = true.
Proof. exact path_ok_tiled. Qed.
Print Assumptions C01_tiling_preserves_path_ok.

(* stage 1 is a grouping: what any chain of JoinNumeric / JoinKatakanaOov plugins (Model/Rewrite.v) returns, seen through
   the byte range each ResultNode reports, is a grouping of its input (adapter over C14's rewrite_is_grouping) *)
Theorem C01_rewrite_plugins_are_a_grouping_stage :
  forall t pls p q, Rewrite.run_plugins pls p = Some (Rewrite.Ok q) -> stage t (map rbytes p) (map rbytes q).
Proof. exact rewrite_stage. Qed.
Print Assumptions C01_rewrite_plugins_are_a_grouping_stage.

(* stage 2 is a tiling on character boundaries: under C09's well-formedness hypothesis for the requested mode
   (`mode_wf`: every node whose word declares >= 2 units covers exactly the concatenation of the unit keys, and
   head_word_length = byte length of the key) split_path (Model/Split.v) does not panic and replaces every node by itself
   or by a tiling of its byte range whose cuts are boundaries of the UTF-8 encoding `enc t` of the rewritten text *)
Theorem C01_split_is_a_tiling_stage :
  forall hw key t ua ub m path,
    Split.split_facts_ok = true -> mode_wf hw key t ua ub m path ->
    path_ok_b (enc t) (map sbytes path) = true ->
    exists path', Split.tokenize_mode hw t ua ub m path = Some path' /\
                  clos_refl_trans _ (stage (enc t)) (map sbytes path) (map sbytes path').
Proof. exact tokenize_mode_stage. Qed.
Print Assumptions C01_split_is_a_tiling_stage.

(* any number of stages after a chain: still a partition of the original, lossless surfaces *)
Theorem C01_stages_partition_original :
  forall o s p q, wf_text o = true -> Reach the_cfg o s ->
    path_ok_b (cur s) p = true -> clos_refl_trans _ (stage (cur s)) p q ->
    partition_b o (map (map_range (m2o s)) q) = true /\
    concat (map (byte_slice o) (map (map_range (m2o s)) q)) = o /\
    (forall r, In r q -> orig_slice s (fst r) (snd r) = Some (byte_slice o (map_range (m2o s) r))).
Proof. exact (stages_partition_original the_cfg C01_facts_ok). Qed.
Print Assumptions C01_stages_partition_original.

(* (c) end to end.  For every original o, every buffer state s reachable by input-text edit batches, every candidate set in
   lattice order and every connection-cost function for which the lattice is connected; p = the best path read back from
   the lattice; pr = the ResultNodes resolve_best_path builds from it (`rnode_of`: same character range, byte range through
   mod_c2b; everything else arbitrary); q = what any chain of path-rewrite plugins returns on pr; ps = the same nodes as
   split_path sees them (`snode_of`); any mode m with C09's well-formedness (`mode_wf`):
   the tokenizer's last stage returns a path `final`, the byte ranges its nodes report, mapped through the offset map,
   partition the original text, the surfaces (computed as Morpheme::surface does) are the original text of those ranges and
   concatenate to the input.
   Explicit bridging hypothesis: `cur s = enc t` -- the rewritten text, which Buffer.v sees as bytes, is the UTF-8 encoding
   of the code-point list t that Split.v works on (a Rust String is valid UTF-8). *)
Theorem C01_pipeline_partitions_original :
  forall (conn : N -> N -> Z) o s t ns r i c,
    wf_text o = true -> Reach the_cfg o s -> cur s = enc t ->
    nodes_ok (nchars (cur s)) ns -> (0 < nchars (cur s))%nat ->
    connect_eos conn (insert_all conn (reset (nchars (cur s))) ns) = Some (r, i, c) ->
    exists es p,
      top_path conn (insert_all conn (reset (nchars (cur s))) ns) = Some es /\
      map enode es = map Some p /\ path_cost conn p = c /\
      forall pr pls q ps hw key ua ub m,
        Forall2 (rnode_of (cur s)) p pr ->
        Rewrite.run_plugins pls pr = Some (Rewrite.Ok q) ->
        Forall2 snode_of q ps ->
        Split.split_facts_ok = true -> mode_wf hw key t ua ub m ps ->
        exists final,
          Split.tokenize_mode hw t ua ub m ps = Some final /\
          let ranges := map (map_range (m2o s)) (map sbytes final) in
          partition_b o ranges = true /\
          concat (map (byte_slice o) ranges) = o /\
          (forall n, In n final ->
             orig_slice s (fst (sbytes n)) (snd (sbytes n)) = Some (byte_slice o (map_range (m2o s) (sbytes n)))).
Proof. exact (pipeline_partitions_original the_cfg C01_facts_ok). Qed.
Print Assumptions C01_pipeline_partitions_original.

(* the bridging hypothesis discharged: `ReachU` = reachable from an original that is the UTF-8 encoding of a code-point
   list by well-formed batches whose replacement strings are UTF-8 encodings (InputEditor::replace_* take &str / char /
   String).  Such a state's text is again a UTF-8 encoding: well-formed edits preserve validity *)
Theorem C01_edits_preserve_utf8 :
  forall t0 s, ReachU the_cfg (enc t0) s -> exists t, cur s = enc t.
Proof. exact (reachU_utf8 the_cfg C01_facts_ok). Qed.
Print Assumptions C01_edits_preserve_utf8.

(* (c) without the bridging hypothesis: the code-point view t of the rewritten text exists, and for it the whole pipeline
   (lattice -> best path -> rewrite plugins -> split in mode m under C09's well-formedness) partitions the original *)
Theorem C01_pipeline_partitions_original_utf8 :
  forall (conn : N -> N -> Z) t0 s,
    ReachU the_cfg (enc t0) s ->
    exists t, cur s = enc t /\
    forall ns r i c,
      nodes_ok (nchars (cur s)) ns -> (0 < nchars (cur s))%nat ->
      connect_eos conn (insert_all conn (reset (nchars (cur s))) ns) = Some (r, i, c) ->
      exists es p,
        top_path conn (insert_all conn (reset (nchars (cur s))) ns) = Some es /\
        map enode es = map Some p /\ path_cost conn p = c /\
        forall pr pls q ps hw key ua ub m,
          Forall2 (rnode_of (cur s)) p pr ->
          Rewrite.run_plugins pls pr = Some (Rewrite.Ok q) ->
          Forall2 snode_of q ps ->
          Split.split_facts_ok = true -> mode_wf hw key t ua ub m ps ->
          exists final,
            Split.tokenize_mode hw t ua ub m ps = Some final /\
            let ranges := map (map_range (m2o s)) (map sbytes final) in
            partition_b (enc t0) ranges = true /\
            concat (map (byte_slice (enc t0)) ranges) = enc t0 /\
            (forall n, In n final ->
               orig_slice s (fst (sbytes n)) (snd (sbytes n)) = Some (byte_slice (enc t0) (map_range (m2o s) (sbytes n)))).
Proof. exact (pipeline_partitions_original_utf8 the_cfg C01_facts_ok). Qed.
Print Assumptions C01_pipeline_partitions_original_utf8.

(* ================================================================== THE TOKENIZER, END TO END (Proofs/EndToEnd.v)
   `tokenize_model` (Model/Tokenizer.v) is the composition of the stage models in the order of
   StatefulTokenizer::do_tokenize: start_build -> input-text plugins -> character classes / can_bow -> dictionary lookup +
   OOV providers -> lattice (skip unreachable positions, fallback provider) -> Viterbi -> resolve_best_path -> path-rewrite
   plugins -> split_path -> Morpheme accessors.  It is run against the real tokenizer on every check (check_end_to_end). *)
From Coq Require Import String.
From Coq Require Import List.
From SudachiVerif Require Import Model.Tokenizer Proofs.EndToEnd Proofs.BuildOptimal.
Local Close Scope string_scope.
From SudachiVerif Require Proofs.NormalizeBuffer Proofs.LookupLattice Proofs.OovWf Proofs.OovLattice Model.Oov
     Proofs.RewriteTermination Model.SplitSource Proofs.SplitDict Proofs.CodecProofs Model.Codec.

(* facts re-read from the sources on this run *)
Fact C01_e2e_facts :
  Generated.NormalizeFacts.slow_search_earliest = false /\ Generated.NormalizeFacts.lowercase_guard_is_uppercase = false /\
  Generated.NormalizeFacts.path_guard_is_uppercase = false /\
  Oov.OF.continuity_forward = true /\ Oov.OF.regex_ignores_empty_match = true /\ Split.split_facts_ok = true /\
  c_start_cmp the_cfg = ">"%string /\ c_resolve_cmp the_cfg = ">"%string /\ c_commit_cmp the_cfg = ">"%string /\
  (Z.of_N (c_commit_limit the_cfg) < 18446744073709551616)%Z.
Proof. vm_compute. repeat split; reflexivity. Qed.

Fact C01_e2e_rewrite_facts : RewriteTermination.rewrite_facts_ok.
Proof.
  unfold RewriteTermination.rewrite_facts_ok, RewriteTermination.num_facts_ok.
  repeat split; try (vm_compute; reflexivity); try (vm_compute; discriminate). vm_compute. repeat constructor.
Qed.

Fact C01_e2e_codec_facts :
  Generated.FieldOrder.writer_fields = Codec.expected_writer /\ CodecProofs.reader_facts_ok /\ CodecProofs.len_thresholds_ok = true.
Proof. split; [vm_compute; reflexivity|]. split; [split; vm_compute; reflexivity | vm_compute; reflexivity]. Qed.

(* For EVERY
     original text t0 (code points; its UTF-8 encoding enc t0 is what the user passes), within the input limit,
     tokenizer tk: stack of input-text plugins, character-class function, lexicons, word parameters / infos, OOV providers,
       connection-cost function, path-rewrite plugins, mode, split tables,
   with t = the text the plugin stack specifies (C07: stack_spec),
   under the hypotheses H1..H9 below, the model tokenizer answers Ok ms, and
     - if t is empty there are no morphemes;
     - otherwise the byte ranges (begin, end) of ms partition enc t0 (first begins at 0, each begins where the previous one
       ended, the last ends at |enc t0|, every cut on a character boundary), the surfaces concatenate to enc t0, every
       surface is the original slice of its range, begin_c / end_c are the numbers of code points of enc t0 before
       begin / end (C08);
     - and, before path rewriting and splitting, the path read back from the lattice is a chain of OFFERED candidates
       covering the text whose cost is minimal among all such chains (C02), where position p offers exactly
       `offered_at the_cfg tk t p`: the dictionary entries found by LexiconSet::lookup at the byte offset of character p
       that end where a word may begin (Model/DictCands.v dict_entries, C04) followed by what the OOV providers prescribe
       there, the fallback provider included (Model/Oov.v position_step, C13). *)
Theorem C01_tokenizer_end_to_end :
  forall (tk : tokenizer) (t0 : list N) (o_simple : Oov.oovdef) (key : N -> list N) (t : list N),
    t = NormalizeBuffer.stack_spec (tk_plugins tk) t0 ->
    (* H1  the input is within MAX_LENGTH (otherwise tokenization answers Err: C03) *)
    (Z.of_nat (length (PipelineFull.enc t0)) <= Z.of_N (c_start_limit the_cfg))%Z ->
    (* H2  every plugin is well formed: rewrite.def table with distinct non-empty keys and the laws of the Unicode oracle
           (C07: plugin_wf; the laws are swept over all scalar values by C07's thorough tier) *)
    Forall NormalizeBuffer.plugin_wf (tk_plugins tk) ->
    (* H3  no plugin empties a non-empty text (the offset-map theorems of C08 exclude emptying batches);
       H4  before each plugin the text plus what the plugin inserts, and after it the text, fit REALLY_MAX_LENGTH
           (otherwise Err: C03 / C07_plugin_stack_total) *)
    NormalizeBuffer.stack_nonempty (tk_plugins tk) t0 -> NormalizeBuffer.stack_fits the_cfg (tk_plugins tk) t0 ->
    (* H5  the rewritten text consists of Unicode scalar values (true of every Rust String; for the model it is a
           statement about what the Unicode oracle of H2 returns) *)
    Forall scalar t ->
    (* H6  every lexicon carries the C04 certificate (cert_lex: checked on the built dictionary by ./check C04) and its CSV
           surfaces are whole UTF-8 strings *)
    certified (tk_lexs tk) ->
    (* H7  the regex provider's oracle reports matches inside the searched window (C13 run-time check; vacuous without a
           regex provider); the Simple provider is the fallback (last) provider; no provider fails at a position of the
           text (regex debug error / created-words overflow: C13, C03) *)
    (forall q, In q (tk_provs tk) -> OovWf.provider_oracle_ok q (length t)) ->
    Oov.fallback_of (tk_provs tk) = Some (Oov.PSimple o_simple) ->
    (forall p, p < length t ->
       exists st, Oov.normal_pass (Oov.mk_ctx (classes tk t)) (tk_provs tk) p (dict_onodes the_cfg tk t p) = Oov.ROk st) ->
    (* H8  split declarations: every node handed to split_path whose word declares two or more units satisfies C09's
           units_wf (C09_units_wf_of_rows derives it from the author-checkable rows_units_ok: see the corollary below) *)
    (forall a, pre_split the_cfg tk t = Ok a ->
       PipelineFull.mode_wf (tk_hw tk) key t (tk_ua tk) (tk_ub tk) (tk_mode tk) (pr_split_in a)) ->
    exists ms, tokenize_model the_cfg tk t0 = Ok ms /\
      (t = [] -> ms = []) /\
      (t <> [] ->
         partition_b (PipelineFull.enc t0) (map (fun m => (mo_begin m, mo_end m)) ms) = true /\
         concat (map mo_surface ms) = PipelineFull.enc t0 /\
         Forall (fun m => mo_surface m = byte_slice (PipelineFull.enc t0) (mo_begin m, mo_end m) /\
                          mo_begin_c m = codepoints_before (PipelineFull.enc t0) (mo_begin m) /\
                          mo_end_c m = codepoints_before (PipelineFull.enc t0) (mo_end m)) ms /\
         exists a, pre_split the_cfg tk t = Ok a /\
           let p := map fst (pr_path a) in
           let off := Offered (offered_at the_cfg tk t) OovLattice.no_fallback in
           chainP off 0 (length t) p /\ path_cost (tk_conn tk) p = snd (pr_eos a) /\
           forall p', chainP off 0 (length t) p' -> (path_cost (tk_conn tk) p <= path_cost (tk_conn tk) p')%Z).
Proof.
  exact (fun tk t0 o_simple key t Ht H1 H2 H3 H4 H5 H6 =>
    match C01_e2e_facts with
    | conj Fs (conj Fg (conj Fp (conj Ffw (conj Ffx (conj Fsp (conj Gs (conj Gr (conj Gc Gl)))))))) =>
      tokenizer_end_to_end Fs Fg Fp Ffw Ffx C01_e2e_rewrite_facts Fsp the_cfg C01_facts_ok Gs Gr Gc Gl
        tk t0 o_simple key t Ht H1 H2 H3 H4 H5 (keys_of_certificates _ H6)
    end).
Qed.
Print Assumptions C01_tokenizer_end_to_end.

(* H8 from the rows a dictionary author writes: when the split tables of tk are those of the loaded dictionary stack cs
   compiled from the sources ds (C05/C09 codec models), it suffices that every node handed to split_path that declares two or
   more units satisfies the author-checkable rows_units_ok and covers the key of its word (it was produced by a lookup
   of that word: C04) *)
Theorem C01_split_hypothesis_from_rows :
  forall ds cs nsp po t m path,
    SplitDict.stack_compiled ds cs -> SplitDict.srcs_ok ds ->
    rows_mode_wf ds cs nsp po t m path ->
    PipelineFull.mode_wf (SplitSource.ld_hw cs nsp po) (SplitSource.src_key ds) t
                         (SplitSource.ld_units cs nsp po true) (SplitSource.ld_units cs nsp po false) m path.
Proof.
  exact (fun ds cs nsp po t m path Hc Hs =>
    mode_wf_of_rows (proj1 C01_e2e_codec_facts) (proj1 (proj2 C01_e2e_codec_facts)) (proj2 (proj2 C01_e2e_codec_facts))
                    ds cs Hc Hs nsp po t m path).
Qed.
Print Assumptions C01_split_hypothesis_from_rows.

(* ================================================================== H8 DISCHARGED; THE MACHINE SIDE (Proofs/EndToEndRows.v)
   The word ids that the tokenizer model threads along by position are the ids of the candidates that were inserted;
   a dictionary candidate is a lookup result, so by the C04 certificate of its lexicon -- taken against the index rows of
   the dictionary SOURCE (C05: index_rows_of) -- it ends where an indexed surface that is a prefix of the text there ends,
   and its id is the stamped row number: the node covers the key of its word.  OOV nodes and nodes rebuilt by path-rewrite
   plugins carry ids outside the dictionaries and declare no units. *)
From SudachiVerif Require Import Proofs.EndToEndRows.
From SudachiVerif Require Proofs.LexSetProofs Model.CodecCheck Model.CodecResolve Model.LatticeM Model.LatticeP Proofs.LatticePProofs.

Fact C01_e2e_layout_fact : LexSetProofs.layout_ok = true.
Proof. vm_compute. reflexivity. Qed.

(* every node handed to split_path either has no dictionary id (dictionary part 15: OOV or WordId::INVALID) or its id is
   that of a row of the dictionary source and it covers, in the rewritten text, exactly the key of that row *)
Theorem C01_path_nodes_cover_their_keys :
  forall (tk : tokenizer) (t : list N) (ds : SplitSource.srcs),
    Forall scalar t ->
    Forall2 (fun L rows => exists fuel, LexSet.cert_lex L (CodecCheck.index_rows_of rows) fuel = true) (tk_lexs tk) ds ->
    length ds <= 15 -> SplitDict.srcs_ok ds ->
    (forall p m, In m (offered_at the_cfg tk t p) -> BuildLatticeProofs.node_wf (length t) p m) ->
    forall a, pre_split the_cfg tk t = Ok a ->
    forall nd, In nd (pr_split_in a) ->
      SplitSource.dic_part (Split.wid nd) = 15%N \/
      ((exists rr, SplitSource.src_row ds (Split.wid nd) = Some rr) /\
       SplitDict.covers t nd (SplitSource.src_key ds (Split.wid nd))).
Proof.
  exact (fun tk t ds Hsc Hcert Hnd Hsrc Hwf =>
    path_nodes_cover_their_keys the_cfg C01_facts_ok C01_e2e_layout_fact tk t Hsc ds Hcert Hnd Hsrc Hwf).
Qed.
Print Assumptions C01_path_nodes_cover_their_keys.

(* C01_tokenizer_end_to_end with H8 replaced by the author-checkable condition on the dictionary source.
   ds = the source rows of the dictionary stack (system first), cs = the compiled files, nsp / po = num_system_pos and the
   POS offsets of the loaded stack (C05 / C09 models).  Hypotheses H1..H5, H7 as in C01_tokenizer_end_to_end;
     H6'  every lexicon carries the C04 certificate against the index rows of ITS source rows, and the source surfaces are
          Unicode scalar values;
     H8'  the stack is what the C05 writer compiles from ds (stack_compiled), the rows come from the CSV reader and no
          dictionary has 2^28 words (srcs_ok), at most 15 dictionaries (LexiconSet::is_full), the split tables of tk are
          those of the loaded stack, and in mode A (B) every word of the source (src_row ds w = Some _) that declares two
          or more A (B) units satisfies rows_units_ok: its units exist, have non-empty keys, and their keys concatenate
          to the key of the word. *)
Theorem C01_tokenizer_end_to_end_from_rows :
  forall (tk : tokenizer) (t0 : list N) (o_simple : Oov.oovdef) (t : list N)
         (ds : SplitSource.srcs) (cs : list SplitSource.compiled) (nsp : N) (po : N -> N),
    t = NormalizeBuffer.stack_spec (tk_plugins tk) t0 ->
    (* H1 *) (Z.of_nat (length (PipelineFull.enc t0)) <= Z.of_N (c_start_limit the_cfg))%Z ->
    (* H2 *) Forall NormalizeBuffer.plugin_wf (tk_plugins tk) ->
    (* H3, H4 *) NormalizeBuffer.stack_nonempty (tk_plugins tk) t0 -> NormalizeBuffer.stack_fits the_cfg (tk_plugins tk) t0 ->
    (* H5 *) Forall scalar t ->
    (* H6' *)
    Forall2 (fun L rows => exists fuel, LexSet.cert_lex L (CodecCheck.index_rows_of rows) fuel = true) (tk_lexs tk) ds ->
    Forall (Forall (fun r => Forall scalar (CodecResolve.r_surface r))) ds ->
    (* H7 *)
    (forall q, In q (tk_provs tk) -> OovWf.provider_oracle_ok q (length t)) ->
    Oov.fallback_of (tk_provs tk) = Some (Oov.PSimple o_simple) ->
    (forall p, p < length t ->
       exists st, Oov.normal_pass (Oov.mk_ctx (classes tk t)) (tk_provs tk) p (dict_onodes the_cfg tk t p) = Oov.ROk st) ->
    (* H8' *)
    SplitDict.stack_compiled ds cs -> SplitDict.srcs_ok ds -> length ds <= 15 ->
    tk_hw tk = SplitSource.ld_hw cs nsp po ->
    tk_ua tk = SplitSource.ld_units cs nsp po true -> tk_ub tk = SplitSource.ld_units cs nsp po false ->
    match tk_mode tk with
    | Split.ModeA => forall w rr, SplitSource.src_row ds w = Some rr ->
                       2 <= length (SplitSource.ld_units cs nsp po true w) -> SplitSource.rows_units_ok ds true w = true
    | Split.ModeB => forall w rr, SplitSource.src_row ds w = Some rr ->
                       2 <= length (SplitSource.ld_units cs nsp po false w) -> SplitSource.rows_units_ok ds false w = true
    | Split.ModeC => True
    end ->
    exists ms, tokenize_model the_cfg tk t0 = Ok ms /\
      (t = [] -> ms = []) /\
      (t <> [] ->
         partition_b (PipelineFull.enc t0) (map (fun m => (mo_begin m, mo_end m)) ms) = true /\
         concat (map mo_surface ms) = PipelineFull.enc t0 /\
         Forall (fun m => mo_surface m = byte_slice (PipelineFull.enc t0) (mo_begin m, mo_end m) /\
                          mo_begin_c m = codepoints_before (PipelineFull.enc t0) (mo_begin m) /\
                          mo_end_c m = codepoints_before (PipelineFull.enc t0) (mo_end m)) ms /\
         exists a, pre_split the_cfg tk t = Ok a /\
           let p := map fst (pr_path a) in
           let off := Offered (offered_at the_cfg tk t) OovLattice.no_fallback in
           chainP off 0 (length t) p /\ path_cost (tk_conn tk) p = snd (pr_eos a) /\
           forall p', chainP off 0 (length t) p' -> (path_cost (tk_conn tk) p <= path_cost (tk_conn tk) p')%Z).
Proof.
  exact (match C01_e2e_facts with
    | conj Fs (conj Fg (conj Fp (conj Ffw (conj Ffx (conj Fsp (conj Gs (conj Gr (conj Gc Gl)))))))) =>
      tokenizer_end_to_end_from_rows Fs Fg Fp Ffw Ffx C01_e2e_rewrite_facts Fsp C01_e2e_layout_fact
        (proj1 C01_e2e_codec_facts) (proj1 (proj2 C01_e2e_codec_facts)) (proj2 (proj2 C01_e2e_codec_facts))
        the_cfg C01_facts_ok Gs Gr Gc Gl
    end).
Qed.
Print Assumptions C01_tokenizer_end_to_end_from_rows.

(* The machine side of the same run.  nl, nr, data = ConnectionMatrix { num_left, num_right, data }.  In addition to the
   hypotheses above:
     B1  the rewritten text has at most 32766 characters;
     B2  |connection cost| <= 32768 (i16);
     B3  every OFFERED candidate has |word cost| <= 32768 (i16) and connection ids below the matrix dimensions;
     B4  the matrix table has num_left * num_right entries, both > 0;
     B5  at most 65535 offered candidates end at the same boundary (`index as u16`).
   Then, besides everything C01_tokenizer_end_to_end_from_rows states, for a non-empty rewritten text: the lattice of the
   run is the insertion of a list `ins` of offered candidates; computed in i32 with the i32::MAX sentinel, with checked or
   wrapping additions, every insert and connect_eos yield exactly the exact-arithmetic lattice and EOS entry (C02 /
   C03_no_overflow_if_bounded: no overflow, no clash with the sentinel); and the array-level model of lattice.rs run on the
   same insertions -- from any earlier state of the reused Lattice object, in any build profile -- has no index / unwrap /
   cast / assertion panic and never reads outside the matrix (C03_lattice_no_index_panic); by the previous conjunct the
   one remaining site, the i32 addition, does not overflow. *)
Theorem C01_tokenizer_end_to_end_machine :
  forall (tk : tokenizer) (t0 : list N) (o_simple : Oov.oovdef) (t : list N)
         (ds : SplitSource.srcs) (cs : list SplitSource.compiled) (nsp : N) (po : N -> N),
    t = NormalizeBuffer.stack_spec (tk_plugins tk) t0 ->
    (Z.of_nat (length (PipelineFull.enc t0)) <= Z.of_N (c_start_limit the_cfg))%Z ->
    Forall NormalizeBuffer.plugin_wf (tk_plugins tk) ->
    NormalizeBuffer.stack_nonempty (tk_plugins tk) t0 -> NormalizeBuffer.stack_fits the_cfg (tk_plugins tk) t0 ->
    Forall scalar t ->
    Forall2 (fun L rows => exists fuel, LexSet.cert_lex L (CodecCheck.index_rows_of rows) fuel = true) (tk_lexs tk) ds ->
    Forall (Forall (fun r => Forall scalar (CodecResolve.r_surface r))) ds ->
    (forall q, In q (tk_provs tk) -> OovWf.provider_oracle_ok q (length t)) ->
    Oov.fallback_of (tk_provs tk) = Some (Oov.PSimple o_simple) ->
    (forall p, p < length t ->
       exists st, Oov.normal_pass (Oov.mk_ctx (classes tk t)) (tk_provs tk) p (dict_onodes the_cfg tk t p) = Oov.ROk st) ->
    SplitDict.stack_compiled ds cs -> SplitDict.srcs_ok ds -> length ds <= 15 ->
    tk_hw tk = SplitSource.ld_hw cs nsp po ->
    tk_ua tk = SplitSource.ld_units cs nsp po true -> tk_ub tk = SplitSource.ld_units cs nsp po false ->
    match tk_mode tk with
    | Split.ModeA => forall w rr, SplitSource.src_row ds w = Some rr ->
                       2 <= length (SplitSource.ld_units cs nsp po true w) -> SplitSource.rows_units_ok ds true w = true
    | Split.ModeB => forall w rr, SplitSource.src_row ds w = Some rr ->
                       2 <= length (SplitSource.ld_units cs nsp po false w) -> SplitSource.rows_units_ok ds false w = true
    | Split.ModeC => True
    end ->
    forall (nl nr : N) (data : list Z),
    (* B1 *) (N.of_nat (length t) <= 32766)%N ->
    (* B2 *) (forall l r, (- 32768 <= tk_conn tk l r <= 32768)%Z) ->
    (* B3 *) (forall p m, In m (offered_at the_cfg tk t p) ->
                (- 32768 <= ncost m <= 32768)%Z /\ LatticeP.ids_ok nl nr m = true) ->
    (* B4 *) LatticeP.matrix_ok nl nr data = true ->
    (* B5 *) (forall e, (N.of_nat (LatticeP.count_end e (flat_map (offered_at the_cfg tk t) (seq 0 (length t)))) <= 65535)%N) ->
    (exists ms, tokenize_model the_cfg tk t0 = Ok ms /\
      (t = [] -> ms = []) /\
      (t <> [] ->
         partition_b (PipelineFull.enc t0) (map (fun m => (mo_begin m, mo_end m)) ms) = true /\
         concat (map mo_surface ms) = PipelineFull.enc t0 /\
         Forall (fun m => mo_surface m = byte_slice (PipelineFull.enc t0) (mo_begin m, mo_end m) /\
                          mo_begin_c m = codepoints_before (PipelineFull.enc t0) (mo_begin m) /\
                          mo_end_c m = codepoints_before (PipelineFull.enc t0) (mo_end m)) ms /\
         exists a, pre_split the_cfg tk t = Ok a /\
           let p := map fst (pr_path a) in
           let off := Offered (offered_at the_cfg tk t) OovLattice.no_fallback in
           chainP off 0 (length t) p /\ path_cost (tk_conn tk) p = snd (pr_eos a) /\
           forall p', chainP off 0 (length t) p' -> (path_cost (tk_conn tk) p <= path_cost (tk_conn tk) p')%Z)) /\
    (t <> [] ->
       exists a ins,
         pre_split the_cfg tk t = Ok a /\
         pr_lattice a = insert_all (tk_conn tk) (reset (length t)) ins /\
         (forall m, In m ins -> exists q, In m (offered_at the_cfg tk t q)) /\
         connect_eos (tk_conn tk) (pr_lattice a) = Some (pr_eos a) /\
         (forall checked, exists costs,
            LatticeM.minsert_all checked (tk_conn tk) (LatticeM.mreset (length t)) ins
              = LatticeM.Ok (LatticeM.embL (pr_lattice a), costs) /\
            LatticeM.mconnect_eos checked (tk_conn tk) (LatticeM.embL (pr_lattice a)) = LatticeM.Ok (Some (pr_eos a))) /\
         (forall dbg ovf L0,
            LatticePProofs.no_index_panic (LatticeP.prounds dbg ovf nl nr data L0 [(length t, ins)]))).
Proof.
  exact (match C01_e2e_facts with
    | conj Fs (conj Fg (conj Fp (conj Ffw (conj Ffx (conj Fsp (conj Gs (conj Gr (conj Gc Gl)))))))) =>
      tokenizer_end_to_end_machine Fs Fg Fp Ffw Ffx C01_e2e_rewrite_facts Fsp C01_e2e_layout_fact
        (proj1 C01_e2e_codec_facts) (proj1 (proj2 C01_e2e_codec_facts)) (proj2 (proj2 C01_e2e_codec_facts))
        the_cfg C01_facts_ok Gs Gr Gc Gl
    end).
Qed.
Print Assumptions C01_tokenizer_end_to_end_machine.

(* the partition is reported for the text it was computed for: results of a reused tokenizer belong to their own text
   (C08_session_delivers_own_paths, Model/TokResult.v) under the shapes of reset / resolve_best_path / swap_result read on
   this run; and the size the 65535-byte guard compares is a byte length (C08_reported_size_is_byte_length) *)
From SudachiVerif Require Model.TokResult.
Fact C01_fact_result_handover : TokResult.rcfg_ok TokResult.the_rcfg = true.
Proof. vm_compute. reflexivity. Qed.
Fact C01_fact_sizes_in_bytes :
  SudachiVerif.Generated.BufferFacts.resolve_arm_units = [("Str", "bytes"); ("Ref", "bytes"); ("Char", "bytes")]%string /\
  SudachiVerif.Generated.BufferFacts.commit_size_source = "returned_by_resolve_edits"%string.
Proof. vm_compute. split; reflexivity. Qed.
