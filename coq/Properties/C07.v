(* C07 — Text normalisation is the specified context-free function of the input.
   This file holds only the property theorems; each is closed by `exact` of a lemma proved in Proofs/NormalizeProofs.v.
   The Unicode oracle (lower, nfkc, qc_yes, upper) is universally quantified; the laws assumed of it are explicit
   hypotheses of the theorems that need them (and are swept over all scalar values by the harness on every run). *)
From Coq Require Import String List NArith.
From SudachiVerif Require Generated.NormalizeFacts.
From SudachiVerif Require Import Model.Normalize Proofs.NormalizeProofs.
Import ListNotations.
Local Open Scope nat_scope.

(* ---- facts re-read from the Rust source on every run ---- *)
(* replace_slow searches leftmost-longest (no `.earliest(true)`), like replace_fast *)
Fact C07_fact_slow_search_longest : Generated.NormalizeFacts.slow_search_earliest = false.
Proof. vm_compute. reflexivity. Qed.
Fact C07_fact_fast_search_longest : Generated.NormalizeFacts.fast_search_earliest = false.
Proof. vm_compute. reflexivity. Qed.
(* a character is lower-cased whenever to_lowercase changes it (not only when is_uppercase) — per character and for the path choice *)
Fact C07_fact_lowercase_guard : Generated.NormalizeFacts.lowercase_guard_is_uppercase = false.
Proof. vm_compute. reflexivity. Qed.
Fact C07_fact_path_guard : Generated.NormalizeFacts.path_guard_is_uppercase = false.
Proof. vm_compute. reflexivity. Qed.
(* the automaton and the two regular expressions are the ones the hand matchers were written for *)
Fact C07_fact_patterns :
  (Generated.NormalizeFacts.ac_match_kind, Generated.NormalizeFacts.fast_anchored, Generated.NormalizeFacts.slow_anchored,
   Generated.NormalizeFacts.psm_pattern_open, Generated.NormalizeFacts.psm_pattern_close,
   Generated.NormalizeFacts.yomi_pattern_format, Generated.NormalizeFacts.yomi_kanji_classes,
   Generated.NormalizeFacts.yomi_reading_classes)
  = ("LeftmostLongest", "No", "Yes", "[", "]{2,}", "{kanji}({lbr}{reading}{{1,{count}}}{rbr})",
     "CategoryType::KANJI", "CategoryType::HIRAGANA|CategoryType::KATAKANA")%string.
Proof. vm_compute. reflexivity. Qed.

(* ---- DefaultInputTextPlugin ---- *)

(* general path = specification, for every table with distinct non-empty keys, every exempt set, every text *)
Theorem C07_slow_eq_spec :
  forall (lower : cp -> text) (nfkc : text -> text) (qc_yes upper : cp -> bool) (tb : table) (ign : cp -> bool),
    table_wf tb = true ->
    (forall c, qc_yes c = true -> nfkc (lower c) = lower c) ->
    (forall c, head_law c (lower c) /\ head_law c (nfkc [c]) /\ head_law c (nfkc (lower c))) ->
    forall t, apply_edits t (slow_edits lower nfkc qc_yes upper tb ign t) = Some (normalize_spec lower nfkc tb ign t).
Proof. exact (slow_eq_spec C07_fact_slow_search_longest C07_fact_lowercase_guard). Qed.
Print Assumptions C07_slow_eq_spec.

(* optimised path = specification on every text on which it can be taken *)
Theorem C07_fast_eq_spec :
  forall (lower : cp -> text) (nfkc : text -> text) (qc_yes upper : cp -> bool) (tb : table) (ign : cp -> bool),
    table_wf tb = true ->
    (forall c, qc_yes c = true -> nfkc (lower c) = lower c) ->
    forall t, (forall c, In c t -> need_lower_text lower upper c = false /\ qc_yes c = true) ->
    apply_edits t (fast_edits tb t) = Some (normalize_spec lower nfkc tb ign t).
Proof. exact (fast_eq_spec C07_fact_path_guard). Qed.
Print Assumptions C07_fast_eq_spec.

(* the optimised and the general code path agree wherever rewrite_impl takes the optimised one *)
Theorem C07_fast_eq_slow :
  forall (lower : cp -> text) (nfkc : text -> text) (qc_yes upper : cp -> bool) (tb : table) (ign : cp -> bool),
    table_wf tb = true ->
    (forall c, qc_yes c = true -> nfkc (lower c) = lower c) ->
    (forall c, head_law c (lower c) /\ head_law c (nfkc [c]) /\ head_law c (nfkc (lower c))) ->
    forall (qc_text : bool) t,
      (qc_text = true -> forall c, In c t -> qc_yes c = true) ->
      takes_slow lower upper qc_text t = false ->
      apply_edits t (fast_edits tb t) = apply_edits t (slow_edits lower nfkc qc_yes upper tb ign t).
Proof. exact (fast_eq_slow C07_fact_slow_search_longest C07_fact_lowercase_guard C07_fact_path_guard). Qed.
Print Assumptions C07_fast_eq_slow.

(* headline: whatever path is chosen, the text used for lookup is normalize_spec of the input (never a panic) *)
Theorem C07_rewrite_eq_spec :
  forall (lower : cp -> text) (nfkc : text -> text) (qc_yes upper : cp -> bool) (tb : table) (ign : cp -> bool),
    table_wf tb = true ->
    (forall c, qc_yes c = true -> nfkc (lower c) = lower c) ->
    (forall c, head_law c (lower c) /\ head_law c (nfkc [c]) /\ head_law c (nfkc (lower c))) ->
    forall (qc_text : bool) t,
      (qc_text = true -> forall c, In c t -> qc_yes c = true) ->
      default_rewrite lower nfkc qc_yes upper tb ign qc_text t = Some (normalize_spec lower nfkc tb ign t).
Proof. exact (rewrite_eq_spec C07_fact_slow_search_longest C07_fact_lowercase_guard C07_fact_path_guard). Qed.
Print Assumptions C07_rewrite_eq_spec.

(* normalize_spec is the function of the property text: nothing for the empty text; where a table key starts, the longest
   such key is replaced by its value and the scan continues behind it; any other character is lower-cased and, unless
   exempt, NFKC-normalised (spec_char), on its own *)
Theorem C07_spec_is_property_text :
  forall (lower : cp -> text) (nfkc : text -> text) (tb : table) (ign : cp -> bool),
    table_wf tb = true ->
    normalize_spec lower nfkc tb ign [] = []
    /\ (forall t n v, longest_match tb t = Some (n, v) ->
          normalize_spec lower nfkc tb ign t = v ++ normalize_spec lower nfkc tb ign (skipn n t))
    /\ (forall c t, longest_match tb (c :: t) = None ->
          normalize_spec lower nfkc tb ign (c :: t) = spec_char lower nfkc ign c ++ normalize_spec lower nfkc tb ign t).
Proof. exact spec_unfold. Qed.
Print Assumptions C07_spec_is_property_text.

(* the key replaced at a position is the longest table key starting there *)
Theorem C07_longest_key :
  forall (tb : table) t n v, longest_match tb t = Some (n, v) ->
    (exists k, In (k, v) tb /\ is_prefix k t = true /\ n = length k)
    /\ (forall k' v', In (k', v') tb -> is_prefix k' t = true -> length k' <= n).
Proof. exact longest_match_is_longest_key. Qed.
Print Assumptions C07_longest_key.

(* context freedom: the normalisation of a text is the concatenation of the normalisations of its parts at every
   position where the left-to-right scan starts a new span *)
Theorem C07_context_free :
  forall (lower : cp -> text) (nfkc : text -> text) (tb : table) (ign : cp -> bool) t i,
    cut_point tb t i = true ->
    normalize_spec lower nfkc tb ign t
    = normalize_spec lower nfkc tb ign (firstn i t) ++ normalize_spec lower nfkc tb ign (skipn i t).
Proof. exact context_free. Qed.
Print Assumptions C07_context_free.

(* ... in particular a character that occurs in no key isolates what is left of it from what is right of it:
   how a span is rewritten never depends on unrelated characters elsewhere *)
Theorem C07_context_free_separator :
  forall (lower : cp -> text) (nfkc : text -> text) (tb : table) (ign : cp -> bool) a c b,
    table_wf tb = true -> in_no_key tb c ->
    normalize_spec lower nfkc tb ign (a ++ c :: b)
    = normalize_spec lower nfkc tb ign a ++ spec_char lower nfkc ign c ++ normalize_spec lower nfkc tb ign b.
Proof. exact separator. Qed.
Print Assumptions C07_context_free_separator.

(* ---- ProlongedSoundMarkPlugin ---- *)
Theorem C07_psm_spec :
  forall (mark : cp -> bool) (sym t : text), apply_edits t (psm_edits mark sym t) = Some (psm_spec mark sym t).
Proof. exact psm_eq_spec. Qed.
Print Assumptions C07_psm_spec.

(* exactly the described spans: each rewritten span is a run of >= 2 marks, not extendable to the right, replaced by the symbol *)
Theorem C07_psm_edits_sound :
  forall (mark : cp -> bool) (sym t : text) e, In e (psm_edits mark sym t) ->
    exists p n, e = mkE p (p + n) sym /\ 2 <= n /\ p + n <= length t
                /\ forallb mark (slice t p (p + n)) = true
                /\ match nth_error t (p + n) with Some c => mark c = false | None => True end.
Proof. exact psm_edits_sound. Qed.
Print Assumptions C07_psm_edits_sound.

(* ... nor to the left: it starts the text or follows a character that is not a mark (so the runs are maximal) *)
Theorem C07_psm_edits_left_maximal :
  forall (mark : cp -> bool) (sym t : text) e, In e (psm_edits mark sym t) ->
    e_start e = 0 \/ exists p, e_start e = S p /\ is_mark_at mark t p = false.
Proof. exact psm_edits_left_maximal. Qed.
Print Assumptions C07_psm_edits_left_maximal.

(* ... and every run of >= 2 marks met by the scan outside an earlier match is rewritten *)
Theorem C07_psm_complete :
  forall (mark : cp -> bool) (sym t : text) i,
    scan_cut (psm_act mark sym) 0 t i = true -> i < length t -> 2 <= run_len mark (skipn i t) ->
    In (mkE i (i + run_len mark (skipn i t)) sym) (psm_edits mark sym t).
Proof. exact psm_complete. Qed.
Print Assumptions C07_psm_complete.

(* ---- IgnoreYomiganaPlugin ---- *)
(* every removed span is  left bracket, 1..maxlen readings (the longest closed by a bracket), right bracket
   directly behind a kanji; the replacement is empty and the kanji stays *)
Theorem C07_yomi_spec :
  forall (isK isR isL isB : cp -> bool) (maxlen : nat) (t : text) e,
    In e (yomi_edits isK isR isL isB maxlen t) ->
    exists p k c l rest,
      e = mkE (S p) (p + k + 3) [] /\ skipn p t = c :: l :: rest /\ isK c = true /\ isL l = true
      /\ 1 <= k /\ k <= maxlen /\ reading_ok isR isB rest k
      /\ (forall k', k < k' -> k' <= maxlen -> ~ reading_ok isR isB rest k').
Proof. exact yomi_edits_sound. Qed.
Print Assumptions C07_yomi_spec.

Theorem C07_yomi_complete :
  forall (isK isR isL isB : cp -> bool) (maxlen : nat) (t : text) p c l rest k',
    scan_cut (yomi_act isK isR isL isB maxlen) 0 t p = true ->
    skipn p t = c :: l :: rest -> isK c = true -> isL l = true ->
    1 <= k' -> k' <= maxlen -> reading_ok isR isB rest k' ->
    exists k, k' <= k /\ In (mkE (S p) (p + k + 3) []) (yomi_edits isK isR isL isB maxlen t).
Proof. exact yomi_complete. Qed.
Print Assumptions C07_yomi_complete.

(* ---- plugin_edits_ok: all three plugins hand resolve_edits sorted, non-overlapping, in-range edits,
        and such edit lists never make resolve_edits panic ---- *)
Theorem C07_plugin_edits_ok_default :
  forall (lower : cp -> text) (nfkc : text -> text) (qc_yes upper : cp -> bool) (tb : table) (ign : cp -> bool),
    table_wf tb = true ->
    forall (qc_text : bool) t, edits_ok t (default_edits lower nfkc qc_yes upper tb ign qc_text t) = true.
Proof. exact (default_edits_ok C07_fact_slow_search_longest). Qed.
Print Assumptions C07_plugin_edits_ok_default.

Theorem C07_plugin_edits_ok_psm :
  forall (mark : cp -> bool) (sym t : text), edits_ok t (psm_edits mark sym t) = true.
Proof. exact psm_edits_ok. Qed.
Print Assumptions C07_plugin_edits_ok_psm.

Theorem C07_plugin_edits_ok_yomi :
  forall (isK isR isL isB : cp -> bool) (maxlen : nat) (t : text), edits_ok t (yomi_edits isK isR isL isB maxlen t) = true.
Proof. exact yomi_edits_ok. Qed.
Print Assumptions C07_plugin_edits_ok_yomi.

Theorem C07_edits_ok_never_panics :
  forall (t : text) es s, edits_ok_from s (length t) es = true -> exists r, resolve t s es = Some r.
Proof. exact edits_ok_resolve. Qed.
Print Assumptions C07_edits_ok_never_panics.

(* ---- rewrite.def: from the TEXT the user writes to the table and exempt set of the theorems above
        (Model/RewriteDefText.v = DefaultInputTextPlugin::read_rewrite_lists) ---- *)
From SudachiVerif Require Import Model.RewriteDefText Proofs.RewriteDefTextProofs.

(* an accepted text contains no malformed line; the exempt set is exactly the one-column lines and the table exactly the
   two-column lines, both in file order (a line = what is left after trim; skipped when empty or starting with '#';
   columns = split_whitespace; '#' anywhere else is an ordinary character); and the table has distinct non-empty keys *)
Theorem C07_rewrite_def_spec :
  forall (t : text) ign tb, read_rewrite_def t = RdOk ign tb ->
    forallb line_ok (map classify (lines t)) = true
    /\ ign = ign_of (map classify (lines t))
    /\ tb = rules_of (map classify (lines t))
    /\ table_wf tb = true.
Proof. exact read_ok_spec. Qed.
Print Assumptions C07_rewrite_def_spec.

(* errors enumerated: the reported line is the first offending one, the lines before it were read without error, and
   the kind is: one column of more than one character (ENotChar), three or more columns (ECols), or a two-column line
   whose key an earlier two-column line already defined (EDup) *)
Theorem C07_rewrite_def_errors :
  forall (t : text) e j, read_rewrite_def t = RdErr e j ->
    exists raw ign1 tb1, nth_error (lines t) j = Some raw
      /\ read_lines 0 [] [] (firstn j (lines t)) = RdOk ign1 tb1
      /\ match e with
         | ENotChar => classify raw = LBadChar
         | ECols => classify raw = LBadCols
         | EDup => exists k v, classify raw = LRule k v /\ has_key tb1 k = true
         end.
Proof. exact read_err_spec. Qed.
Print Assumptions C07_rewrite_def_errors.

(* ... and nothing else is rejected *)
Theorem C07_rewrite_def_accepts :
  forall (t : text),
    forallb line_ok (map classify (lines t)) = true -> keys_distinct (rules_of (map classify (lines t))) = true ->
    exists ign tb, read_rewrite_def t = RdOk ign tb.
Proof. exact read_total. Qed.
Print Assumptions C07_rewrite_def_accepts.

(* the headline theorem with the rewrite-table hypothesis produced from the file text *)
Theorem C07_rewrite_def_normalises :
  forall (lower : cp -> text) (nfkc : text -> text) (qc_yes upper : cp -> bool) (deftext : text) ign tb,
    read_rewrite_def deftext = RdOk ign tb ->
    (forall c, qc_yes c = true -> nfkc (lower c) = lower c) ->
    (forall c, head_law c (lower c) /\ head_law c (nfkc [c]) /\ head_law c (nfkc (lower c))) ->
    forall (qc_text : bool) t,
      (qc_text = true -> forall c, In c t -> qc_yes c = true) ->
      default_rewrite lower nfkc qc_yes upper tb (mem_n ign) qc_text t
      = Some (normalize_spec lower nfkc tb (mem_n ign) t).
Proof. exact (read_then_rewrite C07_fact_slow_search_longest C07_fact_lowercase_guard C07_fact_path_guard). Qed.
Print Assumptions C07_rewrite_def_normalises.

(* ==================================================================================================================
   C07 composed with C08 / C01 (Proofs/NormalizeBuffer.v).
   Model/Buffer.v (C08, C01) proves the offset-map invariant and the partition theorems for buffer states reachable by
   batches of BYTE-level edits satisfying `Buffer.edits_ok` (sorted, non-overlapping, in range, on character boundaries)
   with UTF-8 replacement strings (`PipelineFull.ReachU`).  Below: the code-point-level edit lists of the three plugins,
   translated to byte offsets of the UTF-8 encoding `enc t`, ARE such batches; commit on them yields `enc` of the
   specified text; hence every stack of the three plugins, in any order and number, leads from `start_build (enc t0)` to
   a ReachU state whose text is `enc` of the composition of the per-plugin specifications.
   Names of Model/Buffer.v are written qualified (this file imports Model/Normalize.v). *)
From Coq Require Import ZArith.
From SudachiVerif Require Model.Buffer Proofs.BufferProofs Proofs.PipelineFull Model.Lattice Proofs.PipelineProofs Model.Rewrite Model.Split.
From SudachiVerif Require Import Proofs.NormalizeBuffer.

(* the constants of buffer/mod.rs and edit.rs re-read from the source: index choices of add_replace, sentinels, ... *)
Fact C07_fact_buffer_cfg : Buffer.cfg_ok Buffer.the_cfg = true.
Proof. vm_compute. reflexivity. Qed.
(* both length guards are `>` comparisons against a limit below 2^64 (needed only for the plain-number form of the limits) *)
Fact C07_fact_buffer_guards :
  Buffer.c_resolve_cmp Buffer.the_cfg = ">"%string /\ Buffer.c_commit_cmp Buffer.the_cfg = ">"%string
  /\ (Z.of_N (Buffer.c_commit_limit Buffer.the_cfg) < 18446744073709551616)%Z.
Proof. vm_compute. repeat split; reflexivity. Qed.

(* (1) the translation: code-point index i -> byte offset of the encoded prefix; replacement -> its encoding *)
Theorem C07_translation_def :
  forall (t : text) (e : edit),
    tr_edit t e = Buffer.mkE (length (enc (firstn (e_start e) t))) (length (enc (firstn (e_end e) t))) (enc (e_repl e)).
Proof. exact (fun t e => eq_refl). Qed.
Print Assumptions C07_translation_def.

(* the UTF-8 encoding is injective: the code-point view of a buffer text is unique *)
Theorem C07_enc_injective : forall a b : text, enc a = enc b -> a = b.
Proof. exact enc_inj. Qed.
Print Assumptions C07_enc_injective.

(* (2) generic: a code-point edit list that is sorted / non-overlapping / in range translates to a batch satisfying
   Buffer.edits_ok over the encoded text, with UTF-8 replacement strings *)
Theorem C07_translated_edits_ok :
  forall (t : text) es, edits_ok t es = true ->
    Buffer.edits_ok (enc t) (tr_edits t es) = true /\ PipelineFull.utf8_edits (tr_edits t es).
Proof. exact (fun t es H => conj (tr_edits_ok t es H) (tr_edits_utf8 t es)). Qed.
Print Assumptions C07_translated_edits_ok.

(* (2) for the three plugins (plugin = P_default .. | P_psm .. | P_yomi ..; plugin_wf = table with distinct non-empty keys
   + the oracle laws, for P_default; nothing for the other two) *)
Theorem C07_plugin_edits_translate_ok :
  forall (p : plugin) (t : text), plugin_wf p ->
    Buffer.edits_ok (enc t) (tr_edits t (plugin_edits p t)) = true /\ PipelineFull.utf8_edits (tr_edits t (plugin_edits p t)).
Proof. exact (plugin_edits_translate_ok C07_fact_slow_search_longest C07_fact_lowercase_guard C07_fact_path_guard). Qed.
Print Assumptions C07_plugin_edits_translate_ok.

(* (3) commit on a translated batch: whenever it answers Ok, the new text is the encoding of apply_edits' result and the
   original is untouched; and it does answer Ok (no panic, no Err) when the two length guards stay quiet *)
Theorem C07_commit_translated :
  forall cfg, Buffer.cfg_ok cfg = true ->
  forall (t : text) (s : Buffer.buf) es r,
    Buffer.cur s = enc t -> length (Buffer.m2o s) = length (Buffer.cur s) + 1 -> apply_edits t es = Some r ->
    (forall s', Buffer.commit cfg s (tr_edits t es) = Buffer.Ok s' -> Buffer.cur s' = enc r /\ Buffer.orig s' = Buffer.orig s)
    /\ (within_from cfg t es (Z.of_nat (length (enc t))) = true -> commit_within cfg r = true ->
        exists s', Buffer.commit cfg s (tr_edits t es) = Buffer.Ok s').
Proof. exact tr_commit. Qed.
Print Assumptions C07_commit_translated.

(* one plugin on a reachable buffer = one ReachU step, and the text afterwards is the encoding of the plugin's specification *)
Theorem C07_plugin_step_reaches :
  forall cfg, Buffer.cfg_ok cfg = true ->
  forall (t0 : text) (s : Buffer.buf) (t : text) (p : plugin) (s' : Buffer.buf),
    PipelineFull.ReachU cfg (enc t0) s -> Buffer.cur s = enc t -> plugin_wf p -> (t <> [] -> plugin_spec p t <> []) ->
    Buffer.commit cfg s (tr_edits t (plugin_edits p t)) = Buffer.Ok s' ->
    PipelineFull.ReachU cfg (enc t0) s' /\ Buffer.cur s' = enc (plugin_spec p t).
Proof. exact (plugin_step C07_fact_slow_search_longest C07_fact_lowercase_guard C07_fact_path_guard). Qed.
Print Assumptions C07_plugin_step_reaches.

(* (4) EVERY run of EVERY stack of the three plugins (any order, any number) from start_build (enc t0):
   the buffer is ReachU-reachable and its text is the encoding of the composition of the per-plugin specifications.
   stack_run = each plugin reads the buffer's text as code points (cur s = enc t) and its translated edits are committed;
   stack_nonempty = no plugin empties a non-empty text (Buffer.v's reachability excludes emptied texts) *)
Theorem C07_plugin_stack_reaches :
  forall cfg, Buffer.cfg_ok cfg = true ->
  forall (ps : list plugin) (t0 : text) (s0 s : Buffer.buf),
    Forall plugin_wf ps -> stack_nonempty ps t0 ->
    Buffer.start_build cfg (enc t0) = Buffer.Ok s0 -> stack_run cfg ps s0 s ->
    PipelineFull.ReachU cfg (enc t0) s /\ Buffer.cur s = enc (stack_spec ps t0).
Proof. exact (plugin_stack_reaches C07_fact_slow_search_longest C07_fact_lowercase_guard C07_fact_path_guard). Qed.
Print Assumptions C07_plugin_stack_reaches.

(* ... and within the length limits the stack does run through (no panic in resolve_edits, no InputTooLong):
   stack_within = per plugin, the running length inside resolve_edits never trips its guard (within_from) and the
   produced text passes commit's guard (commit_within); MAX_LENGTH is the hypothesis start_build .. = Ok *)
Theorem C07_plugin_stack_runs :
  forall cfg, Buffer.cfg_ok cfg = true ->
  forall (ps : list plugin) (t0 : text) (s0 : Buffer.buf),
    Forall plugin_wf ps -> stack_nonempty ps t0 -> stack_within cfg ps t0 ->
    Buffer.start_build cfg (enc t0) = Buffer.Ok s0 -> exists s, stack_run cfg ps s0 s.
Proof. exact (plugin_stack_runs C07_fact_slow_search_longest C07_fact_lowercase_guard C07_fact_path_guard). Qed.
Print Assumptions C07_plugin_stack_runs.

(* the same for the constants of the code, limits in plain numbers (stack_fits: before each plugin, bytes of the text +
   bytes the plugin inserts <= REALLY_MAX_LENGTH, and bytes of the text it produces <= REALLY_MAX_LENGTH), with C08's
   invariant as part of the conclusion *)
Theorem C07_plugin_stack_total :
  forall (ps : list plugin) (t0 : text) (s0 : Buffer.buf),
    Forall plugin_wf ps -> stack_nonempty ps t0 -> stack_fits Buffer.the_cfg ps t0 ->
    Buffer.start_build Buffer.the_cfg (enc t0) = Buffer.Ok s0 ->
    exists s, stack_run Buffer.the_cfg ps s0 s /\ PipelineFull.ReachU Buffer.the_cfg (enc t0) s
              /\ Buffer.cur s = enc (stack_spec ps t0) /\ BufferProofs.InvPos (enc t0) s.
Proof.
  exact (plugin_stack_total C07_fact_slow_search_longest C07_fact_lowercase_guard C07_fact_path_guard Buffer.the_cfg
           C07_fact_buffer_cfg (proj1 C07_fact_buffer_guards) (proj1 (proj2 C07_fact_buffer_guards)) (proj2 (proj2 C07_fact_buffer_guards))).
Qed.
Print Assumptions C07_plugin_stack_total.

(* C08 for the real plugin stacks: offset map of the right length, start -> start, end -> end, monotone, boundaries ->
   boundaries — without a hypothetical edits_ok *)
Theorem C07_plugin_stack_offset_map :
  forall cfg, Buffer.cfg_ok cfg = true ->
  forall (ps : list plugin) (t0 : text) (s0 s : Buffer.buf),
    Forall plugin_wf ps -> stack_nonempty ps t0 ->
    Buffer.start_build cfg (enc t0) = Buffer.Ok s0 -> stack_run cfg ps s0 s ->
    BufferProofs.InvPos (enc t0) s.
Proof. exact (plugin_stack_offset_map C07_fact_slow_search_longest C07_fact_lowercase_guard C07_fact_path_guard). Qed.
Print Assumptions C07_plugin_stack_offset_map.

(* C01 for the real plugin stacks: PipelineFull.pipeline_partitions_original with `Reach` and `cur s = enc t` discharged;
   the code-point view of the rewritten text is the SPECIFIED text stack_spec ps t0 *)
Theorem C07_plugin_stack_pipeline_partitions :
  forall cfg, Buffer.cfg_ok cfg = true ->
  forall (conn : N -> N -> Z) (ps : list plugin) (t0 : text) (s0 s : Buffer.buf),
    Forall plugin_wf ps -> stack_nonempty ps t0 ->
    Buffer.start_build cfg (enc t0) = Buffer.Ok s0 -> stack_run cfg ps s0 s ->
    forall ns r i c,
      Lattice.nodes_ok (PipelineProofs.nchars (Buffer.cur s)) ns -> (0 < PipelineProofs.nchars (Buffer.cur s))%nat ->
      Lattice.connect_eos conn (Lattice.insert_all conn (Lattice.reset (PipelineProofs.nchars (Buffer.cur s))) ns) = Some (r, i, c) ->
      exists es p,
        Lattice.top_path conn (Lattice.insert_all conn (Lattice.reset (PipelineProofs.nchars (Buffer.cur s))) ns) = Some es /\
        map Lattice.enode es = map Some p /\ Lattice.path_cost conn p = c /\
        forall pr pls q sps hw key ua ub m,
          Forall2 (PipelineFull.rnode_of (Buffer.cur s)) p pr ->
          Rewrite.run_plugins pls pr = Some (Rewrite.Ok q) ->
          Forall2 PipelineFull.snode_of q sps ->
          Split.split_facts_ok = true -> PipelineFull.mode_wf hw key (stack_spec ps t0) ua ub m sps ->
          exists final,
            Split.tokenize_mode hw (stack_spec ps t0) ua ub m sps = Some final /\
            let ranges := map (Buffer.map_range (Buffer.m2o s)) (map PipelineFull.sbytes final) in
            Buffer.partition_b (enc t0) ranges = true /\
            concat (map (Buffer.byte_slice (enc t0)) ranges) = enc t0 /\
            (forall n, In n final ->
               Buffer.orig_slice s (fst (PipelineFull.sbytes n)) (snd (PipelineFull.sbytes n))
               = Some (Buffer.byte_slice (enc t0) (Buffer.map_range (Buffer.m2o s) (PipelineFull.sbytes n)))).
Proof. exact (plugin_stack_pipeline_partitions C07_fact_slow_search_longest C07_fact_lowercase_guard C07_fact_path_guard). Qed.
Print Assumptions C07_plugin_stack_pipeline_partitions.

(* ==================================================================================================================
   Stacks with several instances of one plugin class.  C07_plugin_stack_reaches above speaks about ANY list of plugin
   instances; what the list is, is a fact about the loader: every configured entry is instantiated, in order (no
   de-duplication by class name), and the tokenizer applies the instances in that order. *)
From SudachiVerif Require Generated.PluginLoaderFacts.

Fact C07_fact_every_configured_instance_is_applied :
  (Generated.PluginLoaderFacts.load_loop_body, Generated.PluginLoaderFacts.load_plugin_effects,
   Generated.PluginLoaderFacts.load_plugin_push_is_last, Generated.PluginLoaderFacts.plugins_accessor,
   Generated.PluginLoaderFacts.freeze_keeps_plugins, Generated.PluginLoaderFacts.input_text_configurations,
   Generated.PluginLoaderFacts.dictionary_input_text_plugins, Generated.PluginLoaderFacts.rewrite_input_iterates,
   Generated.PluginLoaderFacts.rewrite_input_step)
  = ("letname=extract_plugin_class(cfg)?;self.load_plugin(name,cfg)?;", ["push"], true, "&self.plugins", true,
     "&cfg.input_text_plugins", "self.plugins.input_text.plugins()", "self.dictionary.input_text_plugins()",
     "p.rewrite(&mutself.input)?;")%string.
Proof. vm_compute. reflexivity. Qed.

(* the specified text after a configured list = the fold (composition in configured order) of the per-instance
   specifications; two instances of one class are two elements of the list *)
Theorem C07_plugin_stack_spec_is_fold :
  forall (ps : list plugin) (t : text), stack_spec ps t = fold_left (fun cur p => plugin_spec p cur) ps t.
Proof. exact stack_spec_is_fold. Qed.
Print Assumptions C07_plugin_stack_spec_is_fold.

Theorem C07_plugin_stack_spec_composes :
  forall (ps qs : list plugin) (t : text), stack_spec (ps ++ qs) t = stack_spec qs (stack_spec ps t).
Proof. exact stack_spec_app. Qed.
Print Assumptions C07_plugin_stack_spec_composes.
