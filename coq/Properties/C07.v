(* C07 — placeholder while the proofs are being written *)
From SudachiVerif Require Import Model.Normalize.
