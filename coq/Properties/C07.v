(* C07 — Text normalisation is the specified context-free function of the input.
   This file holds only the property theorems; each is closed by `exact` of a lemma proved in Proofs/NormalizeProofs.v.
   The Unicode oracle (lower, nfkc, qc_yes, upper) is universally quantified; the laws assumed of it are explicit
   hypotheses of the theorems that need them (and are swept over all scalar values by the harness on every run). *)
From Coq Require Import String List NArith.
From SudachiVerif Require Generated.NormalizeFacts.
From SudachiVerif Require Import Model.Normalize Proofs.NormalizeProofs.
Import ListNotations.
Local Open Scope nat_scope.

(* ---- facts re-read from the Rust source on every run ---- *)
(* replace_slow searches leftmost-longest (no `.earliest(true)`), like replace_fast *)
Fact C07_fact_slow_search_longest : Generated.NormalizeFacts.slow_search_earliest = false.
Proof. vm_compute. reflexivity. Qed.
Fact C07_fact_fast_search_longest : Generated.NormalizeFacts.fast_search_earliest = false.
Proof. vm_compute. reflexivity. Qed.
(* a character is lower-cased whenever to_lowercase changes it (not only when is_uppercase) — per character and for the path choice *)
Fact C07_fact_lowercase_guard : Generated.NormalizeFacts.lowercase_guard_is_uppercase = false.
Proof. vm_compute. reflexivity. Qed.
Fact C07_fact_path_guard : Generated.NormalizeFacts.path_guard_is_uppercase = false.
Proof. vm_compute. reflexivity. Qed.
(* the automaton and the two regular expressions are the ones the hand matchers were written for *)
Fact C07_fact_patterns :
  (Generated.NormalizeFacts.ac_match_kind, Generated.NormalizeFacts.fast_anchored, Generated.NormalizeFacts.slow_anchored,
   Generated.NormalizeFacts.psm_pattern_open, Generated.NormalizeFacts.psm_pattern_close,
   Generated.NormalizeFacts.yomi_pattern_format, Generated.NormalizeFacts.yomi_kanji_classes,
   Generated.NormalizeFacts.yomi_reading_classes)
  = ("LeftmostLongest", "No", "Yes", "[", "]{2,}", "{kanji}({lbr}{reading}{{1,{count}}}{rbr})",
     "CategoryType::KANJI", "CategoryType::HIRAGANA|CategoryType::KATAKANA")%string.
Proof. vm_compute. reflexivity. Qed.

(* ---- DefaultInputTextPlugin ---- *)

(* general path = specification, for every table with distinct non-empty keys, every exempt set, every text *)
Theorem C07_slow_eq_spec :
  forall (lower : cp -> text) (nfkc : text -> text) (qc_yes upper : cp -> bool) (tb : table) (ign : cp -> bool),
    table_wf tb = true ->
    (forall c, qc_yes c = true -> nfkc (lower c) = lower c) ->
    (forall c, head_law c (lower c) /\ head_law c (nfkc [c]) /\ head_law c (nfkc (lower c))) ->
    forall t, apply_edits t (slow_edits lower nfkc qc_yes upper tb ign t) = Some (normalize_spec lower nfkc tb ign t).
Proof. exact (slow_eq_spec C07_fact_slow_search_longest C07_fact_lowercase_guard). Qed.
Print Assumptions C07_slow_eq_spec.

(* optimised path = specification on every text on which it can be taken *)
Theorem C07_fast_eq_spec :
  forall (lower : cp -> text) (nfkc : text -> text) (qc_yes upper : cp -> bool) (tb : table) (ign : cp -> bool),
    table_wf tb = true ->
    (forall c, qc_yes c = true -> nfkc (lower c) = lower c) ->
    forall t, (forall c, In c t -> need_lower_text lower upper c = false /\ qc_yes c = true) ->
    apply_edits t (fast_edits tb t) = Some (normalize_spec lower nfkc tb ign t).
Proof. exact (fast_eq_spec C07_fact_path_guard). Qed.
Print Assumptions C07_fast_eq_spec.

(* the optimised and the general code path agree wherever rewrite_impl takes the optimised one *)
Theorem C07_fast_eq_slow :
  forall (lower : cp -> text) (nfkc : text -> text) (qc_yes upper : cp -> bool) (tb : table) (ign : cp -> bool),
    table_wf tb = true ->
    (forall c, qc_yes c = true -> nfkc (lower c) = lower c) ->
    (forall c, head_law c (lower c) /\ head_law c (nfkc [c]) /\ head_law c (nfkc (lower c))) ->
    forall (qc_text : bool) t,
      (qc_text = true -> forall c, In c t -> qc_yes c = true) ->
      takes_slow lower upper qc_text t = false ->
      apply_edits t (fast_edits tb t) = apply_edits t (slow_edits lower nfkc qc_yes upper tb ign t).
Proof. exact (fast_eq_slow C07_fact_slow_search_longest C07_fact_lowercase_guard C07_fact_path_guard). Qed.
Print Assumptions C07_fast_eq_slow.

(* headline: whatever path is chosen, the text used for lookup is normalize_spec of the input (never a panic) *)
Theorem C07_rewrite_eq_spec :
  forall (lower : cp -> text) (nfkc : text -> text) (qc_yes upper : cp -> bool) (tb : table) (ign : cp -> bool),
    table_wf tb = true ->
    (forall c, qc_yes c = true -> nfkc (lower c) = lower c) ->
    (forall c, head_law c (lower c) /\ head_law c (nfkc [c]) /\ head_law c (nfkc (lower c))) ->
    forall (qc_text : bool) t,
      (qc_text = true -> forall c, In c t -> qc_yes c = true) ->
      default_rewrite lower nfkc qc_yes upper tb ign qc_text t = Some (normalize_spec lower nfkc tb ign t).
Proof. exact (rewrite_eq_spec C07_fact_slow_search_longest C07_fact_lowercase_guard C07_fact_path_guard). Qed.
Print Assumptions C07_rewrite_eq_spec.

(* normalize_spec is the function of the property text: nothing for the empty text; where a table key starts, the longest
   such key is replaced by its value and the scan continues behind it; any other character is lower-cased and, unless
   exempt, NFKC-normalised (spec_char), on its own *)
Theorem C07_spec_is_property_text :
  forall (lower : cp -> text) (nfkc : text -> text) (tb : table) (ign : cp -> bool),
    table_wf tb = true ->
    normalize_spec lower nfkc tb ign [] = []
    /\ (forall t n v, longest_match tb t = Some (n, v) ->
          normalize_spec lower nfkc tb ign t = v ++ normalize_spec lower nfkc tb ign (skipn n t))
    /\ (forall c t, longest_match tb (c :: t) = None ->
          normalize_spec lower nfkc tb ign (c :: t) = spec_char lower nfkc ign c ++ normalize_spec lower nfkc tb ign t).
Proof. exact spec_unfold. Qed.
Print Assumptions C07_spec_is_property_text.

(* the key replaced at a position is the longest table key starting there *)
Theorem C07_longest_key :
  forall (tb : table) t n v, longest_match tb t = Some (n, v) ->
    (exists k, In (k, v) tb /\ is_prefix k t = true /\ n = length k)
    /\ (forall k' v', In (k', v') tb -> is_prefix k' t = true -> length k' <= n).
Proof. exact longest_match_is_longest_key. Qed.
Print Assumptions C07_longest_key.

(* context freedom: the normalisation of a text is the concatenation of the normalisations of its parts at every
   position where the left-to-right scan starts a new span *)
Theorem C07_context_free :
  forall (lower : cp -> text) (nfkc : text -> text) (tb : table) (ign : cp -> bool) t i,
    cut_point tb t i = true ->
    normalize_spec lower nfkc tb ign t
    = normalize_spec lower nfkc tb ign (firstn i t) ++ normalize_spec lower nfkc tb ign (skipn i t).
Proof. exact context_free. Qed.
Print Assumptions C07_context_free.

(* ... in particular a character that occurs in no key isolates what is left of it from what is right of it:
   how a span is rewritten never depends on unrelated characters elsewhere *)
Theorem C07_context_free_separator :
  forall (lower : cp -> text) (nfkc : text -> text) (tb : table) (ign : cp -> bool) a c b,
    table_wf tb = true -> in_no_key tb c ->
    normalize_spec lower nfkc tb ign (a ++ c :: b)
    = normalize_spec lower nfkc tb ign a ++ spec_char lower nfkc ign c ++ normalize_spec lower nfkc tb ign b.
Proof. exact separator. Qed.
Print Assumptions C07_context_free_separator.

(* ---- ProlongedSoundMarkPlugin ---- *)
Theorem C07_psm_spec :
  forall (mark : cp -> bool) (sym t : text), apply_edits t (psm_edits mark sym t) = Some (psm_spec mark sym t).
Proof. exact psm_eq_spec. Qed.
Print Assumptions C07_psm_spec.

(* exactly the described spans: each rewritten span is a run of >= 2 marks, not extendable to the right, replaced by the symbol *)
Theorem C07_psm_edits_sound :
  forall (mark : cp -> bool) (sym t : text) e, In e (psm_edits mark sym t) ->
    exists p n, e = mkE p (p + n) sym /\ 2 <= n /\ p + n <= length t
                /\ forallb mark (slice t p (p + n)) = true
                /\ match nth_error t (p + n) with Some c => mark c = false | None => True end.
Proof. exact psm_edits_sound. Qed.
Print Assumptions C07_psm_edits_sound.

(* ... nor to the left: it starts the text or follows a character that is not a mark (so the runs are maximal) *)
Theorem C07_psm_edits_left_maximal :
  forall (mark : cp -> bool) (sym t : text) e, In e (psm_edits mark sym t) ->
    e_start e = 0 \/ exists p, e_start e = S p /\ is_mark_at mark t p = false.
Proof. exact psm_edits_left_maximal. Qed.
Print Assumptions C07_psm_edits_left_maximal.

(* ... and every run of >= 2 marks met by the scan outside an earlier match is rewritten *)
Theorem C07_psm_complete :
  forall (mark : cp -> bool) (sym t : text) i,
    scan_cut (psm_act mark sym) 0 t i = true -> i < length t -> 2 <= run_len mark (skipn i t) ->
    In (mkE i (i + run_len mark (skipn i t)) sym) (psm_edits mark sym t).
Proof. exact psm_complete. Qed.
Print Assumptions C07_psm_complete.

(* ---- IgnoreYomiganaPlugin ---- *)
(* every removed span is  left bracket, 1..maxlen readings (the longest closed by a bracket), right bracket
   directly behind a kanji; the replacement is empty and the kanji stays *)
Theorem C07_yomi_spec :
  forall (isK isR isL isB : cp -> bool) (maxlen : nat) (t : text) e,
    In e (yomi_edits isK isR isL isB maxlen t) ->
    exists p k c l rest,
      e = mkE (S p) (p + k + 3) [] /\ skipn p t = c :: l :: rest /\ isK c = true /\ isL l = true
      /\ 1 <= k /\ k <= maxlen /\ reading_ok isR isB rest k
      /\ (forall k', k < k' -> k' <= maxlen -> ~ reading_ok isR isB rest k').
Proof. exact yomi_edits_sound. Qed.
Print Assumptions C07_yomi_spec.

Theorem C07_yomi_complete :
  forall (isK isR isL isB : cp -> bool) (maxlen : nat) (t : text) p c l rest k',
    scan_cut (yomi_act isK isR isL isB maxlen) 0 t p = true ->
    skipn p t = c :: l :: rest -> isK c = true -> isL l = true ->
    1 <= k' -> k' <= maxlen -> reading_ok isR isB rest k' ->
    exists k, k' <= k /\ In (mkE (S p) (p + k + 3) []) (yomi_edits isK isR isL isB maxlen t).
Proof. exact yomi_complete. Qed.
Print Assumptions C07_yomi_complete.

(* ---- plugin_edits_ok: all three plugins hand resolve_edits sorted, non-overlapping, in-range edits,
        and such edit lists never make resolve_edits panic ---- *)
Theorem C07_plugin_edits_ok_default :
  forall (lower : cp -> text) (nfkc : text -> text) (qc_yes upper : cp -> bool) (tb : table) (ign : cp -> bool),
    table_wf tb = true ->
    forall (qc_text : bool) t, edits_ok t (default_edits lower nfkc qc_yes upper tb ign qc_text t) = true.
Proof. exact (default_edits_ok C07_fact_slow_search_longest). Qed.
Print Assumptions C07_plugin_edits_ok_default.

Theorem C07_plugin_edits_ok_psm :
  forall (mark : cp -> bool) (sym t : text), edits_ok t (psm_edits mark sym t) = true.
Proof. exact psm_edits_ok. Qed.
Print Assumptions C07_plugin_edits_ok_psm.

Theorem C07_plugin_edits_ok_yomi :
  forall (isK isR isL isB : cp -> bool) (maxlen : nat) (t : text), edits_ok t (yomi_edits isK isR isL isB maxlen t) = true.
Proof. exact yomi_edits_ok. Qed.
Print Assumptions C07_plugin_edits_ok_yomi.

Theorem C07_edits_ok_never_panics :
  forall (t : text) es s, edits_ok_from s (length t) es = true -> exists r, resolve t s es = Some r.
Proof. exact edits_ok_resolve. Qed.
Print Assumptions C07_edits_ok_never_panics.
