(* C16 — Sentence splitting partitions the text and breaks only after terminators.
   This file holds only the property theorems (each closed by `exact` of a lemma of Proofs/SentenceProofs.v) and the
   decidable obligations on the facts regenerated from the source (Generated/SentenceFacts.v).
   Vocabulary (tiles, chain, range_of, good_det, is_terminator, ends_with_terminator, word_across, in_lookback,
   agree_multichar): Model/SentenceSpec.v.  Model (get_eos, split, split_with, accept, candidates, plevel): Model/Sentence.v. *)
From Coq Require Import String.
From Coq Require Import List NArith ZArith Bool Arith.
From SudachiVerif Require Import Model.Sentence Model.SentenceSpec Proofs.SentenceProofs Proofs.SentenceRegexProofs.
Import ListNotations.

(* ===================== obligations on the regenerated facts ===================== *)
(* the characters PROHIBITED_BOS may append after a match (closing brackets, commas, terminators) never open a bracket *)
Fact prohibited_chars_do_not_open : prohibited_not_open_b = true.
Proof. vm_compute. reflexivity. Qed.

(* repetition bounds and tag alternatives keep every breaker match non-empty and the hand matcher exact:
   {n,} with n >= 1, tags non-empty and none a prefix of another *)
Definition bounds_ok_b : bool :=
  (1 <=? F.CDOTS_MIN) && (1 <=? F.BR_MIN)
  && forallb (fun w => match w with [] => false | _ => true end) F.BR_TAGS
  && forallb (fun w => forallb (fun v => list_eq_or_not_prefix w v) F.BR_TAGS) F.BR_TAGS
  && (F.checker_initial_bos =? 0)%N.
Fact bounds_as_modelled : bounds_ok_b = true.
Proof. vm_compute. reflexivity. Qed.

(* the regex shapes and the control flow the hand matchers / the model were written for *)
Open Scope string_scope.
(* the regex literals themselves are no longer compared as strings: they are parsed into ASTs and the hand matchers are
   proved equal to the generic matcher on them (obligation patterns_parse_as_expected, theorem 9 below) *)

(* the only pattern that runs on the backtracking VM has no step limit (otherwise get_eos fails on long windows) *)
Fact fancy_patterns_unlimited : F.fancy_backtrack_limits = [ ("SENTENCE_BREAKER", "usize::MAX") ].
Proof. vm_compute. reflexivity. Qed.

Fact get_eos_head_as_modelled : F.get_eos_head =
  "if input.is_empty() { return Ok(0); } let s: String = input.chars().take(self.limit).collect(); let input_exceeds_limit = s.len() < input.len(); lazy_static!{..}".
Proof. vm_compute. reflexivity. Qed.

(* the candidate loop of get_eos as its ordered steps (each recognised in its equivalent spellings: comparison from either
   side, if-let / map_or for the optional checker; an extra, missing or reordered step is an extraction failure), and the
   provisional negative answers: what Model.Sentence.accept / get_eos implement *)
Fact get_eos_steps_as_modelled : F.get_eos_steps =
  [ "veto: parenthesis_level(&s[..eos])? > 0 => continue";
    "extend: eos < s.len() => eos += prohibited_bos(&s[eos..])?";
    "veto: ITEMIZE_HEADER.is_match(&s)? => continue";
    "veto: eos < s.len() && is_continuous_phrase(&s, eos)? => continue";
    "veto: checker present and has_non_break_word(input, eos) => continue";
    "accept: return Ok(eos as isize)";
    "no candidate accepted: input_exceeds_limit and SPACES.find(&s)? = Some(m) => Ok(-(m.end())); otherwise Ok(-(s.len()))" ].
Proof. vm_compute. reflexivity. Qed.

(* NonBreakChecker::has_non_break_word, feature by feature (recognised by gen/factmods/SentenceFacts.py in every
   behaviour-equivalent spelling it lists: match on Ordering / plain comparisons from either side, local names free;
   anything else is an extraction failure): what nb_scan / has_non_break_word of the model implement *)
Fact nbw_candidate_as_modelled : F.nbw_candidate = "self.bos + length".
Proof. vm_compute. reflexivity. Qed.
Fact nbw_lookback_start_as_modelled : F.nbw_lookback_start = "candidate - LOOKUP_BYTE_LENGTH, saturating at 0".
Proof. vm_compute. reflexivity. Qed.
Fact nbw_offsets_as_modelled : F.nbw_offsets = "every byte offset from the look-back start to the candidate (exclusive), ascending".
Proof. vm_compute. reflexivity. Qed.
Fact nbw_entries_as_modelled : F.nbw_entries = "every entry of self.lexicon.lookup(input bytes, offset), in order".
Proof. vm_compute. reflexivity. Qed.
Fact nbw_veto_crossing_as_modelled : F.nbw_veto_crossing = "entry.end > candidate => true".
Proof. vm_compute. reflexivity. Qed.
Fact nbw_veto_ending_as_modelled : F.nbw_veto_ending = "entry.end == candidate && input[offset..entry.end] has more than 1 character => true".
Proof. vm_compute. reflexivity. Qed.
Fact nbw_default_as_modelled : F.nbw_default = "false".
Proof. vm_compute. reflexivity. Qed.

(* parenthesis_level, feature by feature: what Model.Sentence.plevel implements *)
Fact pl_start_as_modelled : F.pl_start = "level = 0 (usize)".
Proof. vm_compute. reflexivity. Qed.
Fact pl_traversal_as_modelled : F.pl_traversal = "every match of PARENTHESIS.captures_iter(s), in order".
Proof. vm_compute. reflexivity. Qed.
Fact pl_open_as_modelled : F.pl_open = "group 1 took part => level += 1".
Proof. vm_compute. reflexivity. Qed.
Fact pl_close_as_modelled : F.pl_close = "otherwise level > 0 => level -= 1 (a closing bracket at level 0 is ignored)".
Proof. vm_compute. reflexivity. Qed.
Fact pl_result_as_modelled : F.pl_result = "Ok(level)".
Proof. vm_compute. reflexivity. Qed.

(* prohibited_bos: the model's prohibited_bos = end of the anchored match, 0 without one *)
Fact prohibited_bos_result_as_modelled : F.prohibited_bos_result = "end of the match of PROHIBITED_BOS.find(s)?, 0 without a match".
Proof. vm_compute. reflexivity. Qed.

(* is_continuous_phrase, feature by feature (the two patterns are facts of their own: regex inventory + SentenceRegexFacts;
   the characters of the itemisation rule are F.ITEM_FOLLOW): what Model.Sentence.continuous / quote_at / ends_an_dot implement *)
Fact cp_last_char_as_modelled : F.cp_last_char = "last_char_len = UTF-8 length of the last character of s[..eos]".
Proof. vm_compute. reflexivity. Qed.
Fact cp_quote_rule_as_modelled : F.cp_quote_rule = "QUOTE_MARKER.find(&s[eos - last_char_len..])? = Some(m) with m.start() == 0 => Ok(true)".
Proof. vm_compute. reflexivity. Qed.
Fact cp_next_char_as_modelled : F.cp_next_char = "c = first character of s[eos..]".
Proof. vm_compute. reflexivity. Qed.
Fact cp_itemize_rule_as_modelled : F.cp_itemize_rule = "Ok(c is one of ITEM_FOLLOW && EOS_ITEMIZE_HEADER.is_match(&s[..eos])?)".
Proof. vm_compute. reflexivity. Qed.

(* SentenceIter::next, feature by feature: what Model.Sentence.iter implements *)
Fact iter_done_when_as_modelled : F.iter_done_when = "position == data.len() => None".
Proof. vm_compute. reflexivity. Qed.
Fact iter_detector_call_as_modelled : F.iter_detector_call = "rv = splitter.get_eos(&data[position..], checker).unwrap()".
Proof. vm_compute. reflexivity. Qed.
Fact iter_negative_as_modelled : F.iter_negative = "rv < 0 => end = data.len()".
Proof. vm_compute. reflexivity. Qed.
Fact iter_nonnegative_as_modelled : F.iter_nonnegative = "otherwise end = position + rv as usize".
Proof. vm_compute. reflexivity. Qed.
Fact iter_yield_as_modelled : F.iter_yield = "Some((position..end, &data[position..end])); position = end".
Proof. vm_compute. reflexivity. Qed.

Fact cli_splitter_ctors_as_modelled : F.cli_splitter_ctors =
  [ "SentenceSplitter::new().with_checker(dict.lexicon())"; "SentenceSplitter::new().with_checker(dict.lexicon())" ].
Proof. vm_compute. reflexivity. Qed.

Fact cli_split_loops_as_modelled : F.cli_split_loops =
  [ "for (_, sent) in self.splitter.split(input) {"; "for (_, sent) in self.splitter.split(input) {" ].
Proof. vm_compute. reflexivity. Qed.

Close Scope string_scope.

(* ===================== theorems ===================== *)

(* 1. For ANY detector that, on non-empty text, answers a negative value or the byte length of a non-empty prefix of
      whole characters: the iterator terminates (fuel |text| is never exhausted, no slice panic), takes at most |text|
      steps, and its ranges tile the text. *)
Theorem C16_split_partition_terminates :
  forall det data, good_det det ->
    exists rs, split_with det data = Done rs /\ length rs <= length data /\ tiles 0 data rs.
Proof. exact split_with_ok. Qed.
Print Assumptions C16_split_partition_terminates.

(* 1b. what tiling means: the slices concatenate to the text; ranges start at 0, are contiguous and end at |text| bytes;
       every range is non-empty, lies on character boundaries and its slice equals the text in the range *)
Theorem C16_tiles_meaning :
  forall data rs, tiles 0 data rs ->
    concat (map snd rs) = data /\ chain 0 (blen data) rs /\ Forall (range_of data) rs.
Proof.
  exact (fun data rs H => conj (tiles_concat rs 0 data H) (conj (tiles_chain rs 0 data H) (tiles_ranges rs data H))).
Qed.
Print Assumptions C16_tiles_meaning.

(* 2. the model detector is such a detector, for every window of at least one character and every lexicon oracle *)
Theorem C16_get_eos_ok :
  forall limit ck, 1 <= limit -> good_det (get_eos limit ck).
Proof. exact get_eos_good_det. Qed.
Print Assumptions C16_get_eos_ok.

(* 3. Every sentence except the last ends with a terminator optionally followed by closing brackets, commas or further
      terminators; it closes every bracket it opens; and (with a checker) no dictionary word that starts inside the
      look-back window crosses the break or ends on it with more than one character.
      d is the text that remained when the sentence was cut (data = before ++ d). *)
Theorem C16_break_only_after_terminator :
  forall limit ck data rs pre x y post, 1 <= limit ->
    split limit ck data = Done rs -> rs = pre ++ x :: y :: post ->
    exists before d, data = before ++ d /\ snd x = firstn (length (snd x)) d /\ 1 <= length (snd x) /\
      ends_with_terminator (snd x) /\
      plevel 0 (snd x) = 0 /\
      (forall lk, ck = Some lk -> forall j l, word_across lk d (length (snd x)) j l -> in_lookback d (length (snd x)) j -> False).
Proof.
  exact (fun limit ck data rs pre x y post Hl Hs Hr =>
    match split_sentence limit ck data rs pre x y post Hl Hs Hr with
    | ex_intro _ before (ex_intro _ d (conj A (conj B (conj C (conj D (conj E G)))))) =>
        ex_intro _ before (ex_intro _ d (conj A (conj B (conj C (conj D (conj (E (prohibited_not_open_of_b prohibited_chars_do_not_open)) G))))))
    end).
Qed.
Print Assumptions C16_break_only_after_terminator.

(* 3b. the same at the level of one detector call: a non-negative answer is the byte length of a prefix that ends after a
       terminator (+ trailers) *)
Theorem C16_get_eos_after_terminator :
  forall limit ck input, input <> [] -> 1 <= limit -> (0 <= get_eos limit ck input)%Z ->
    exists k, 1 <= k /\ k <= length input /\ get_eos limit ck input = Z.of_nat (blen (firstn k input)) /\
              ends_with_terminator (firstn k input).
Proof. exact get_eos_after_terminator. Qed.
Print Assumptions C16_get_eos_after_terminator.

(* 4. no break inside an unclosed bracket pair *)
Theorem C16_no_break_in_open_bracket :
  forall limit ck input, input <> [] -> 1 <= limit -> (0 <= get_eos limit ck input)%Z ->
    exists k, 1 <= k /\ k <= length input /\ get_eos limit ck input = Z.of_nat (blen (firstn k input)) /\
              plevel 0 (firstn k input) = 0.
Proof. exact (fun limit ck input => get_eos_bracket limit ck input (prohibited_not_open_of_b prohibited_chars_do_not_open)). Qed.
Print Assumptions C16_no_break_in_open_bracket.

(* 5. no break inside / at the end of a multi-character dictionary word.
      FULL statement (every word the lexicon reports) -- refuted in Witness/C16.v: the checker only looks back
      LOOKUP_BYTE_LENGTH bytes, a longer word ending with the terminator is not seen (KNOWN_FINDINGS c16_word_beyond_lookback) *)
Definition C16_no_break_inside_word_full : Prop :=
  forall limit lk input, input <> [] -> 1 <= limit -> (0 <= get_eos limit (Some lk) input)%Z ->
    exists k, 1 <= k /\ k <= length input /\ get_eos limit (Some lk) input = Z.of_nat (blen (firstn k input)) /\
              forall j l, ~ word_across lk input k j l.

(* PARTIAL: for words that start inside the look-back window *)
Theorem C16_no_break_inside_word_partial :
  forall limit lk input, input <> [] -> 1 <= limit -> (0 <= get_eos limit (Some lk) input)%Z ->
    exists k, 1 <= k /\ k <= length input /\ get_eos limit (Some lk) input = Z.of_nat (blen (firstn k input)) /\
              forall j l, word_across lk input k j l -> in_lookback input k j -> False.
Proof. exact get_eos_no_word. Qed.
Print Assumptions C16_no_break_inside_word_partial.

(* 6. Converse, inside the window (DESIGN section 6): the sentence ends at the FIRST candidate of the window that is not
      vetoed (not bracketed, not followed by a quoting particle, not an itemisation header, not inside such a word) ... *)
Theorem C16_terminator_breaks :
  forall limit ck input l1 e l2 eos, input <> [] -> 1 <= limit ->
    candidates (firstn limit input) = l1 ++ e :: l2 ->
    (forall y, In y l1 -> accept ck input (firstn limit input) y = None) ->
    accept ck input (firstn limit input) e = Some eos ->
    get_eos limit ck input = Z.of_nat (blen (firstn eos input)) /\ 1 <= eos.
Proof. exact get_eos_first_accepted. Qed.
Print Assumptions C16_terminator_breaks.

(* ... a negative answer means every candidate of the window was vetoed ... *)
Theorem C16_negative_means_all_vetoed :
  forall limit ck input, input <> [] -> 1 <= limit -> (get_eos limit ck input < 0)%Z ->
    forall e, In e (candidates (firstn limit input)) -> accept ck input (firstn limit input) e = None.
Proof. exact get_eos_negative_all_vetoed. Qed.
Print Assumptions C16_negative_means_all_vetoed.

(* ... and the candidates are complete: every place p of the window s where the breaker pattern matches (S m characters,
   given the character before it) is the start of a candidate ending at p + S m, or lies inside an earlier candidate's
   match (the search resumes at the end of the previous match) *)
Theorem C16_candidates_complete :
  forall s p pv m,
    breaker_len pv (skipn p s) = Some (S m) -> p < length s ->
    pv = (match p with 0 => None | S q => nth_error s q end) ->
    exists e, In e (candidates s) /\ p < e /\
              (e = p + S m \/ exists q pv' m', q < p /\ breaker_len pv' (skipn q s) = Some m' /\ e = q + m').
Proof. exact (fun s p pv m Hb Hp Hpv => scan_complete s 0 None [] p pv m Hb Hp Hpv (Nat.le_0_l p)). Qed.
Print Assumptions C16_candidates_complete.

(* 7. the terminator being itself a one-character dictionary entry never suppresses the break:
      a veto of the checker always exhibits a word of more than one character ... *)
Theorem C16_veto_needs_multichar_word :
  forall lk input k, has_non_break_word lk input k = true ->
    exists j l, word_across lk input k j l /\ 1 < l.
Proof. exact has_non_break_word_true. Qed.
Print Assumptions C16_veto_needs_multichar_word.

(* ... so lexicons that agree on their multi-character words split alike (adding or removing one-character entries,
   terminators included, changes nothing) ... *)
Theorem C16_single_char_entry_never_suppresses :
  forall lk1 lk2 limit input, agree_multichar lk1 lk2 ->
    get_eos limit (Some lk1) input = get_eos limit (Some lk2) input.
Proof. exact get_eos_agree. Qed.
Print Assumptions C16_single_char_entry_never_suppresses.

(* ... and a lexicon of one-character entries only behaves like no checker at all *)
Theorem C16_only_single_char_entries_is_no_checker :
  forall lk limit input, (forall t l, In l (lk t) -> l <= 1) ->
    get_eos limit (Some lk) input = get_eos limit None input.
Proof. exact get_eos_single. Qed.
Print Assumptions C16_only_single_char_entries_is_no_checker.

(* 8. The boolean predicates that every correspondence case evaluates on the IMPLEMENTATION's reported ranges are sound
      for the Props used above: tiles_b gives a tiling (with the slices cut from the text), ends_after_terminator_b gives
      ends_with_terminator. *)
Theorem C16_tiles_b_sound :
  forall rs data, tiles_b 0 data rs = true ->
    tiles 0 data (with_slices data rs) /\ map (fun x => (fst (fst x), snd (fst x))) (with_slices data rs) = rs.
Proof. exact (fun rs data => tiles_b_sound rs 0 data). Qed.
Print Assumptions C16_tiles_b_sound.

Theorem C16_ends_after_terminator_b_sound :
  forall t, ends_after_terminator_b t = true -> ends_with_terminator t.
Proof. exact ends_after_terminator_b_sound. Qed.
Print Assumptions C16_ends_after_terminator_b_sound.

(* 9. The hand matchers of the model are the regex patterns of the source: every Regex::new literal of
      sentence_detector.rs is parsed into a regex AST on each run (Generated/SentenceRegexFacts.v) and, for ALL texts, each
      hand matcher equals the generic backtracking matcher (Model/SentenceRegex.v: leftmost start, ordered alternatives,
      greedy repetition with backtracking, possessive groups, one-character look-around, anchors) on that AST. *)
(* the regenerated ASTs are the ones the proofs were written for (classes, bounds and tags stay symbolic: they are read
   from Generated/SentenceFacts.v on both sides) *)
Fact patterns_parse_as_expected : patterns_as_expected.
Proof. repeat split; reflexivity. Qed.

Fact br_tags_prefix_free : tags_ok_b F.BR_TAGS = true.
Proof. vm_compute. reflexivity. Qed.

Fact repetition_bounds_positive : (1 <=? F.BR_MIN) && (1 <=? F.CDOTS_MIN) = true.
Proof. vm_compute. reflexivity. Qed.

Theorem C16_matchers_agree_with_patterns : matchers_agree_statement.
Proof.
  exact (matchers_agree patterns_parse_as_expected br_tags_prefix_free
           (proj1 (Nat.leb_le _ _) (proj1 (proj1 (andb_true_iff _ _) repetition_bounds_positive)))
           (proj1 (Nat.leb_le _ _) (proj2 (proj1 (andb_true_iff _ _) repetition_bounds_positive)))).
Qed.
Print Assumptions C16_matchers_agree_with_patterns.
