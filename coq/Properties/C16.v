(* C16 — placeholder while the proofs are being written *)
From Coq Require Import List NArith ZArith String.
From SudachiVerif Require Import Model.Sentence.
Import ListNotations.
