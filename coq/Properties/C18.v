(* C18 — one loaded dictionary can be shared by concurrent tokenizers.
   Proved: the protocol logic -- threads with private state over a shared value that no step writes obtain, under EVERY
   interleaving, exactly their single-threaded outputs.  The premise "no step writes the dictionary" is tied to the code by
   the regenerated shared-state inventory; data races inside unsafe / third-party code are outside any theorem (tested). *)
From Coq Require Import List Arith String.
From Coq Require Import NArith.
From SudachiVerif Require Import Model.Interleave Proofs.InterleaveProofs Proofs.InterleaveCheckProofs Proofs.MutAuditClassified.
From SudachiVerif Require Generated.MutAudit.

Theorem C18_interleaving_noninterference :
  forall (D St Out : Type) (step : D -> St -> St * Out) (d : D) sched st t s,
    nth_error st t = Some s ->
    outputs_of Out t (snd (run D St Out step d st sched)) = snd (solo D St Out step d s (count_occ Nat.eq_dec sched t)) /\
    nth_error (fst (run D St Out step d st sched)) t = Some (fst (solo D St Out step d s (count_occ Nat.eq_dec sched t))).
Proof. exact interleaving_noninterference. Qed.
Print Assumptions C18_interleaving_noninterference.

Theorem C18_schedule_irrelevant :
  forall (D St Out : Type) (step : D -> St -> St * Out) (d : D) sched1 sched2 st t s,
    nth_error st t = Some s ->
    count_occ Nat.eq_dec sched1 t = count_occ Nat.eq_dec sched2 t ->
    outputs_of Out t (snd (run D St Out step d st sched1)) = outputs_of Out t (snd (run D St Out step d st sched2)).
Proof. exact schedule_irrelevant. Qed.
Print Assumptions C18_schedule_irrelevant.

(* what the premise "no step writes the shared value" buys: a protocol whose steps MAY write it is, as soon as none does,
   a run of the read-only protocol with the shared value unchanged -- and then every thread has its solo outputs *)
Theorem C18_read_only_steps_leave_dictionary_and_do_not_interfere :
  forall (D St Out : Type) (stepw : D -> St -> D * (St * Out)),
    read_only D St Out stepw ->
    forall d sched st t s, nth_error st t = Some s ->
      fst (runw D St Out stepw d st sched) = d /\
      outputs_of Out t (snd (snd (runw D St Out stepw d st sched))) =
        snd (solo D St Out (proj_step D St Out stepw) d s (count_occ Nat.eq_dec sched t)).
Proof. exact read_only_noninterference. Qed.
Print Assumptions C18_read_only_steps_leave_dictionary_and_do_not_interfere.

(* the evaluator of the correspondence shards is sound for the statement above: an observed concurrent run that it accepts
   gave every thread exactly the single-threaded results (table entries) of the texts it analysed, in its own order *)
Theorem C18_accepted_run_is_sequential_per_thread :
  forall d streams events,
    check_interleave d streams events = true ->
    forall t s, nth_error streams t = Some s ->
      let k := count_occ Nat.eq_dec (map fst events) t in
      k <= List.length s ->
      outputs_of N t events = map (lookup d) (firstn k s).
Proof. exact check_interleave_sequential. Qed.
Print Assumptions C18_accepted_run_is_sequential_per_thread.

(* ---- obligations on regenerated facts ---- *)
Lemma C18_fact_shared_state_classified : Generated.MutAudit.shared_state = classified.
Proof. vm_compute. reflexivity. Qed.
Lemma C18_fact_dictionary_access_read_only : Generated.MutAudit.dictionary_access_takes_mut = false.
Proof. reflexivity. Qed.
