(* C11 — loading a subset of word fields never changes the fields that were requested.
   Only the property theorems; each is closed by `exact` of a lemma of Proofs/CodecProofs.v. *)
From Coq Require Import List NArith ZArith.
From SudachiVerif Require Import Model.Codec Proofs.CodecProofs Proofs.CodecLexSetProofs.
From SudachiVerif Require Generated.FieldOrder.
Open Scope N_scope.

(* the parse_field! sequence and the InfoSubset bits are the ones the reader model was proved against *)
Fact C11_reader_order : reader_facts_ok.
Proof. split; vm_compute; reflexivity. Qed.
(* the closure rules of InfoSubset::normalize, as extracted on this run: for every one of the 1024 subsets, every
   requested accessor finds all the stored fields it reads (normalised/reading/dictionary form fall back to the
   surface), and normalize stays inside the ten flags *)
Fact C11_normalize_closure : closure_ok = true.
Proof. vm_compute. reflexivity. Qed.
(* set_mode / set_subset in either order and from any previous mode: 1024 subsets x 3 x 3 modes *)
Fact C11_order_sweep : order_ok = true.
Proof. vm_compute. reflexivity. Qed.

(* each skip function advances exactly as its parser *)
Theorem C11_skip_eq_parse_width_string :
  forall bs s rest, read_string bs = Some (s, rest) -> skip_string bs = Some rest.
Proof. exact skip_string_width. Qed.
Print Assumptions C11_skip_eq_parse_width_string.
Theorem C11_skip_eq_parse_width_array :
  forall bs xs rest, read_u32_array bs = Some (xs, rest) -> skip_u32_array bs = Some rest.
Proof. exact skip_u32_array_width. Qed.
Print Assumptions C11_skip_eq_parse_width_array.

(* for every byte string that parses with all fields, every subset and every stored field in it: same value *)
Theorem C11_subset_preserves_requested :
  forall s bs iA, subset_of s ALL -> parse ALL bs = Some iA ->
  exists iS, parse s bs = Some iS /\ (forall f, f <> F_dicform -> N.testbit s (bit_of_fid f) = true -> iS f = iA f).
Proof. exact (subset_preserves_requested C11_reader_order). Qed.
Print Assumptions C11_subset_preserves_requested.

(* for every lexicon whose entries parse, every word, every loaded subset L that contains the stored fields an
   accessor reads: the accessor (incl. the dictionary form of words that are their own dictionary form, and
   dictionaries without synonym ids) returns what it returns after a full load *)
Theorem C11_accessor_preserved :
  forall lx has_syn wid L a iA,
  lex_ok lx -> subset_of L ALL -> deps_loaded L a ->
  get_word_info lx has_syn wid ALL = Some iA ->
  exists iS, get_word_info lx has_syn wid L = Some iS /\ accessor a iS = accessor a iA.
Proof. exact (accessor_preserved C11_reader_order). Qed.
Print Assumptions C11_accessor_preserved.

(* headline: for all 2^10 requested subsets s, what the tokenizer loads (normalize s) serves every requested accessor *)
Theorem C11_accessor_preserved_normalize :
  forall lx has_syn wid s a iA,
  lex_ok lx -> s < 1024 -> N.testbit s (acc_flag a) = true ->
  get_word_info lx has_syn wid ALL = Some iA ->
  exists iS, get_word_info lx has_syn wid (normalize s) = Some iS /\ accessor a iS = accessor a iA.
Proof. exact (accessor_preserved_normalize C11_reader_order C11_normalize_closure). Qed.
Print Assumptions C11_accessor_preserved_normalize.

(* order of set_mode / set_subset: either order ends in the requested mode with its split field loaded, and every
   requested accessor is served *)
Theorem C11_set_order_irrelevant :
  forall s m0 m t, s < 1024 ->
  t = set_subset s (set_mode m (tok_create m0)) \/ t = set_mode m (set_subset s (tok_create m0)) ->
  t_mode t = m /\
  (N.land (t_subset t) (mode_bits m) = mode_bits m) /\
  forall lx has_syn wid a iA, lex_ok lx -> N.testbit s (acc_flag a) = true ->
    get_word_info lx has_syn wid ALL = Some iA ->
    exists iS, get_word_info lx has_syn wid (t_subset t) = Some iS /\ accessor a iS = accessor a iA.
Proof. exact (set_order_irrelevant C11_reader_order C11_order_sweep). Qed.
Print Assumptions C11_set_order_irrelevant.

(* the same through LexiconSet::get_word_info_subset, for a word of ANY dictionary of the stack (dictionary id d,
   num_system_pos n, pos offset o): POS re-basing and the re-stamping of split / word-structure references of user
   dictionaries are each guarded by their own flag of the loaded subset, so every requested accessor (POS id, A splits,
   B splits, word structure included) is what it is after a full load *)
Theorem C11_lexset_accessor_preserved :
  forall lx has_syn d n o wid L a iA,
  lex_ok lx -> subset_of L ALL -> deps_loaded L a ->
  lexset_get lx has_syn d n o wid ALL = Some iA ->
  exists iS, lexset_get lx has_syn d n o wid L = Some iS /\ accessor a iS = accessor a iA.
Proof. exact (lexset_accessor_preserved C11_reader_order). Qed.
Print Assumptions C11_lexset_accessor_preserved.

(* ====================================================================================================================
   Token boundaries and word identities under a subset; surfaces under any subset.
   Glue: Model/SubsetPipeline.v (the subset as a parameter of the stages that are handed it); the stages themselves are
   builder G's Model/Rewrite.v, builder I's Model/Split.v, Model/Lattice.v and this property's Model/Codec.v. *)
From SudachiVerif Require Import Model.SubsetPipeline Proofs.SubsetBoundaries.
From SudachiVerif Require Model.Rewrite Model.Split Model.Lattice Model.Buffer Proofs.BufferProofs Proofs.PipelineProofs Proofs.PipelineFull Proofs.SubsetPartition.

(* obligation on Generated/SubsetUse.v: order of the stages of do_tokenize, the only users of the subset, a lattice
   stage that mentions neither subset nor word info, the WordInfo accessors occurring in the two plugins and the fields
   the concat functions copy *)
Fact C11_subset_use : subset_use_ok = true.
Proof. vm_compute. reflexivity. Qed.

(* (1) the best path is chosen before any word info is loaded: the lattice stage is not given the subset *)
Theorem C11_lattice_ignores_subset :
  forall L1 L2 conn n ns, lattice_stage L1 conn n ns = lattice_stage L2 conn n ns.
Proof. exact lattice_ignores_subset. Qed.
Print Assumptions C11_lattice_ignores_subset.

(* (2) what the path-rewrite plugins read.  JoinKatakanaOov: ranges, dictionary-side surface, OOV flag, character classes
   -- node lists agreeing on those are rewritten alike (same outcome, outputs agreeing on them) ... *)
Theorem C11_rewrite_reads_only_katakana :
  forall ml op p q, Forall2 kat_fields_eq p q ->
  ores_rel kat_fields_eq (Rewrite.join_katakana ml op p) (Rewrite.join_katakana ml op q).
Proof. exact join_katakana_reads_only. Qed.
Print Assumptions C11_rewrite_reads_only_katakana.

(* ... JoinNumeric additionally normalised form and part-of-speech id; every chain of the two preserves that agreement *)
Theorem C11_rewrite_reads_only :
  forall pls p q, Forall2 num_fields_eq p q ->
  ores_rel num_fields_eq (Rewrite.run_plugins pls p) (Rewrite.run_plugins pls q).
Proof. exact run_plugins_reads_only. Qed.
Print Assumptions C11_rewrite_reads_only.

(* what LexiconSet::get_word_info_subset guarantees the later stages, for EVERY loaded subset: requested stored fields as
   in the full load; the head-word length whenever a split list is loaded; a split list that is not loaded is empty *)
Theorem C11_getinfo_contract :
  forall lx d n o, lex_ok lx -> getinfo_ok (fun L w => lexset_get lx true d n o w L).
Proof. exact (lexset_getinfo_ok C11_reader_order). Qed.
Print Assumptions C11_getinfo_contract.

(* (3) for every one of the 2^10 requested subsets s, initial mode, mode and order of set_mode / set_subset:
   - s with SURFACE, POS_ID and NORMALIZED_FORM: every plugin chain ends like with all fields, in outputs that agree on
     ranges, surface, normalised form, part of speech and OOV flag;
   - no plugin: for ANY s the nodes keep the ranges and word ids of the best path;
   - the split stage of mode A / B yields the same sub-tokens (ranges and word ids) as with all fields for ANY s *)
Theorem C11_boundaries_preserved :
  forall getinfo, getinfo_ok getinfo ->
  forall s m0 m order, s < 1024 ->
  (N.testbit s 0 = true -> N.testbit s 2 = true -> N.testbit s 3 = true ->
   forall pls path y, rewritten getinfo ALL pls path = Some y ->
   exists x, rewritten getinfo (loaded_for s m0 m order) pls path = Some x /\ ores_rel num_fields_eq x y)
  /\ (forall path y, rewritten getinfo ALL nil path = Some y ->
      exists pr, rewritten getinfo (loaded_for s m0 m order) nil path = Some (Some (Rewrite.Ok pr)) /\ Forall2 from_path path pr)
  /\ (forall t ps, words_known getinfo ps ->
      Split.tokenize_mode (hw_of getinfo (loaded_for s m0 m order)) t
        (units_of getinfo F_a (loaded_for s m0 m order)) (units_of getinfo F_b (loaded_for s m0 m order)) m ps =
      Split.tokenize_mode (hw_of getinfo ALL) t (units_of getinfo F_a ALL) (units_of getinfo F_b ALL) m ps).
Proof. exact (boundaries_preserved C11_order_sweep). Qed.
Print Assumptions C11_boundaries_preserved.

(* (4) whatever subset is loaded, the reported surfaces partition the original text: builder A's composed pipeline
   theorem instantiated with the ResultNodes and split lists ANY subset produces *)
Theorem C11_surfaces_partition_any_subset :
  forall cfg, Buffer.cfg_ok cfg = true -> forall conn o s t ns r i c,
  Buffer.wf_text o = true -> BufferProofs.Reach cfg o s -> Buffer.cur s = PipelineFull.enc t ->
  Lattice.nodes_ok (PipelineProofs.nchars (Buffer.cur s)) ns -> (0 < PipelineProofs.nchars (Buffer.cur s))%nat ->
  Lattice.connect_eos conn (Lattice.insert_all conn (Lattice.reset (PipelineProofs.nchars (Buffer.cur s))) ns) = Some (r, i, c) ->
  exists es p,
    lattice_stage 0 conn (PipelineProofs.nchars (Buffer.cur s)) ns = Some es /\ map Lattice.enode es = map Some p /\
    forall getinfo L path pr pls q ps key m,
      getinfo_ok getinfo -> subset_of L ALL ->
      Forall2 (SubsetPartition.pnode_of (Buffer.cur s)) p path ->
      resolve getinfo L path = Some pr ->
      Rewrite.run_plugins pls pr = Some (Rewrite.Ok q) ->
      Forall2 PipelineFull.snode_of q ps ->
      Split.split_facts_ok = true -> words_known getinfo ps ->
      PipelineFull.mode_wf (hw_of getinfo ALL) key t (units_of getinfo F_a ALL) (units_of getinfo F_b ALL) m ps ->
      exists final,
        Split.tokenize_mode (hw_of getinfo L) t (units_of getinfo F_a L) (units_of getinfo F_b L) m ps = Some final /\
        let ranges := map (Buffer.map_range (Buffer.m2o s)) (map PipelineFull.sbytes final) in
        Buffer.partition_b o ranges = true /\
        concat (map (Buffer.byte_slice o) ranges) = o /\
        (forall n, In n final ->
           Buffer.orig_slice s (fst (PipelineFull.sbytes n)) (snd (PipelineFull.sbytes n)) =
           Some (Buffer.byte_slice o (Buffer.map_range (Buffer.m2o s) (PipelineFull.sbytes n)))).
Proof. exact SubsetPartition.surfaces_partition_any_subset. Qed.
Print Assumptions C11_surfaces_partition_any_subset.

(* ====================================================================================================================
   The Python entry point: Dictionary.create(mode, fields=F, projection=P).  The binding hands `F | required_subset(P)` to
   PyTokenizer::new -> StatefulTokenizer::set_subset; P is the `projection=` argument when one is passed, else the
   projection of the configuration.  Model of the binding: builder G's Model/PyProjection.v (tables regenerated into
   Generated/PyFacts.v); G's theorem for C19 rests on C11_accessor_preserved_normalize and is restated here for C11. *)
From SudachiVerif Require Import Model.PyProjection Proofs.PyProjectionProofs Proofs.SubsetProjection.
From SudachiVerif Require Generated.PyFacts.

(* the regenerated tables of the binding are the ones the proofs were written for -- among them: create() ORs the required
   subset of the projection in force into the requested fields on both paths (`projection=` passed: that projection's;
   not passed: the configuration's), the required subset of every projection, the accessors every projection reads *)
Fact C11_py_facts : py_facts_ok.
Proof. unfold py_facts_ok. repeat split; vm_compute; reflexivity. Qed.
Fact C11_fact_create_ors_required_subset : Generated.PyFacts.create_ors_required_subset = true.
Proof. vm_compute. reflexivity. Qed.

(* the subset create() requests contains F and required(P) *)
Theorem C11_create_subset_contains : forall F k b,
  N.testbit F b = true \/ N.testbit (required_subset k) b = true -> N.testbit (create_subset F (Some k)) b = true.
Proof. exact create_subset_contains. Qed.
Print Assumptions C11_create_subset_contains.

(* every field of F reads as after a full load, for every projection P passed along *)
Theorem C11_create_serves_requested_fields :
  forall lx has_syn wid F k a iA, lex_ok lx -> F < 1024 -> N.testbit F (acc_flag a) = true ->
  get_word_info lx has_syn wid ALL = Some iA ->
  exists iS, get_word_info lx has_syn wid (loaded_subset F (Some k)) = Some iS /\ accessor a iS = accessor a iA.
Proof. exact (create_serves_requested_fields C11_reader_order C11_normalize_closure C11_py_facts). Qed.
Print Assumptions C11_create_serves_requested_fields.

(* for EVERY one of the 1024 field sets F and every projection P: the projected surface (Morpheme.surface()) computed from
   the word info loaded for (F, P) is the one computed from the fully loaded word info ... *)
Theorem C11_projection_served_for_every_field_set :
  forall lx has_syn wid F k pl surf iA,
  lex_ok lx -> F < 1024 -> get_word_info lx has_syn wid ALL = Some iA ->
  (forall iS, get_word_info lx has_syn wid (loaded_subset F (Some k)) = Some iS ->
              project pl k (view_of surf iS) = project pl k (view_of surf iA)) /\
  (k <> PSurface -> exists iS, get_word_info lx has_syn wid (loaded_subset F (Some k)) = Some iS).
Proof. exact (projection_served_for_every_field_set C11_py_facts C11_reader_order C11_normalize_closure). Qed.
Print Assumptions C11_projection_served_for_every_field_set.

(* ... hence the one a tokenizer created with fields=None and the same projection computes *)
Theorem C11_projection_same_as_all_fields :
  forall lx has_syn wid F k pl surf iA iS iN, lex_ok lx -> F < 1024 ->
  get_word_info lx has_syn wid ALL = Some iA ->
  get_word_info lx has_syn wid (loaded_subset F (Some k)) = Some iS ->
  get_word_info lx has_syn wid (loaded_subset ALL (Some k)) = Some iN ->
  project pl k (view_of surf iS) = project pl k (view_of surf iN).
Proof. exact (projection_same_as_all_fields C11_py_facts C11_reader_order C11_normalize_closure). Qed.
Print Assumptions C11_projection_same_as_all_fields.
