(* C11 — loading a subset of word fields never changes the fields that were requested.
   Only the property theorems; each is closed by `exact` of a lemma of Proofs/CodecProofs.v. *)
From Coq Require Import List NArith ZArith.
From SudachiVerif Require Import Model.Codec Proofs.CodecProofs Proofs.CodecLexSetProofs.
From SudachiVerif Require Generated.FieldOrder.
Open Scope N_scope.

(* the parse_field! sequence and the InfoSubset bits are the ones the reader model was proved against *)
Fact C11_reader_order : reader_facts_ok.
Proof. split; vm_compute; reflexivity. Qed.
(* the closure rules of InfoSubset::normalize, as extracted on this run: for every one of the 1024 subsets, every
   requested accessor finds all the stored fields it reads (normalised/reading/dictionary form fall back to the
   surface), and normalize stays inside the ten flags *)
Fact C11_normalize_closure : closure_ok = true.
Proof. vm_compute. reflexivity. Qed.
(* set_mode / set_subset in either order and from any previous mode: 1024 subsets x 3 x 3 modes *)
Fact C11_order_sweep : order_ok = true.
Proof. vm_compute. reflexivity. Qed.

(* each skip function advances exactly as its parser *)
Theorem C11_skip_eq_parse_width_string :
  forall bs s rest, read_string bs = Some (s, rest) -> skip_string bs = Some rest.
Proof. exact skip_string_width. Qed.
Print Assumptions C11_skip_eq_parse_width_string.
Theorem C11_skip_eq_parse_width_array :
  forall bs xs rest, read_u32_array bs = Some (xs, rest) -> skip_u32_array bs = Some rest.
Proof. exact skip_u32_array_width. Qed.
Print Assumptions C11_skip_eq_parse_width_array.

(* for every byte string that parses with all fields, every subset and every stored field in it: same value *)
Theorem C11_subset_preserves_requested :
  forall s bs iA, subset_of s ALL -> parse ALL bs = Some iA ->
  exists iS, parse s bs = Some iS /\ (forall f, f <> F_dicform -> N.testbit s (bit_of_fid f) = true -> iS f = iA f).
Proof. exact (subset_preserves_requested C11_reader_order). Qed.
Print Assumptions C11_subset_preserves_requested.

(* for every lexicon whose entries parse, every word, every loaded subset L that contains the stored fields an
   accessor reads: the accessor (incl. the dictionary form of words that are their own dictionary form, and
   dictionaries without synonym ids) returns what it returns after a full load *)
Theorem C11_accessor_preserved :
  forall lx has_syn wid L a iA,
  lex_ok lx -> subset_of L ALL -> deps_loaded L a ->
  get_word_info lx has_syn wid ALL = Some iA ->
  exists iS, get_word_info lx has_syn wid L = Some iS /\ accessor a iS = accessor a iA.
Proof. exact (accessor_preserved C11_reader_order). Qed.
Print Assumptions C11_accessor_preserved.

(* headline: for all 2^10 requested subsets s, what the tokenizer loads (normalize s) serves every requested accessor *)
Theorem C11_accessor_preserved_normalize :
  forall lx has_syn wid s a iA,
  lex_ok lx -> s < 1024 -> N.testbit s (acc_flag a) = true ->
  get_word_info lx has_syn wid ALL = Some iA ->
  exists iS, get_word_info lx has_syn wid (normalize s) = Some iS /\ accessor a iS = accessor a iA.
Proof. exact (accessor_preserved_normalize C11_reader_order C11_normalize_closure). Qed.
Print Assumptions C11_accessor_preserved_normalize.

(* order of set_mode / set_subset: either order ends in the requested mode with its split field loaded, and every
   requested accessor is served *)
Theorem C11_set_order_irrelevant :
  forall s m0 m t, s < 1024 ->
  t = set_subset s (set_mode m (tok_create m0)) \/ t = set_mode m (set_subset s (tok_create m0)) ->
  t_mode t = m /\
  (N.land (t_subset t) (mode_bits m) = mode_bits m) /\
  forall lx has_syn wid a iA, lex_ok lx -> N.testbit s (acc_flag a) = true ->
    get_word_info lx has_syn wid ALL = Some iA ->
    exists iS, get_word_info lx has_syn wid (t_subset t) = Some iS /\ accessor a iS = accessor a iA.
Proof. exact (set_order_irrelevant C11_reader_order C11_order_sweep). Qed.
Print Assumptions C11_set_order_irrelevant.

(* the same through LexiconSet::get_word_info_subset, for a word of ANY dictionary of the stack (dictionary id d,
   num_system_pos n, pos offset o): POS re-basing and the re-stamping of split / word-structure references of user
   dictionaries are each guarded by their own flag of the loaded subset, so every requested accessor (POS id, A splits,
   B splits, word structure included) is what it is after a full load *)
Theorem C11_lexset_accessor_preserved :
  forall lx has_syn d n o wid L a iA,
  lex_ok lx -> subset_of L ALL -> deps_loaded L a ->
  lexset_get lx has_syn d n o wid ALL = Some iA ->
  exists iS, lexset_get lx has_syn d n o wid L = Some iS /\ accessor a iS = accessor a iA.
Proof. exact (lexset_accessor_preserved C11_reader_order). Qed.
Print Assumptions C11_lexset_accessor_preserved.
