(* C20 — Out-of-range plugin parameters are rejected when the dictionary is loaded.
   Only the property theorems: each is a generic lemma of Proofs/ParamsProofs.v applied to the fact record regenerated
   from the sources (Model.Params.gen_facts), under decidable obligations on that record closed by vm_compute. *)
From Coq Require Import List ZArith NArith Bool.
From SudachiVerif Require Import Model.GuardLang Model.Params Proofs.GuardProofs Proofs.ParamsProofs.
Import ListNotations.
Open Scope Z_scope.

(* obligations on the generated facts: every id guard rejects all negatives and all values >= the dimension the id is
   looked up against (a node's left_id against num_right, its right_id against num_left; inhibit pair members against
   the dimension of their own position), the cost guards confine to i16, ConnectionMatrix::index is right*num_left+left,
   the lattice passes (left node's right_id, right node's left_id), unk.def / inhibitPair members are parsed as i16 *)
Fact C20_generated_guards_ok : facts_ok gen_facts = true.
Proof. vm_compute. reflexivity. Qed.

Fact C20_generated_types_uniform : types_uniform = true.
Proof. vm_compute. reflexivity. Qed.

(* the generic lemma behind the id checks, for the record *)
Theorem C20_guard_sound : forall gs d nl nr x,
  covers gs d = true -> 1 <= dim_val d nl nr < 9223372036854775808 ->
  -9223372036854775808 <= x < 9223372036854775808 ->
  accepted gs nl nr x = true -> 0 <= x < dim_val d nl nr.
Proof. exact guard_sound. Qed.
Print Assumptions C20_guard_sound.

(* loading succeeds only if every supplied connection id indexes an existing row / column, every cost fits i16, every POS
   has POS_DEPTH components, at least one OOV provider is configured; and every stored node template carries in-range ids *)
Theorem C20_accepted_config_is_valid : forall debug g cfg L, wf_gram g ->
  load debug g cfg = Ok L -> spec_accepts g cfg = true /\ forallb (forallb (node_ok g)) (l_nodes L) = true.
Proof. exact (load_accepts_only_valid gen_facts C20_generated_guards_ok). Qed.
Print Assumptions C20_accepted_config_is_valid.

(* otherwise loading returns an error value: the plugin phase never panics, in either build profile *)
Theorem C20_load_never_panics : forall debug g cfg, wf_gram g -> load debug g cfg <> Panic.
Proof. exact (load_never_panics gen_facts C20_generated_guards_ok). Qed.
Print Assumptions C20_load_never_panics.

(* it never silently edits a different matrix cell: after an accepted load every cell holds INHIBITED_CONNECTION iff it
   was named by an inhibitPair, and its stored cost otherwise *)
Theorem C20_inhibit_edits_named_cells : forall debug g cfg L init, wf_gram g ->
  load debug g cfg = Ok L ->
  forall l r, 0 <= l < nl g -> 0 <= r < nr g ->
    cell_after gen_facts g init (l_edits L) l r = cell_spec (f_inhibited gen_facts) init (concat (c_inhibit cfg)) l r.
Proof. exact (inhibit_edits_named_cells gen_facts C20_generated_guards_ok). Qed.
Print Assumptions C20_inhibit_edits_named_cells.

(* consequently no accepted configuration can make analysis index outside the connection matrix: the lookup the lattice
   performs for any two accepted node templates passes the debug assertions and lands inside the matrix *)
Theorem C20_accepted_config_index_safe : forall debug g cfg L a b, wf_gram g ->
  load debug g cfg = Ok L -> In a (concat (l_nodes L)) -> In b (concat (l_nodes L)) ->
  exists i, conn_index gen_facts debug g (node_id (f_arg_left gen_facts) a) (node_id (f_arg_right gen_facts) b) = Ok i
            /\ 0 <= i < nl g * nr g.
Proof. exact (accepted_nodes_index_safe gen_facts C20_generated_guards_ok). Qed.
Print Assumptions C20_accepted_config_index_safe.

(* every part of speech either exists or user-defined parts of speech are explicitly allowed *)
Theorem C20_pos_rule : forall tbl p allow,
  match handle_user_pos gen_facts tbl p allow with
  | Ok (i, tbl') => fst p = true /\ ((In (snd p) tbl /\ tbl' = tbl) \/ (allow = true /\ ~ In (snd p) tbl /\ tbl' = tbl ++ [snd p] /\ i = N.of_nat (length tbl)))
  | Err => fst p = false \/ (~ In (snd p) tbl /\ (allow = false \/ fires (f_pos_limit gen_facts) 0 0 (Z.of_nat (length tbl)) = true))
  | Panic => False
  end.
Proof. exact (pos_rule gen_facts). Qed.
Print Assumptions C20_pos_rule.

Theorem C20_forbid_means_existing : forall debug g cfg L,
  load debug g cfg = Ok L -> forallb forbids (c_oov cfg) = true ->
  l_pos L = pos g /\ forall o k, In o (c_oov cfg) -> In k (pos_keys o) -> In k (pos g).
Proof. exact (forbid_means_existing gen_facts). Qed.
Print Assumptions C20_forbid_means_existing.
