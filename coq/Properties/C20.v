(* C20 — Out-of-range plugin parameters are rejected when the dictionary is loaded.
   Only the property theorems: each is a generic lemma of Proofs/ParamsProofs.v applied to the fact record regenerated
   from the sources (Model.Params.gen_facts), under decidable obligations on that record closed by vm_compute. *)
From Coq Require Import List ZArith NArith Bool.
From SudachiVerif Require Import Model.GuardLang Model.Params Proofs.GuardProofs Proofs.ParamsProofs.
From SudachiVerif Require Import Model.UnkDefText Proofs.UnkDefTextProofs.
Import ListNotations.
Open Scope Z_scope.

(* obligations on the generated facts: every id guard rejects all negatives and all values >= the dimension the id is
   looked up against (a node's left_id against num_right, its right_id against num_left; inhibit pair members against
   the dimension of their own position), the cost guards confine to i16, ConnectionMatrix::index is right*num_left+left,
   the lattice passes (left node's right_id, right node's left_id), unk.def / inhibitPair members are parsed as i16 *)
Fact C20_generated_guards_ok : facts_ok gen_facts = true.
Proof. vm_compute. reflexivity. Qed.

Fact C20_generated_types_uniform : types_uniform = true.
Proof. vm_compute. reflexivity. Qed.

(* the generic lemma behind the id checks, for the record *)
Theorem C20_guard_sound : forall gs d nl nr x,
  covers gs d = true -> 1 <= dim_val d nl nr < 9223372036854775808 ->
  -9223372036854775808 <= x < 9223372036854775808 ->
  accepted gs nl nr x = true -> 0 <= x < dim_val d nl nr.
Proof. exact guard_sound. Qed.
Print Assumptions C20_guard_sound.

(* loading succeeds only if every supplied connection id indexes an existing row / column, every cost fits i16, every POS
   has POS_DEPTH components, at least one OOV provider is configured; and every stored node template carries in-range ids *)
Theorem C20_accepted_config_is_valid : forall debug g cfg L, wf_gram g ->
  load debug g cfg = Ok L -> spec_accepts g cfg = true /\ forallb (forallb (node_ok g)) (l_nodes L) = true.
Proof. exact (load_accepts_only_valid gen_facts C20_generated_guards_ok). Qed.
Print Assumptions C20_accepted_config_is_valid.

(* otherwise loading returns an error value: the plugin phase never panics, in either build profile *)
Theorem C20_load_never_panics : forall debug g cfg, wf_gram g -> load debug g cfg <> Panic.
Proof. exact (load_never_panics gen_facts C20_generated_guards_ok). Qed.
Print Assumptions C20_load_never_panics.

(* it never silently edits a different matrix cell: after an accepted load every cell holds INHIBITED_CONNECTION iff it
   was named by an inhibitPair, and its stored cost otherwise *)
Theorem C20_inhibit_edits_named_cells : forall debug g cfg L init, wf_gram g ->
  load debug g cfg = Ok L ->
  forall l r, 0 <= l < nl g -> 0 <= r < nr g ->
    cell_after gen_facts g init (l_edits L) l r = cell_spec (f_inhibited gen_facts) init (concat (c_inhibit cfg)) l r.
Proof. exact (inhibit_edits_named_cells gen_facts C20_generated_guards_ok). Qed.
Print Assumptions C20_inhibit_edits_named_cells.

(* consequently no accepted configuration can make analysis index outside the connection matrix: the lookup the lattice
   performs for any two accepted node templates passes the debug assertions and lands inside the matrix *)
Theorem C20_accepted_config_index_safe : forall debug g cfg L a b, wf_gram g ->
  load debug g cfg = Ok L -> In a (concat (l_nodes L)) -> In b (concat (l_nodes L)) ->
  exists i, conn_index gen_facts debug g (node_id (f_arg_left gen_facts) a) (node_id (f_arg_right gen_facts) b) = Ok i
            /\ 0 <= i < nl g * nr g.
Proof. exact (accepted_nodes_index_safe gen_facts C20_generated_guards_ok). Qed.
Print Assumptions C20_accepted_config_index_safe.

(* every part of speech either exists or user-defined parts of speech are explicitly allowed *)
Theorem C20_pos_rule : forall tbl p allow,
  match handle_user_pos gen_facts tbl p allow with
  | Ok (i, tbl') => fst p = true /\ ((In (snd p) tbl /\ tbl' = tbl) \/ (allow = true /\ ~ In (snd p) tbl /\ tbl' = tbl ++ [snd p] /\ i = N.of_nat (length tbl)))
  | Err => fst p = false \/ (~ In (snd p) tbl /\ (allow = false \/ fires (f_pos_limit gen_facts) 0 0 (Z.of_nat (length tbl)) = true))
  | Panic => False
  end.
Proof. exact (pos_rule gen_facts). Qed.
Print Assumptions C20_pos_rule.

Theorem C20_forbid_means_existing : forall debug g cfg L,
  load debug g cfg = Ok L -> forallb forbids (c_oov cfg) = true ->
  l_pos L = pos g /\ forall o k, In o (c_oov cfg) -> In k (pos_keys o) -> In k (pos g).
Proof. exact (forbid_means_existing gen_facts). Qed.
Print Assumptions C20_forbid_means_existing.

(* ---- userPOS not mentioned in a provider's settings ---- *)

(* the regenerated Default of UserPosMode (manual impl or derive + #[default]) is Forbid, and all three providers declare the
   key as `#[serde(default)] userPOS: UserPosMode` *)
Fact C20_unmentioned_user_pos_default_is_forbid : Guards.user_pos_default_allow = false.
Proof. vm_compute. reflexivity. Qed.

Fact C20_user_pos_key_is_optional : Guards.user_pos_key_optional = true.
Proof. vm_compute. reflexivity. Qed.

(* user-defined POS are allowed only EXPLICITLY: a mode that is not mentioned is handled exactly like a written "forbid"
   (holds by computation on the regenerated default) *)
Fact C20_unmentioned_user_pos_is_forbid : eff_mode = explicit_mode.
Proof. vm_compute. reflexivity. Qed.

(* hence: if no provider writes "allow" (each says "forbid" or nothing), an accepted configuration names only POS of the
   dictionary and registers none *)
Theorem C20_not_explicitly_allowed_means_existing : forall debug g (cfg_of : (option bool -> bool) -> config) L,
  load debug g (cfg_of eff_mode) = Ok L -> forallb forbids (c_oov (cfg_of explicit_mode)) = true ->
  l_pos L = pos g /\ forall o k, In o (c_oov (cfg_of explicit_mode)) -> In k (pos_keys o) -> In k (pos g).
Proof. rewrite C20_unmentioned_user_pos_is_forbid. exact (fun debug g cfg_of => forbid_means_existing gen_facts debug g (cfg_of explicit_mode)). Qed.
Print Assumptions C20_not_explicitly_allowed_means_existing.

(* ======================================================================================================================
   Text layer: the plugin's own readers of the category definitions (char.def) and of unk.def.
   The records the theorems above take (`Mecab lines allow`) are here PRODUCED from the two texts. *)

(* obligations on the generated shape facts of the two readers: unk.def needs >= 10 comma-separated columns, POS = columns
   4..10 = POS_DEPTH of them, '#' comments; the integer types of the three numeric columns are those of Guards.v *)
(* every shape the model of the two readers relies on (loop, trim, skip rules, tokenisers, order of the checks, column -> field,
   grouping, charDef before unkDef, CategoryType::from_str = bitflags parser) was recognised in the source as it is now *)
Fact C20_reader_shapes_recognised : UF.unrecognised_shapes = [].
Proof. vm_compute. reflexivity. Qed.

Fact C20_unk_reader_shape : unk_shape_ok.
Proof. unfold unk_shape_ok. repeat split; vm_compute; reflexivity. Qed.

Fact C20_charprop_reader_shape :
  UF.charprop_cols_guard = mkG CastNone CLt (OConst 4) /\ UF.charprop_invoke_col = 1%nat /\ UF.charprop_group_col = 2%nat
  /\ UF.charprop_length_col = 3%nat /\ UF.charprop_true_literal = [49%N] /\ UF.charprop_length_ty = U32
  /\ UF.charprop_comment = 35%N /\ UF.charprop_range_prefix = [48%N; 120%N].
Proof. repeat split; vm_compute; reflexivity. Qed.

(* std decimal parsing, mirrored: an accepted numeric column is [+|-]digits, its value the decimal value, inside the type *)
Theorem C20_number_column_spec : forall t s z, parse_int t s = Some z ->
  exists sign ds, s = sign ++ ds /\ ds <> [] /\ forallb is_digit ds = true /\ in_ity t z = true
    /\ ((sign = [] \/ sign = [43%N]) /\ z = Z.of_N (dec_value ds)
        \/ (sign = [45%N] /\ ity_min t < 0 /\ z = - Z.of_N (dec_value ds))).
Proof. exact parse_int_spec. Qed.
Print Assumptions C20_number_column_spec.

(* every category-definition text is either read into exactly one definition per line that is neither blank, a comment
   nor a range line -- in order, category = the parsed name(s), invoke/group = (column = "1"), length = decimal value of
   column 3, no category twice -- or rejected with an error value naming the first offending line, whose defect is one of:
   fewer than 4 columns, unknown category name, category defined before, length not a u32 *)
Theorem C20_charprop_text_spec : forall t,
  match read_character_property t with
  | CPOk cis => Forall2 cp_row_spec (filter cp_data_line (lines t)) cis /\ NoDup (map ci_cat cis)
  | CPErr i e =>
      exists pre raw post before,
        lines t = pre ++ raw :: post /\ i = N.of_nat (List.length pre)
        /\ charprop_lines 0 pre [] = CPOk before /\ cp_offending (rev before) raw e
  end.
Proof. exact charprop_text_spec. Qed.
Print Assumptions C20_charprop_text_spec.

(* every unk.def text is either read into exactly one template per line that is neither blank nor a comment -- in order,
   category defined by the category text, left/right/cost = decimal values of columns 1..3 within i16, POS = columns 4..10 --
   or rejected with an error value for the first offending line, whose defect is one of: fewer than 10 columns, unknown
   category name, category not defined, column 1 / 2 / 3 not an i16 *)
Theorem C20_unk_text_spec : forall cats t,
  match read_oov_text cats t with
  | UOk ts => Forall2 (unk_row_spec cats) (filter (unk_data_line cats) (lines t)) ts
  | UErr i e =>
      exists pre raw post before,
        lines t = pre ++ raw :: post /\ i = N.of_nat (List.length pre)
        /\ unk_lines cats 0 pre [] = UOk before /\ unk_offending cats raw e
  end.
Proof. exact unk_text_spec. Qed.
Print Assumptions C20_unk_text_spec.

(* the lines that yield no record are exactly the blank ones and the comments (and, for the category definitions, the
   range lines starting with 0x) *)
Theorem C20_charprop_skipped_lines : forall raw,
  cp_data_line raw = false <->
  (trim raw = [] \/ (exists c l, trim raw = c :: l /\ ((c =? UF.charprop_comment)%N || starts_with UF.charprop_range_prefix (c :: l)) = true)).
Proof. exact cp_data_line_iff. Qed.
Print Assumptions C20_charprop_skipped_lines.

Theorem C20_unk_skipped_lines : forall cats raw,
  unk_data_line cats raw = false <-> (trim raw = [] \/ exists l, trim raw = UF.unk_comment :: l).
Proof. exact unk_data_line_iff. Qed.
Print Assumptions C20_unk_skipped_lines.

(* the templates of one category are those lines' templates, in file order (oov_list) *)
Theorem C20_unk_templates_grouped : forall c ts u, In u (templates_of c ts) <-> In u ts /\ u_cat u = c.
Proof. exact templates_of_in. Qed.
Print Assumptions C20_unk_templates_grouped.

Theorem C20_unk_template_pos_arity : forall cats raw u, unk_row_spec cats raw u -> List.length (u_pos u) = UF.POS_DEPTH.
Proof. exact (row_pos_arity C20_unk_reader_shape). Qed.
Print Assumptions C20_unk_template_pos_arity.

(* the POS key handed to the parameter model is the identity of the six columns *)
Theorem C20_pos_key_injective : forall a b, Forall valid_text a -> Forall valid_text b -> pos_key a = pos_key b -> a = b.
Proof. exact pos_key_injective. Qed.
Print Assumptions C20_pos_key_injective.

(* MeCabOovPlugin::set_up on the two texts (text layer + handle_user_pos + range checks, line by line): acceptance means both
   texts read, the parameter checks accepted the produced records, and every template has its left id below num_right, its
   right id below num_left, an i16 cost, POS_DEPTH POS columns, and is stored with exactly the written values *)
Theorem C20_setup_text_sound : forall g tbl allow cd ud cats ts tbl', wf_gram g ->
  mecab_setup g tbl allow cd ud = SetupOk cats ts tbl' ->
  read_character_property cd = CPOk cats
  /\ read_oov_text (map ci_cat cats) ud = UOk (map fst ts)
  /\ mecab_lines gen_facts g tbl allow (map to_mecab_line (map fst ts)) = Ok (map snd ts, tbl')
  /\ Forall (pair_ok g) ts.
Proof. exact (setup_text_sound gen_facts C20_generated_guards_ok). Qed.
Print Assumptions C20_setup_text_sound.

(* loads or reports an error value, never panics: covers the text layer *)
Theorem C20_setup_text_never_panics : forall g tbl allow cd ud, mecab_setup g tbl allow cd ud <> SetupPanic.
Proof. exact (setup_text_never_panics gen_facts). Qed.
Print Assumptions C20_setup_text_never_panics.

(* C20_accepted_config_is_valid with the MeCab records produced by the text readers: accepted category definitions +
   accepted unk.def + an accepted load on a grammar with these dimensions => every id of every template lies within the
   dimension it is looked up against, every cost is an i16, every POS has POS_DEPTH columns *)
Theorem C20_accepted_text_config_is_valid : forall debug g inh pre post allow cd ud cats ts L, wf_gram g ->
  read_character_property cd = CPOk cats ->
  read_oov_text (map ci_cat cats) ud = UOk ts ->
  load debug g (mkCfg inh (pre ++ Mecab (map to_mecab_line ts) allow :: post)) = Ok L ->
  spec_accepts g (mkCfg inh (pre ++ Mecab (map to_mecab_line ts) allow :: post)) = true
  /\ Forall (fun u => left_id_ok g (u_left u) = true /\ right_id_ok g (u_right u) = true /\ cost_ok (u_cost u) = true
                      /\ List.length (u_pos u) = UF.POS_DEPTH) ts.
Proof. exact (accepted_text_config_is_valid gen_facts C20_generated_guards_ok). Qed.
Print Assumptions C20_accepted_text_config_is_valid.
