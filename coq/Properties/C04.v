(* C04 — Dictionary lookup returns exactly the entries that prefix-match the text.
   Only property theorems here; each is closed by `exact` of a lemma proved in Proofs/. *)
From Coq Require Import List NArith.
From SudachiVerif Require Import Model.Trie Proofs.TrieProofs.
Import ListNotations.
Open Scope N_scope.

(* for ALL arrays, texts and offsets: the iterator yields, shortest first, (value, end) of every accepted key that is a
   prefix of text[off..] -- the list computed by trying the prefixes of length 1, 2, ... in turn *)
Theorem C04_traverse_exact : forall a text off, traverse a text off = prefix_matches a text off.
Proof. exact traverse_exact. Qed.
Print Assumptions C04_traverse_exact.

(* the same as a statement about membership *)
Theorem C04_traverse_in : forall a text off v e,
  In (v, e) (traverse a text off) <->
  exists key, key <> [] /\ accept_value a key = Some v /\ is_prefix key (skipn off text) /\ e = N.of_nat (off + length key).
Proof. exact traverse_in. Qed.
Print Assumptions C04_traverse_in.

(* each match is reported once and ends strictly increase *)
Theorem C04_traverse_once : forall a text off,
  ends_above (N.of_nat off) (traverse a text off) /\ NoDup (map snd (traverse a text off)).
Proof. intros a text off. split; [exact (traverse_ends_increase a text off)|exact (traverse_once a text off)]. Qed.
Print Assumptions C04_traverse_once.

(* the enumerator is a certificate: when it answers, its answer is exactly the set of accepted byte keys *)
Theorem C04_check_trie_sound : forall a fuel ks,
  keys_of a fuel = Some ks -> forall key v, In (key, v) ks <-> (bytes key /\ accept_value a key = Some v).
Proof. exact check_trie_sound. Qed.
Print Assumptions C04_check_trie_sound.

(* hence a certified array answers every query from the enumerated table, for every byte text and offset *)
Theorem C04_traverse_from_table : forall a fuel ks text off,
  keys_of a fuel = Some ks -> bytes text ->
  forall v e, In (v, e) (traverse a text off) <->
              exists key, key <> [] /\ In (key, v) ks /\ is_prefix key (skipn off text) /\ e = N.of_nat (off + length key).
Proof. exact traverse_from_table. Qed.
Print Assumptions C04_traverse_from_table.
