(* C04 — Dictionary lookup returns exactly the entries that prefix-match the text.
   Only property theorems here; each is closed by `exact` of a lemma proved in Proofs/. *)
From Coq Require Import List NArith.
From SudachiVerif Require Generated.TrieBits.
From SudachiVerif Require Import Model.Trie Model.WordIdTable Model.LexSet.
From SudachiVerif Require Import Proofs.TrieProofs Proofs.WordIdTableProofs Proofs.LexSetProofs.
From SudachiVerif Require Import Model.IndexBuild Proofs.IndexBuildProofs.
From SudachiVerif Require Model.DictCands.
From SudachiVerif Require Model.Buffer Model.Lattice Model.BuildLattice Proofs.PipelineProofs Proofs.BuildLatticeProofs Proofs.BuildOptimal Proofs.LookupLattice.
From Coq Require ZArith String.
From SudachiVerif Require Generated.IndexFacts.
Import ListNotations.
Open Scope N_scope.

(* ---- decidable obligations on the facts re-read from the source ---- *)
(* WordId layout: dic << 28 | word, WORD_MASK = 2^28 - 1, dic mask 0xf *)
Fact C04_fact_layout : layout_ok = true.
Proof. vm_compute. reflexivity. Qed.
(* the count byte of a table group can hold the writer's limit *)
Fact C04_fact_group_limit : Generated.TrieBits.WID_MAX_GROUP <= 255.
Proof. vm_compute. discriminate. Qed.

(* the builder indexes exactly the rows with a non-negative left id (should_index is `left_id >= 0`) *)
Fact C04_fact_should_index : index_rule_ok = true.
Proof. vm_compute. reflexivity. Qed.

Theorem C04_builder_indexes_nonnegative : forall r : row, builder_indexes (snd r) = indexed r.
Proof. exact (builder_indexes_spec C04_fact_should_index). Qed.
Print Assumptions C04_builder_indexes_nonnegative.

(* ---- the reader ---- *)
(* for ALL arrays, texts and offsets: the iterator yields, shortest first, (value, end) of every accepted key that is a
   prefix of text[off..] -- the list computed by trying the prefixes of length 1, 2, ... in turn *)
Theorem C04_traverse_exact : forall a text off, traverse a text off = prefix_matches a text off.
Proof. exact traverse_exact. Qed.
Print Assumptions C04_traverse_exact.

(* the same as a statement about membership *)
Theorem C04_traverse_in : forall a text off v e,
  In (v, e) (traverse a text off) <->
  exists key, key <> [] /\ accept_value a key = Some v /\ is_prefix key (skipn off text) /\ e = N.of_nat (off + length key).
Proof. exact traverse_in. Qed.
Print Assumptions C04_traverse_in.

(* each match is reported once and ends strictly increase *)
Theorem C04_traverse_once : forall a text off,
  ends_above (N.of_nat off) (traverse a text off) /\ NoDup (map snd (traverse a text off)).
Proof. intros a text off. split; [exact (traverse_ends_increase a text off)|exact (traverse_once a text off)]. Qed.
Print Assumptions C04_traverse_once.

(* the enumerator is a certificate: when it answers, its answer is exactly the set of accepted byte keys *)
Theorem C04_check_trie_sound : forall a fuel ks,
  keys_of a fuel = Some ks -> forall key v, In (key, v) ks <-> (bytes key /\ accept_value a key = Some v).
Proof. exact check_trie_sound. Qed.
Print Assumptions C04_check_trie_sound.

(* hence a certified array answers every query from the enumerated table, for every byte text and offset *)
Theorem C04_traverse_from_table : forall a fuel ks text off,
  keys_of a fuel = Some ks -> bytes text ->
  forall v e, In (v, e) (traverse a text off) <->
              exists key, key <> [] /\ In (key, v) ks /\ is_prefix key (skipn off text) /\ e = N.of_nat (off + length key).
Proof. exact traverse_from_table. Qed.
Print Assumptions C04_traverse_from_table.

(* ... and on a certified array the argument of every unchecked read (get_unchecked) is inside the array: the faithful,
   bounds-checked traversal never fails and equals the totalised one, for every byte text and offset *)
Theorem C04_traverse_in_bounds : forall a fuel ks text off,
  keys_of a fuel = Some ks -> bytes text -> traverse_opt a text off = Some (traverse a text off).
Proof. exact traverse_in_bounds. Qed.
Print Assumptions C04_traverse_in_bounds.

(* ---- the word-id table ---- *)
(* every group written by build_word_id_table (count byte + little-endian u32s) is read back unchanged at its recorded
   offset, for any number of groups / any offsets (> 255, > 65535 ...); more than WID_MAX_GROUP ids are rejected *)
Theorem C04_wid_table_roundtrip : forall gs tbl offs,
  encode_groups gs = Some (tbl, offs) -> (forall g, In g gs -> Forall u32 g) ->
  length offs = length gs /\
  forall i g, nth_error gs i = Some g -> exists o, nth_error offs i = Some o /\ entries tbl o = Some g.
Proof. intros gs tbl offs H Hall. exact (proj2 (wid_table_roundtrip C04_fact_group_limit gs [] tbl offs H Hall)). Qed.
Print Assumptions C04_wid_table_roundtrip.

Theorem C04_group_limit_rejected : forall g,
  encode_group g = None <-> Generated.TrieBits.WID_MAX_GROUP < N.of_nat (length g).
Proof. exact encode_group_rejects. Qed.
Print Assumptions C04_group_limit_rejected.

(* ---- Lexicon::lookup and LexiconSet::lookup ---- *)
(* one lexicon returns exactly: for every accepted key that is a prefix of text[off..], every id of the key's table
   group, stamped with the lexicon's number, with end = off + |key| *)
Theorem C04_lex_lookup_in : forall L dic text off l,
  lex_lookup L dic text off = Some l ->
  forall w e, In (w, e) l <->
    exists key v ids r, key <> [] /\ accept_value (lx_trie L) key = Some v /\ is_prefix key (skipn off text)
                        /\ e = N.of_nat (off + length key) /\ entries (lx_table L) v = Some ids /\ In r ids /\ w = stamp dic r.
Proof. exact lex_lookup_in. Qed.
Print Assumptions C04_lex_lookup_in.

(* the set of 1..15 layered lexicons returns exactly the union of what each lexicon d returns with dictionary number d *)
Theorem C04_lookup_set_in : forall lexs text off l,
  lookup_set lexs text off = Some l ->
  forall w e, In (w, e) l <->
    exists d L ld, nth_error lexs d = Some L /\ lex_lookup L (N.of_nat d) text off = Some ld /\ In (w, e) ld.
Proof. exact lookup_set_in. Qed.
Print Assumptions C04_lookup_set_in.

(* word number and dictionary number can be read back from a stamped id: entries of different dictionaries / rows never collide *)
Theorem C04_stamp_inj : forall d1 r1 d2 r2,
  d1 < 16 -> d2 < 16 -> r1 <= WORD_MASK -> r2 <= WORD_MASK -> stamp d1 r1 = stamp d2 r2 -> d1 = d2 /\ r1 = r2.
Proof. exact (stamp_inj C04_fact_layout). Qed.
Print Assumptions C04_stamp_inj.

Theorem C04_stamp_parts : forall d raw, d < 16 -> raw <= WORD_MASK ->
  dic_of (stamp d raw) = d /\ word_of (stamp d raw) = raw.
Proof. intros d raw Hd Hr. split; [exact (dic_of_stamp C04_fact_layout d raw Hd Hr)|exact (word_of_stamp C04_fact_layout d raw Hd Hr)]. Qed.
Print Assumptions C04_stamp_parts.

(* ---- the certificate closes the loop with the source CSV ---- *)
(* If the per-dictionary check succeeds (the verified enumerator, run on the bytes yada produced, returns exactly the
   indexed surfaces of the CSV, and every key's table group lists exactly the rows carrying that surface), then for EVERY
   byte text and EVERY offset Lexicon::lookup succeeds and returns exactly what the naive scan of the CSV returns:
   indexed rows whose surface is a prefix of the text at that offset, with end offset, word number and dictionary number *)
Theorem C04_lookup_exact_of_certificate : forall L rows fuel,
  cert_lex L rows fuel = true ->
  forall dic text off, N.land dic Generated.LexFacts.DIC_MASK = dic -> bytes text ->
  exists l, lex_lookup L dic text off = Some l /\
            forall w e, In (w, e) l <-> In (w, e) (naive_lex dic rows text off).
Proof. exact lex_lookup_exact_of_cert. Qed.
Print Assumptions C04_lookup_exact_of_certificate.

(* exact-surface lookup (MorphemeList::lookup) returns the word ids of the entries of lookup(q, 0) ending at |q| *)
Theorem C04_exact_lookup_spec : forall lexs q ids,
  exact_lookup lexs q = Some ids ->
  forall w, In w ids <-> exists l, lookup_set lexs q 0 = Some l /\ In (w, N.of_nat (length q)) l.
Proof. exact exact_lookup_spec. Qed.
Print Assumptions C04_exact_lookup_spec.

(* ... each exactly once: on a certified dictionary no entry is reported twice, for every byte text and offset *)
Theorem C04_lookup_once_of_certificate : forall L rows fuel,
  cert_lex L rows fuel = true ->
  forall dic text off l, dic < 16 -> bytes text -> lex_lookup L dic text off = Some l -> NoDup l.
Proof. exact (fun L rows fuel => lex_lookup_nodup_of_cert L rows fuel C04_fact_layout). Qed.
Print Assumptions C04_lookup_once_of_certificate.

(* ---- the index the builder hands to the table writer and the trie builder (IndexBuilder, write_index) ---- *)
(* shapes re-read from dic/build/index.rs, build/mod.rs write_index, build/lexicon.rs read_bytes: add = entry().or_default().push,
   ids = positions among ALL rows, offset taken before a group is written, (key, offset) pairs to yada, every csv record is a
   row (no header line, no comment character, no trimming) *)
Fact C04_fact_index_shapes : index_shapes_ok = true.
Proof. vm_compute. reflexivity. Qed.

(* for EVERY lexicon (any order, scattered homographs, non-indexed rows in between): the (surface, ids) table is exactly
   "all rows with left_id >= 0 grouped by surface, ids = their row numbers in row order", one group per distinct indexed surface,
   groups in order of first occurrence *)
Theorem C04_index_groups_spec : forall rows,
  NoDup (map fst (index_groups rows)) /\
  (forall k ids, In (k, ids) (index_groups rows) <-> (ids = rows_with k rows /\ ids <> [])) /\
  map fst (index_groups rows) = first_occurrences (indexed_surfaces rows).
Proof. exact (index_groups_spec C04_fact_index_shapes C04_fact_should_index). Qed.
Print Assumptions C04_index_groups_spec.

(* ... and the word-id table written from it: every (key, offset) pair handed to the trie builder points at a group that reads
   back as exactly the row numbers of the indexed rows with that surface; every indexed surface is a key; keys are distinct *)
Theorem C04_index_table_spec : forall rows tbl kos,
  N.of_nat (length rows) <= 4294967296 -> index_table rows = Some (tbl, kos) ->
  NoDup (map fst kos) /\
  (forall k o, In (k, o) kos -> rows_with k rows <> [] /\ entries tbl o = Some (rows_with k rows)) /\
  (forall r, In r rows -> indexed r = true -> exists o, In (fst r, o) kos).
Proof. exact (fun rows tbl kos => index_table_spec C04_fact_index_shapes C04_fact_should_index rows tbl kos C04_fact_group_limit). Qed.
Print Assumptions C04_index_table_spec.

(* closing the loop through the model: if the model of IndexBuilder run on the CSV reproduces the word-id table section byte for
   byte and the verified enumerator reads exactly the model's (key, offset) pairs out of the trie section (both checked on
   every compiled dictionary of the correspondence run), then for EVERY byte text and offset lookup = naive CSV scan.  What is
   validated per dictionary instead of proved is the yada builder alone. *)
Theorem C04_lookup_exact_of_index_model : forall L rows fuel,
  N.of_nat (length rows) <= 268435456 -> index_cert L rows fuel = true ->
  forall dic text off, N.land dic Generated.LexFacts.DIC_MASK = dic -> bytes text ->
  exists l, lex_lookup L dic text off = Some l /\
            forall w e, In (w, e) l <-> In (w, e) (naive_lex dic rows text off).
Proof.
  exact (fun L rows fuel Hlen => lex_lookup_exact_of_index_cert C04_fact_index_shapes C04_fact_should_index L rows fuel
                                   C04_fact_layout C04_fact_group_limit Hlen).
Qed.
Print Assumptions C04_lookup_exact_of_index_model.

(* ---- lookup results as lattice nodes (ties C04 to C02's build_optimal) ---- *)
Close Scope N_scope.
Open Scope nat_scope.
(* For EVERY array, text and offset an entry found at byte offset `off` ends strictly after `off` and inside the text (keys are
   never empty: the iterator yields only after consuming a byte).  If moreover the array is certified and all its keys are
   whole UTF-8 strings (`chars_ok`: every character = a lead byte followed by exactly width-1 continuation bytes), the
   text is a byte string that is valid UTF-8 in the same sense and `off` is a character boundary, then `end` is a character
   boundary of the text. *)
Theorem C04_lookup_candidates_wf : forall a text off v e,
  In (v, e) (traverse a text off) ->
  (off < N.to_nat e <= length text) /\ (forall fuel ks, keys_of a fuel = Some ks -> (forall k v', In (k, v') ks -> chars_ok k) ->
                   bytes text -> chars_ok text -> Buffer.is_boundary text off = true ->
                   Buffer.is_boundary text (N.to_nat e) = true).
Proof.
  exact (fun a text off v e Hin =>
           conj (LookupLattice.traverse_range a text off v e Hin)
                (fun fuel ks Hk Hutf Hb Ht Hoff => LookupLattice.traverse_end_boundary a fuel ks text off v e Hk Hutf Hb Ht Hoff Hin)).
Qed.
Print Assumptions C04_lookup_candidates_wf.

(* the per-dictionary certificate gives the key hypothesis: enumerated keys = CSV surfaces, which are Rust strs *)
Theorem C04_cert_keys_utf8 : forall L rows fuel,
  cert_lex L rows fuel = true -> (forall r, In r rows -> chars_ok (fst r)) -> LookupLattice.lex_keys_utf8 L.
Proof. exact LookupLattice.cert_keys_utf8. Qed.
Print Assumptions C04_cert_keys_utf8.

(* build_lattice makes its dictionary nodes the way Model/DictCands.v says (shape re-read from stateful_tokenizer.rs and
   buffer/mod.rs; behaviour compared on every text of the correspondence run through Lattice::verif_nodes) *)
Fact C04_fact_lattice_lookup_shape : lattice_shape_ok = true.
Proof. vm_compute. reflexivity. Qed.

(* the offset tables of InputBuffer are the ones C08 proves about *)
Fact C04_fact_buffer_cfg : Buffer.cfg_ok Buffer.the_cfg = true.
Proof. vm_compute. reflexivity. Qed.

(* the nodes build_lattice makes from lookup results at character ch_off (char begin = ch_off, byte begin = mod_c2b[ch_off],
   char end = ch_idx(end) = mod_b2c[end], can_bow filter, any word parameters) are well formed: begin = ch_off < end <= number
   of characters -- for certified lexicons, every valid text and every character position *)
Theorem C04_lookup_lattice_nodes_wf : forall lexs params bow t ch_off m,
  (forall L, In L lexs -> LookupLattice.lex_keys_utf8 L) -> bytes t -> chars_ok t -> (ch_off < PipelineProofs.nchars t) ->
  In m (DictCands.dict_cands Buffer.the_cfg lexs params bow t ch_off) ->
  BuildLatticeProofs.node_wf (PipelineProofs.nchars t) ch_off m.
Proof. exact (LookupLattice.dict_cands_wf Buffer.the_cfg C04_fact_buffer_cfg). Qed.
Print Assumptions C04_lookup_lattice_nodes_wf.

(* the dictionary half of `offered_wf`, the hypothesis of C02_build_optimal: with candidates = dictionary nodes ++ OOV nodes *)
Theorem C04_offered_wf_from_lookup : forall lexs params bow t oov fallback,
  (forall L, In L lexs -> LookupLattice.lex_keys_utf8 L) -> bytes t -> chars_ok t ->
  (forall p m, In m (oov p) -> BuildLatticeProofs.node_wf (PipelineProofs.nchars t) p m) ->
  (forall p f, fallback p = Some f -> BuildLatticeProofs.node_wf (PipelineProofs.nchars t) p f) ->
  forall p m, (p < PipelineProofs.nchars t) ->
    In m (BuildOptimal.offered (fun q => DictCands.dict_cands Buffer.the_cfg lexs params bow t q ++ oov q) fallback p) ->
    BuildLatticeProofs.node_wf (PipelineProofs.nchars t) p m.
Proof. exact (LookupLattice.offered_wf_from_lookup Buffer.the_cfg C04_fact_buffer_cfg). Qed.
Print Assumptions C04_offered_wf_from_lookup.

(* C02's optimality theorem for the tokenizer's own loop with the dictionary half of its hypothesis discharged: candidates at
   character p (p < number of characters) = nodes made from lookup results of certified lexicons ++ any well-formed OOV nodes *)
Theorem C04_build_optimal_with_dictionary : forall conn lexs params bow t oov fallback L r i c,
  (forall L0, In L0 lexs -> LookupLattice.lex_keys_utf8 L0) -> bytes t -> chars_ok t ->
  (forall p m, p < PipelineProofs.nchars t -> In m (oov p) -> BuildLatticeProofs.node_wf (PipelineProofs.nchars t) p m) ->
  (forall p f, p < PipelineProofs.nchars t -> fallback p = Some f -> BuildLatticeProofs.node_wf (PipelineProofs.nchars t) p f) ->
  0 < PipelineProofs.nchars t ->
  BuildLattice.build conn (DictCands.lattice_cands Buffer.the_cfg lexs params bow t oov)
                     (DictCands.lattice_fallback t fallback) (PipelineProofs.nchars t) = Some (L, (r, i, c)) ->
  (exists p, BuildOptimal.chainP (BuildOptimal.Offered (DictCands.lattice_cands Buffer.the_cfg lexs params bow t oov)
                                                       (DictCands.lattice_fallback t fallback)) 0 (PipelineProofs.nchars t) p
             /\ Lattice.path_cost conn p = c) /\
  (forall p, BuildOptimal.chainP (BuildOptimal.Offered (DictCands.lattice_cands Buffer.the_cfg lexs params bow t oov)
                                                       (DictCands.lattice_fallback t fallback)) 0 (PipelineProofs.nchars t) p ->
             BinInt.Z.le c (Lattice.path_cost conn p)).
Proof. exact (LookupLattice.build_optimal_with_dictionary Buffer.the_cfg C04_fact_buffer_cfg). Qed.
Print Assumptions C04_build_optimal_with_dictionary.

(* ---- a lexicon read from several files ---- *)
(* DictBuilder::read_lexicon appends: every file goes to the same reader, which only pushes records (no clear / sort / dedup) *)
Fact C04_fact_read_lexicon_appends : Generated.IndexFacts.read_lexicon_appends = true.
Proof. vm_compute. reflexivity. Qed.

(* reading files f1 .. fn one after the other with a running word number gives the index of their CONCATENATION in the order
   given: by C04_index_groups_spec the ids of a surface are then the positions of its indexed rows in that concatenation
   (a file given twice contributes its rows twice).  The order in which a front end hands the files over is its own matter:
   sudachi-cli's is pinned by builder G's fact and run by the CLI stages of C04 / C05 / C12. *)
Theorem C04_read_files_concat : forall fs : list (list row),
  fst (fst (read_files fs)) = index_groups (concat fs).
Proof. exact read_files_concat. Qed.
Print Assumptions C04_read_files_concat.

(* ---- no maximum key length ---- *)
(* C04_traverse_exact is unbounded in the length of the key and of the text.  What ties that to the code: nobody between the
   tokenizer and the double array shortens the text handed to lookup -- build_lattice passes the whole current text and the byte
   offset, LexiconSet::lookup and Lexicon::lookup pass both on unchanged, common_prefix_iterator keeps the whole slice and
   TrieEntryIter::next runs `for i in self.offset..self.data.len()` (no `.min(..)`, no sub-slice, no fixed window) *)
Fact C04_fact_lookup_input_untruncated : Generated.TrieBits.lookup_input_untruncated = true.
Proof. vm_compute. reflexivity. Qed.
