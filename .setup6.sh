#!/bin/sh
# Offline build of the framework after a fresh restore: fact files, the whole Coq development, the harness crate.
set -e
cd "$(dirname "$0")"
export CARGO_NET_OFFLINE=true
mkdir -p .work evidence
python3 gen/facts.py || true
sh coq/mk_project.sh
( cd coq && timeout 3000 make -j6 ) || echo "setup: coq build incomplete (checks will report)"
REPO="${VERIF_REPO:-/repo}"
cp "$REPO/Cargo.lock" harness/Cargo.lock
sed "s|@REPO@|$REPO|" harness/Cargo.toml.in > harness/Cargo.toml
( cd harness && CARGO_TARGET_DIR=../.work/target timeout 3000 cargo build --offline --features hooks ) || echo "setup: harness build failed (checks will report)"
echo "setup done"
